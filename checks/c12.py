"""C12 — atomic file replacement through srctools.AtomicWriter (and BSP.save).

Stages: translator (Gen/AtomicWriter_gen.v) -> proofs (Props/C12.v) -> instance obligations on the generated cfg ->
correspondence (the real operation trace / directory, under every crash point, every single injected OSError and every
interleaving of two writers, against the model evaluated by vm_compute) -> oracle (the property itself, checked
directly on the real directory after every such run).
"""
from __future__ import annotations

import builtins
import errno
import io
import os
import shutil
import threading
from pathlib import Path
from typing import Any, Callable

from harness.common import REPO, Ck, coq_list, parse_coq_nested
from translate import c12_atomic

MANIFEST = dict(
    technique='Rocq proof (small-step model of the writer protocol; invariant over all schedules, crash points and fault '
              'patterns of two interleaved writers; AtomicWriter.__exit__ transliterated into a statement language and '
              'interpreted symbolically in the kernel into decision trees, with a proved refinement from the tree machine '
              'to the flag machine) + executed crash/fault/interleaving enumeration on the real code compared with the '
              'model by vm_compute',
    text='Theorems in Props/C12.v, for every exit protocol x whose decision trees are in the modelled family with the good '
         'flags (proto_ok x = true, discharged for the program generated from today\'s source by vm_compute): at every '
         'point of every schedule of two writers (any crash point, any injected OSErrors) each destination holds its '
         'complete old or complete new token list, new exactly after its rename succeeded; any OSError or body exception '
         'means the writer never commits and the destination is unchanged; a finished writer leaves every temp name as it '
         'was unless its cleanup unlink itself raised; two writers never hold the same temp name, commit exactly their own '
         'data and touch nothing that existed before; two writers to the SAME destination leave old or one complete '
         'content; the temp-name loop settles on the least free index and no interleaving makes an index exceed N+2 '
         '(N = highest stale temp index); BSP.save = rebuild phase without file-system operations + one writer. '
         'One object used for several with-blocks (round 3, SM/AtomicReuse.v): the generated object aw_obj carries the '
         'attribute slots __exit__ mentions, their values after __init__, what __enter__/make_tempfile assign on every '
         'entry and which attributes are constant; reuse_indep aw_obj (kernel enumeration of EVERY attribute state) says the '
         'exit protocol is the same whatever earlier uses left behind, and then every use of every history of successful / '
         'abandoned / failing / killed uses is a good single use relative to the directory it started in, and temp files '
         'do not accumulate (c12_reuse_history, c12_reuse_no_temp_accumulates; a flag attribute that nothing resets is '
         'refuted by a computed history). '
         'translate/c12_atomic.py transliterates __exit__ statement by statement (fail-closed) and reads the facts of '
         'make_tempfile and BSP.save (helper methods of the class and single-assignment locals are inlined first, '
         'keyword and positional arguments are the same call); the kernel computes the decision trees and 37 named obligations (order of close / '
         'rename / unlink, no rename after a failing close or a body exception, every failure path unlinks, no exception '
         'swallowed, loop shape, only AtomicWriter output in BSP.save). The real AtomicWriter and BSP.save (existing and '
         'fresh destination, raising body, raising rebuild phase) are run under file-system interposition with a kill '
         '(os._exit in a forked child) before every operation, an OSError at every operation, all interleavings / all '
         'pairs of operation boundaries of two writers and an OSError at every operation of several schedules; traces, '
         'directories, rename and raised/returned outcomes are compared with the tree machine of the generated program. '
         'Reuse histories of one real object (words over S = body returns / B = body raises, an OSError at every operation '
         'of the whole history, a kill before every operation of the later uses) are judged use by use by the oracle and '
         'compared with corr_hist aw_obj; the instance attributes of the real object after __init__, inside every body and '
         'after every __exit__ are compared with the generated object facts and the leaf environment of __exit__ '
         '(corr_attrs). '
         'The kernel interpreter and the transliteration are themselves tied to CPython: fixed and random __exit__ bodies '
         'of the subset run against mock objects under result oracles and must perform the same calls and end the same '
         'way as walk (exit_tree ..). '
         'Round 4 (SM/AtomicRetry.v): what a refused operation raises is a run class (an OSError that is no named '
         'subclass, each of 8 named subclasses — PermissionError, FileExistsError, IsADirectoryError, ... —, '
         'KeyboardInterrupt); with_class r o specialises the handler classes of __exit__ to that class, so every theorem '
         'about objects holds per class and all 34 instance obligations are discharged for every class. The statement '
         'language has for-range loops with break / continue / else; a retried rename gives a chain of rename nodes; '
         'collapse merges refused attempts and a proved stutter simulation transfers the theorems to protocols with '
         'retries (c12_retry_*, c12_property = the whole property in one statement); proto_outcome_ok => the with '
         'statement returns normally exactly when a rename succeeded (any protocol); the family with a retried rename is '
         'good iff exhausting the attempts takes the failure path, the three other continuations refuted for every number '
         'of attempts (the unconditional commit after the loop is seeded c12_6). The statements of make_tempfile before '
         'mkdir are a generated program too: entry_inert (they touch nothing whenever no temp file is open; the shape of '
         'seeded c12_5 is refuted). Executed: every operation x 14 exception classes (4 errno values of plain OSError, '
         '8 subclasses, FileNotFoundError, KeyboardInterrupt) x persistent / refused 1, 2, 3, 5 times, single writers, '
         'BSP.save and reuse histories, compared with the tree machine of the class; reuse histories of one writer '
         'interleaved with an open second writer at every pair of operation boundaries, judged by the oracle and compared '
         'with prunt aw_proto (SM/AtomicProduct.v): c12_product_isolated proves, for every history of uses of A and every '
         'interleaving with B, that B\'s destination is old or complete new, that A and B never hold the same temp name, '
         'that the temp file B holds keeps exactly what B has written, and that nothing else changes (the round-1 '
         'invariant, re-based at A\'s destination, survives the restart of A). '
         'Round 5 (SM/AtomicAbandon.v): a use may be ABANDONED without __exit__ (entered by hand, a generator never '
         'resumed): the object then still holds an open handle and its temp file when it is entered again. The generated '
         'prologue of make_tempfile is judged in every attribute state WITH a handle as well: reentry_ok (its decision tree '
         'is close the handle, unlink the file by name, only then go on to mkdir and the temp-name loop; a failing close '
         'fails the entry) and reentry_forgets (whenever the entry fails the handle is forgotten, so no later entry comes '
         'back to the stale name). c12_reentry_after_abandoned_use: for every such tree, every directory and every pattern of '
         'refused operations in the prologue and the following use, nothing but the held temp file changes in the prologue '
         'and the use that follows is a good single use — the destination is old or the complete new content of THIS use. A '
         'prologue that keeps a handle that is still open and returns (seeded c12_8: truncate(0) without seek) has the tree '
         'XBad: refuted. `<handle>.closed` is translated twice (open / closed handle), truncate / seek / flush of the handle '
         'are directory-neutral statements. Executed: reuse histories over S, B and A (entered, one or two chunks written, '
         'never exited; bytes, utf8, utf16, buffer 1 / small / 8192, stale temps), fault-free, one OSError at every '
         'operation, exception classes, kills; the committed bytes are compared exactly, the first operations of the entry '
         'after an A must be close + unlink of the held temp file; next to an open second writer the word AES (left open, '
         'the open of the next entry refused, used again) at every pair of operation boundaries: no use may come back to a '
         'temp NAME it no longer holds (this found the defect repaired by source commit b5679bd).',
    note='Trusted: Coq kernel + vm_compute, translate/c12_atomic.py (transliteration only: the symbolic execution is in '
         'the kernel; both are tied by the executed correspondences, the CPython one by sampling), the interposer in checks/c12.py (FileIO subclass + patched '
         'io.open/os.*), POSIX rename atomicity and O_EXCL (modelled, not verified), page cache surviving a process kill '
         '(no power-loss durability claimed). Contents are abstract write tokens in the model; the harness maps them to '
         'bytes. An OSError raised by the cleanup unlink itself is excluded from "no temp file left" (no implementation '
         'can satisfy it); pathlib swallows an OSError from mkdir of an existing directory, so that fault is only injected '
         'when the directory is created. Exit programs outside the five-flag family are modelled and compared but the '
         'theorems do not apply to them (obligation exit_protocol_in_model_family). Buffering inside BufferedWriter/'
         'TextIOWrapper, Path.mkdir internals and BSP lump serialisation are only exercised, not modelled. Reuse: the '
         'object facts (_object_facts in the translator) are read, not proved; they are tied by the executed attribute '
         'correspondence. Attribute values outside None/True/False/handle/temp name/destination/exception are "unknown" '
         '(reading one is outside the model: obligation exit_no_unmodelled_step). Entering an object that still holds a '
         'temp file: the prologue is a generated program with obligations and a theorem about its tree on the directory; the '
         'histories with abandoned uses are judged by the oracle only (corr_hist models complete uses), `<handle>.closed` is '
         'a translation-time case split, not a value of the model, and what truncate does to the stream position is outside '
         'the token model (the shape obligation forbids keeping the file instead). Two writers ENTERED on one object at the '
         'same time ("not reentrant") is not covered. Run classes: all refused operations of one run raise '
         'the same class (mixed classes in one run are not modelled; when no handler names a subclass the trees are equal '
         'for all classes and the restriction is void). InterruptedError / BlockingIOError are not injected into raw writes '
         '(io.BufferedWriter gives them a meaning of its own); a persistent FileExistsError at open is not injected (the '
         'unbounded temp-name loop cannot end). The reuse theorems need proto_ok of the uncollapsed protocol: histories of '
         'an object WITH a retry loop are executed and compared, not proved. The reuse x concurrent-writer product theorem is '
         'for protocols without retries (proto_safe), one concurrent writer, and a history that ends at the first use that '
         'is killed or leaves its temp file; A\'s own destination across the history is covered by c12_reuse_history (A '
         'alone) and by the oracle (A with B). Loops other than `for <name> in range(<literal>)`, a loop variable that is read, `raise <OSError '
         'subclass>(..)` fail closed.',
)

IMPORTS = ['SV.SM.AtomicWriter', 'SV.SM.AtomicExit', 'SV.SM.AtomicReuse', 'SV.SM.AtomicRetry', 'SV.SM.AtomicProduct',
           'SV.SM.AtomicAbandon',
           'SV.Gen.AtomicWriter_gen', 'Coq.Lists.List', 'Coq.Bool.Bool',
           'Coq.Arith.PeanoNat']
PRE = 'Import ListNotations.\n'

OLD_TOK = 100      # File k had content [OLD_TOK + k] before
STALE_TOK = 110    # stale tmp_i had content [STALE_TOK + i] before
W_MODES = set('wxa+')


def deferred(ck: Any) -> '_Deferred':
    base = getattr(ck, '_ck', ck)            # a _Keyed wrapper stands for its Ck
    if not hasattr(base, '_c12_deferred'):
        base._c12_deferred = _Deferred(base)
    return base._c12_deferred


def is_big(ck: Ck) -> bool:
    """Thorough budgets: the thorough tier, or a broken tie for which no failing input has been found yet (the budgets
    are escalated in order to find one; once the search has a concrete violation the remaining stages run with the
    `escalated` budgets: a mutated tree took 530-550 s in the quick tier, most of it in the full BSP.save and
    two-writer matrices after the replays were already written)."""
    return ck.thorough or (bool(ck.tie_broken) and not ck.violations)


def escalated(ck: Ck) -> bool:
    """Also true when the AST digest of AtomicWriter is not one the model was written against (DESIGN 5.4) or a tie is
    broken: more random scenarios, more histories, three times the sample of BSP.save kill points, but not the full
    thorough matrix."""
    return is_big(ck) or bool(ck.tie_broken) or bool(ck.extra.get('escalated_by_digest'))


def budget(ck: Ck, quick: int, thorough: int) -> int:
    return thorough if escalated(ck) else quick


class BodyError(Exception):
    """Raised by the caller's body in 'raise' scenarios."""


class HangError(BaseException):
    """Raised inside the implementation when a run performs far too many file-system operations or does not come back
    in time (a fault made it loop): the run ends as a failing input, not as a hung check."""


MAX_OPS = 20000          # no scenario comes near (BSP.save: a few hundred raw writes)
RUN_SECONDS = 30         # wall-clock limit of one call into the implementation (normal: milliseconds; 5x rule: the
#                          slowest run, a BSP.save under persistent sleeping retries of a mutated tree, takes < 2 s)


class deadline:
    """SIGALRM around one call into the implementation (main thread only; elsewhere the operation cap alone applies)."""

    def __init__(self, seconds: int = RUN_SECONDS) -> None:
        self.seconds = seconds
        self.on = False

    def __enter__(self) -> 'deadline':
        import signal
        if threading.current_thread() is threading.main_thread():
            def boom(signum: int, frame: Any) -> None:
                raise HangError(f'no result after {self.seconds} s')
            self.old = signal.signal(signal.SIGALRM, boom)
            signal.alarm(self.seconds)
            self.on = True
        return self

    def __exit__(self, *a: Any) -> None:
        import signal
        if self.on:
            signal.alarm(0)
            signal.signal(signal.SIGALRM, self.old)


# The exceptions a refused file-system operation is made to raise.  name -> (constructor, run class of the model:
# 'generic' = an OSError that is no named subclass, 'sub:<Class>' = that subclass of OSError, 'kbd' = not an OSError
# at all, None = oracle only (FileNotFoundError means "the file is gone" in the model, not "refused")).
def _oserr(code: int) -> Callable[[str], BaseException]:
    return lambda name: OSError(code, 'injected fault', name)       # the constructor picks the subclass from errno


FAULT_CLASSES: dict[str, tuple[Callable[[str], BaseException], str | None]] = {
    'OSError:EIO': (_oserr(errno.EIO), 'generic'),
    'OSError:ENOSPC': (_oserr(errno.ENOSPC), 'generic'),
    'OSError:EROFS': (_oserr(errno.EROFS), 'generic'),
    'OSError:EBUSY': (_oserr(errno.EBUSY), 'generic'),
    'PermissionError:EACCES': (_oserr(errno.EACCES), 'sub:PermissionError'),
    'PermissionError:EPERM': (_oserr(errno.EPERM), 'sub:PermissionError'),
    'FileExistsError': (_oserr(errno.EEXIST), 'sub:FileExistsError'),
    'IsADirectoryError': (_oserr(errno.EISDIR), 'sub:IsADirectoryError'),
    'NotADirectoryError': (_oserr(errno.ENOTDIR), 'sub:NotADirectoryError'),
    'InterruptedError': (_oserr(errno.EINTR), 'sub:InterruptedError'),
    'BlockingIOError': (_oserr(errno.EAGAIN), 'sub:BlockingIOError'),
    'TimeoutError': (_oserr(errno.ETIMEDOUT), 'sub:TimeoutError'),
    'FileNotFoundError': (_oserr(errno.ENOENT), None),
    'KeyboardInterrupt': (lambda name: KeyboardInterrupt(), 'kbd'),
}
assert all(type(mk('x')).__name__ == n.split(':')[0] for n, (mk, _r) in FAULT_CLASSES.items())


# =============================================================================================== interposition
class FsSim:
    """In-process interposition of the file API below `root`: records every mutating operation, can kill the process
    before the (crash_at+1)-th operation, inject one OSError, and hand control to a scheduler between operations."""

    def __init__(self, root: str, bufsize: int = 8192, fault_at: int | None = None, crash_at: int | None = None,
                 sched: 'Sched | None' = None, plan: dict | None = None) -> None:
        self.root = os.path.realpath(root) + os.sep
        self.bufsize = bufsize
        self.fault_at = fault_at
        # plan = {'at': k, 'cls': name in FAULT_CLASSES, 'times': n | None}: operation k is refused with that exception,
        # and so are the next operations of the same kind on the same name — all of them (times None: persistent) or
        # until `times` operations have been refused (transient: then it succeeds)
        self.plan = plan
        self.plan_sig: tuple | None = None
        self.plan_left = 0
        self.use_by_w: dict[int, int] = {}
        self.crash_at = crash_at
        self.sched = sched
        self.ops: list[dict] = []
        self.n = 0
        self.active = False
        self.wids: dict[int, int] = {}
        self.phase: dict[int, tuple[str, bool]] = {}
        self.lock = threading.Lock()
        self.use_idx = 0          # which `with` block of a reuse history is running
        self.snaps: list[tuple[int, str, bool, dict, type]] | None = None     # instance attributes of the writer object

    def snap(self, tag: str, obj: Any, exc: bool = False) -> None:
        if self.snaps is not None:
            self.snaps.append((self.use_idx, tag, exc, dict(vars(obj)), type(obj)))

    # -- helpers
    def wid(self) -> int:
        # with a scheduler, only registered writer threads take turns; anything else (e.g. a leaked handle closed by
        # the garbage collector in the main thread) is recorded as writer -1 and never waits
        return self.wids.get(threading.get_ident(), 0 if self.sched is None else -1)

    def rel(self, path: Any) -> str | None:
        try:
            p = os.path.abspath(os.fspath(path))
        except TypeError:
            return None
        if isinstance(p, bytes):
            p = os.fsdecode(p)
        d = os.path.realpath(os.path.dirname(p))
        p = os.path.join(d, os.path.basename(p))
        if (p + os.sep).startswith(self.root) or p.startswith(self.root):
            return p[len(self.root):]
        return None

    def set_phase(self, ph: str, exc: bool = False) -> None:
        self.phase[self.wid()] = (ph, exc)

    def begin(self, op: str, name: str, inj: bool = True, **kw: Any) -> dict:
        if not self.active:
            return {}
        w = self.wid()
        if self.sched is not None and w >= 0:
            self.sched.wait_turn(w)
        with self.lock:
            self.n += 1
            k = self.n
            ph, exc = self.phase.get(w, ('pre', False))
            rec = dict(k=k, w=w, op=op, name=name, res='ok', phase=ph, exc=exc, inj=inj,
                       u=self.use_by_w.get(w, self.use_idx), **kw)
            self.ops.append(rec)
        if self.crash_at is not None and k == self.crash_at + 1:
            os._exit(77)
        if k > MAX_OPS:
            raise HangError(f'more than {MAX_OPS} file-system operations')
        if inj and self.plan is not None:
            # the temp-name loop moves on to another name: "the same operation" of an open is an open in that directory
            sig = (op, os.path.dirname(name) if op == 'open' else name)
            if self.plan_sig is None and k == self.plan['at']:
                self.plan_sig = sig
                self.plan_left = self.plan['times'] if self.plan.get('times') is not None else 1 << 60
            if self.plan_sig == sig and self.plan_left > 0:
                self.plan_left -= 1
                rec['res'] = 'fault'
                rec['cls'] = self.plan['cls']
                raise FAULT_CLASSES[self.plan['cls']][0](name)
        if inj and (self.fault_at == k or (isinstance(self.fault_at, (set, frozenset)) and k in self.fault_at)):
            rec['res'] = 'fault'
            raise OSError(errno.EIO, 'injected fault', name)
        return rec

    # -- patched functions
    def _open(self, file, mode='r', buffering=-1, encoding=None, errors=None, newline=None, closefd=True, opener=None):
        name = None if isinstance(file, int) else self.rel(file)
        if name is None or not (set(mode) & W_MODES) or not self.active:
            return self._real['open'](file, mode, buffering, encoding, errors, newline, closefd, opener)
        rec = self.begin('open', name, mode=mode)
        rawmode = ''.join(ch for ch in mode if ch in 'rwxa+')
        try:
            raw = RawSpy(self, name, os.fspath(file), rawmode)
        except FileExistsError:
            rec['res'] = 'exist'
            raise
        buf = io.BufferedWriter(raw, buffer_size=self.bufsize)
        if 'b' in mode:
            return buf
        return io.TextIOWrapper(buf, encoding=encoding, errors=errors, newline=newline)

    def _mkdir(self, path, mode=0o777, *, dir_fd=None):
        name = self.rel(path)
        if name is None or not self.active:
            return self._real['mkdir'](path, mode, dir_fd=dir_fd)
        exists = os.path.isdir(path)
        # pathlib swallows any OSError from mkdir when exist_ok and the directory exists: not an injectable fault
        rec = self.begin('mkdir', name, inj=not exists, existed=exists)
        try:
            return self._real['mkdir'](path, mode, dir_fd=dir_fd)
        except FileNotFoundError:
            rec['res'] = 'noent'
            raise

    def _unlink(self, path, *, dir_fd=None):
        name = self.rel(path)
        if name is None or not self.active:
            return self._real['unlink'](path, dir_fd=dir_fd)
        rec = self.begin('unlink', name)
        try:
            return self._real['unlink'](path, dir_fd=dir_fd)
        except FileNotFoundError:
            rec['res'] = 'noent'
            raise

    def _replace(self, src, dst, *, src_dir_fd=None, dst_dir_fd=None):
        a, b = self.rel(src), self.rel(dst)
        if (a is None and b is None) or not self.active:
            return self._real['replace'](src, dst, src_dir_fd=src_dir_fd, dst_dir_fd=dst_dir_fd)
        rec = self.begin('replace', a or '?', dst=b or '?')
        try:
            return self._real['replace'](src, dst, src_dir_fd=src_dir_fd, dst_dir_fd=dst_dir_fd)
        except FileNotFoundError:
            rec['res'] = 'noent'
            raise

    def _other(self, opname: str) -> Callable:
        real = self._real[opname]

        def f(path, *a, **kw):
            name = self.rel(path)
            if name is not None and self.active:
                self.begin(opname, name)
            return real(path, *a, **kw)
        return f

    def __enter__(self) -> 'FsSim':
        self._real = {'open': io.open, 'mkdir': os.mkdir, 'unlink': os.unlink, 'replace': os.replace,
                      'rename': os.rename, 'remove': os.remove, 'truncate': os.truncate, 'rmdir': os.rmdir}
        io.open = builtins.open = self._open
        os.mkdir = self._mkdir
        os.unlink = os.remove = self._unlink
        os.replace = os.rename = self._replace
        os.truncate = self._other('truncate')
        os.rmdir = self._other('rmdir')
        self.active = True
        return self

    def __exit__(self, *a: Any) -> None:
        self.active = False
        io.open = builtins.open = self._real['open']
        os.mkdir = self._real['mkdir']
        os.unlink = self._real['unlink']
        os.remove = self._real['remove']
        os.replace = self._real['replace']
        os.rename = self._real['rename']
        os.truncate = self._real['truncate']
        os.rmdir = self._real['rmdir']


class RawSpy(io.FileIO):
    """The raw file under the BufferedWriter/TextIOWrapper that AtomicWriter hands out: every write()/close() that
    reaches the operating system is one recorded operation."""

    def __init__(self, sim: FsSim, name: str, path: str, mode: str) -> None:
        self._sim, self._nm = sim, name
        super().__init__(path, mode)

    def write(self, b) -> int:
        data = bytes(b)
        self._sim.begin('write', self._nm, off=super().tell(), data=data)
        return super().write(data)

    def truncate(self, size=None):
        self._sim.begin('truncate', self._nm)
        return super().truncate(size)

    def close(self) -> None:
        if self.closed:
            return
        err: BaseException | None = None
        try:
            self._sim.begin('close', self._nm)
        except (OSError, KeyboardInterrupt) as e:        # a failing close(2) still releases the descriptor
            err = e
        super().close()
        if err is not None:
            raise err


def make_spy_class(sim: FsSim):
    import srctools

    class AWSpy(srctools.AtomicWriter):       # phase markers only; all behaviour is the real class's
        def __enter__(self):
            sim.set_phase('enter')
            try:
                f = super().__enter__()
            except BaseException:
                sim.snap('entry-failed', self)
                raise
            sim.set_phase('body')
            sim.snap('mid', self)
            return f

        def __exit__(self, et, ev, tb):
            sim.set_phase('exit', et is not None)
            try:
                return super().__exit__(et, ev, tb)
            finally:
                sim.set_phase('done')
                sim.snap('after', self, et is not None)
    return AWSpy


# =============================================================================================== scheduler (two writers)
class Sched:
    def __init__(self, n: int) -> None:
        self.cv = threading.Condition()
        self.state = ['running'] * n
        self.grant: int | None = None

    def wait_turn(self, w: int) -> None:
        with self.cv:
            if self.state[w] == 'done':
                return      # an operation after the writer's `with` is over (a leaked handle being collected)
            self.state[w] = 'waiting'
            self.cv.notify_all()
            self.cv.wait_for(lambda: self.grant == w)
            self.grant = None
            self.state[w] = 'running'
            self.cv.notify_all()

    def done(self, w: int) -> None:
        with self.cv:
            self.state[w] = 'done'
            self.cv.notify_all()

    def settled(self, w: int) -> str:
        with self.cv:
            self.cv.wait_for(lambda: self.grant is None and self.state[w] in ('waiting', 'done'), timeout=30)
            return self.state[w]

    def step(self, w: int) -> None:
        with self.cv:
            self.grant = w
            self.cv.notify_all()
            self.cv.wait_for(lambda: self.grant is None and self.state[w] in ('waiting', 'done'), timeout=30)


# =============================================================================================== scenarios
def listing(root: str) -> dict[str, bytes]:
    out = {}
    for dp, _dn, fn in os.walk(root):
        for f in fn:
            p = os.path.join(dp, f)
            out[os.path.relpath(p, root)] = open(p, 'rb').read()
    return out


def populate(root: str, sc: dict) -> None:
    os.makedirs(root, exist_ok=True)
    for name, data in sc['init'].items():
        p = os.path.join(root, name)
        os.makedirs(os.path.dirname(p), exist_ok=True)
        with open(p, 'wb') as f:
            f.write(data)


def body_plain(sc: dict) -> Callable:
    def body(f):
        for j, ch in enumerate(sc['chunks']):
            if sc.get('raise_after') == j:
                raise BodyError()
            f.write(ch)
        if sc.get('raise_after') == len(sc['chunks']):
            raise BodyError()
    return body


_SMALL_BSP: dict[str, str] = {}


def small_bsp(scratch: Path) -> str:
    """A small but structurally complete BSP file derived from tests/test_vec/rot_main.bsp (lump payloads cut)."""
    key = str(scratch)
    if key not in _SMALL_BSP:
        from srctools.bsp import BSP
        src = REPO / 'tests' / 'test_vec' / 'rot_main.bsp'
        b = BSP(str(src))
        for lump in b.lumps.values():
            lump.data = lump.data[:48]
        for gl in b.game_lumps.values():
            gl.data = gl.data[:40]
        out = str(scratch / 'small_src.bsp')
        import contextlib
        with contextlib.redirect_stdout(io.StringIO()):
            b.save(out)
        _SMALL_BSP[key] = out
    return _SMALL_BSP[key]


# ways of making BSP.save fail that do not involve the file system: name -> class of the exception that escapes save()
BSP_BREAKS = {
    'version-none': 'ValueError',      # raised by the first statement inside the `with AtomicWriter` (no write yet)
    'lump-data-str': 'TypeError',      # a lump in the middle of the write order holds a str: file.write raises mid-way
    'rebuild-raises': 'BodyError',     # the rebuild phase (before the writer is entered) raises from a lump generator
}


def bsp_break(b: Any, brk: str) -> None:
    from srctools.bsp import BSP_LUMPS, LUMP_WRITE_ORDER
    if brk == 'version-none':
        b.version = None
    elif brk == 'lump-data-str':
        b.lumps[LUMP_WRITE_ORDER[len(LUMP_WRITE_ORDER) // 2]].data = 'not-bytes'
    elif brk == 'rebuild-raises':
        def boom(self: Any, data: Any):
            yield b'partial-lump-data'
            raise BodyError()
        b._save_funcs = dict(b._save_funcs)          # instance copy; the class-level table stays as it is
        b._save_funcs[BSP_LUMPS.ENTITIES] = boom
        b._parsed_lumps[BSP_LUMPS.ENTITIES] = object()
    else:
        raise ValueError(brk)


def _outcome(e: BaseException) -> str:
    """How a `with` statement ended, as a string: body / oserror[:Class] / kbd / hang / other:..."""
    if isinstance(e, BodyError):
        return 'body'
    if isinstance(e, OSError):
        return 'oserror' if e.errno == errno.EIO else f'oserror:{type(e).__name__}'
    if isinstance(e, KeyboardInterrupt):
        return 'kbd'
    if isinstance(e, HangError):
        return f'hang:{e}'
    return f'other:{type(e).__name__}:{e}'


def run_single(sc: dict, root: str, fault_at: Any = None, crash_at: int | None = None, plan: dict | None = None) -> dict:
    """Run one scenario on the real code. Returns ops, outcome and final listing (not in crash mode: the child dies)."""
    populate(root, sc)
    dest = os.path.join(root, sc['dest'])
    sim = FsSim(root, sc.get('bufsize', 8192), fault_at, crash_at, plan=plan)
    outcome = 'ok'
    with sim, deadline():
        AWSpy = make_spy_class(sim)
        try:
            if sc.get('bsp'):
                import contextlib
                import srctools.bsp as bspmod
                real = bspmod.AtomicWriter
                bspmod.AtomicWriter = AWSpy
                try:
                    b = bspmod.BSP(sc['bsp'])
                    brk = sc.get('bsp_break')
                    if brk:
                        bsp_break(b, brk)
                    try:
                        with contextlib.redirect_stdout(io.StringIO()):
                            b.save(dest)
                    except Exception as e:
                        if brk and type(e).__name__ == BSP_BREAKS[brk]:
                            raise BodyError() from e      # the failure this scenario provokes
                        raise
                finally:
                    bspmod.AtomicWriter = real
            else:
                aw = AWSpy(dest, is_bytes=not sc.get('text'), **({'encoding': sc['encoding']} if sc.get('text') else {}))
                with aw as f:
                    body_plain(sc)(f)
        except (Exception, KeyboardInterrupt, HangError) as e:     # anything unexpected escaping is itself reported
            outcome = _outcome(e)
    return dict(ops=sim.ops, outcome=outcome, listing=listing(root))


def run_crash(sc: dict, root: str, k: int) -> tuple[int, dict[str, bytes]]:
    """Execute the scenario in a forked child that is killed (os._exit) after k file-system operations."""
    pid = os.fork()
    if pid == 0:
        try:
            run_single(sc, root, crash_at=k)
        except BaseException:
            os._exit(3)
        os._exit(0)
    _, status = os.waitpid(pid, 0)
    return os.waitstatus_to_exitcode(status), listing(root)


# =============================================================================================== model encoding
class NameMap:
    """Directory of the destination <-> model names: tmp_<i> = Tmp i, destination = File 0, others File 1.."""

    def __init__(self, sc: dict, dests: list[str] | None = None) -> None:
        dests = dests or [sc['dest']]
        self.dir = os.path.dirname(dests[0])
        self.files: list[str] = list(dict.fromkeys(os.path.basename(d) for d in dests))
        for name in sorted(sc['init']):
            if os.path.dirname(name) != self.dir:
                continue
            b = os.path.basename(name)
            if self.tmp_index(b) is None and b not in self.files:
                self.files.append(b)
        self.init = {os.path.basename(n): v for n, v in sc['init'].items() if os.path.dirname(n) == self.dir}

    @staticmethod
    def tmp_index(base: str) -> int | None:
        if base.startswith('tmp_') and base[4:].isdigit() and str(int(base[4:])) == base[4:]:
            return int(base[4:])
        return None

    def coq_name(self, base: str) -> str | None:
        i = self.tmp_index(base)
        if i is not None:
            return f'Tmp {i}'
        if base in self.files:
            return f'File {self.files.index(base)}'
        return None

    def base(self, rel: str) -> str | None:
        return os.path.basename(rel) if os.path.dirname(rel) == self.dir else None

    def coq_init(self) -> str:
        items = []
        for b, _v in sorted(self.init.items()):
            i = self.tmp_index(b)
            tok = STALE_TOK + i if i is not None else OLD_TOK + self.files.index(b)
            items.append(f'({self.coq_name(b)}, [{tok}])')
        return coq_list(items)

    def probe_names(self, max_tmp: int) -> list[str]:
        return [f'File {k}' for k in range(len(self.files))] + [f'Tmp {i}' for i in range(1, max_tmp + 1)]

    def probe_bases(self, max_tmp: int) -> list[str]:
        return list(self.files) + [f'tmp_{i}' for i in range(1, max_tmp + 1)]

    def expect_bytes(self, toks: list[int] | None, writes: dict[int, tuple[int, bytes]]) -> bytes | None:
        """Model content (token list) -> bytes."""
        if toks is None:
            return None
        if len(toks) == 1 and toks[0] >= OLD_TOK:
            t = toks[0]
            b = f'tmp_{t - STALE_TOK}' if t >= STALE_TOK else self.files[t - OLD_TOK]
            return self.init[b]
        buf = bytearray()
        for t in toks:
            if t not in writes:
                return b'<unknown token %d>' % t
            off, data = writes[t]
            if len(buf) < off:
                buf.extend(bytes(off - len(buf)))
            buf[off:off + len(data)] = data
        return bytes(buf)


RES = {'ok': 0, 'exist': 1, 'noent': 2, 'fault': 3}


def canon_events(ops: list[dict], nm: NameMap, wtok: Callable[[int, dict], int]) -> tuple[list[list[int]] | None, str]:
    out, why, _ks = canon_events_k(ops, nm, wtok)
    return out, why


def canon_events_k(ops: list[dict], nm: NameMap, wtok: Callable[[int, dict], int]
                   ) -> tuple[list[list[int]] | None, str, list[int]]:
    """Real operations of ONE writer -> model events [kind, i, arg, res]; None + reason if an operation is outside
    the model.  After the first failure or body exception, raw writes (flush retries inside close) are merged into
    the close that follows them."""
    out: list[list[int]] = []
    ks: list[int] = []       # global number of the real operation each model event stands for
    broken = False       # a failure happened or the body raised
    pend_fault = False
    nwrite = 0
    for o in ops:
        b = nm.base(o['name'])
        ti = nm.tmp_index(b) if b is not None else None
        if o['phase'] == 'exit' and o['exc']:
            broken = True
        if o['op'] == 'mkdir':
            # Path.mkdir(parents=True) issues one os.mkdir per missing level (plus the probing one): one model step
            r3 = 3 if o['res'] == 'fault' else 0
            if out and out[-1][0] == 0:
                out[-1][3] = max(out[-1][3], r3)
                if r3 == 3:
                    broken = True
                continue
            ev = [0, 0, 0, r3]
        elif o['op'] == 'open' and ti is not None and 'x' in o.get('mode', ''):
            ev = [1, ti, 0, RES[o['res']]]
        elif o['op'] == 'write' and ti is not None:
            if broken:
                pend_fault = pend_fault or o['res'] == 'fault'
                continue
            nwrite += 1
            ev = [2, ti, wtok(nwrite, o), RES[o['res']]]
        elif o['op'] == 'close' and ti is not None:
            ev = [3, ti, 0, 3 if (pend_fault or o['res'] == 'fault') else 0]
            pend_fault = False
        elif o['op'] == 'replace' and ti is not None and nm.base(o.get('dst', '?')) in nm.files:
            ev = [4, ti, nm.files.index(nm.base(o['dst'])), RES[o['res']]]
        elif o['op'] == 'unlink' and ti is not None:
            ev = [5, ti, 0, RES[o['res']]]
        else:
            return None, f"operation outside the model: {o['op']} {o['name']} {o.get('mode', '')}{o.get('dst', '')}", []
        if ev[3] == 3:
            broken = True
        out.append(ev)
        ks.append(o['k'])
    return out, '', ks


def coq_scen(dest_idx: int, body: list[int], tail: list[int], raise_at: int | None) -> str:
    ra = 'None' if raise_at is None else f'(Some {raise_at})'
    return f'(Build_scen {dest_idx} {coq_list(map(str, body))} {coq_list(map(str, tail))} {ra})'


def opt_content(enc: list[int]) -> list[int] | None:
    return None if enc[0] == 0 else list(enc[1:])


# =============================================================================================== single-writer campaign
def op_label(o: dict) -> str:
    if o['op'] == 'write':
        return 'flush' if o['phase'] == 'exit' else 'write'
    return o['op']


def single_campaign(ck: Ck, scs: list[dict], do_model: bool) -> None:
    """For every scenario: fault-free run, a kill before every operation, an OSError at every operation."""
    work = ck.scratch / 'c12_single'
    cases: list[dict] = []        # model cases to evaluate: {'coq':..., 'check': fn(result)}
    for si, sc in enumerate(scs):
        _single_scenario(ck, work, si, sc, do_model, cases)
    if do_model:
        deferred(ck).submit(eval_cases, cases, 'single')


class _Keyed:
    """ck with violation keys prefixed for one scenario class (BSP.save scenarios get their own keys and replays)."""

    def __init__(self, ck: Ck, prefix: str, flag: str) -> None:
        self._ck, self._prefix, self._flag = ck, prefix, flag

    def __getattr__(self, name: str) -> Any:
        return getattr(self._ck, name)

    def violation(self, key: str, what: str, replay: Any, no_input: bool = False) -> None:
        self._ck.extra[self._flag] = self._ck.extra.get(self._flag, 0) + 1
        self._ck.violation(self._prefix + key, what, replay, no_input)


def _single_scenario(ck0: Ck, work: Path, si: int, sc: dict, do_model: bool, cases: list[dict]) -> None:
    ck: Any = _Keyed(ck0, 'bsp-save:', 'bsp_violations') if sc.get('bsp') else ck0
    if True:
        def fresh(tag: str) -> str:
            d = str(work / f's{si}_{tag}')
            shutil.rmtree(d, ignore_errors=True)
            return d
        base = run_single(sc, fresh('base'))
        ck.count('fault_free_runs')
        stray = sorted(os.listdir('.')) if os.getcwd() == str(ck.scratch / 'cwd') else []
        if stray:
            ck.violation('temp-file-outside-destination-directory',
                         f'the writer created {stray} in the current directory instead of next to the destination '
                         '(a rename across directories/file systems is not atomic)', replay_obj('fault', sc, k=0))
            for s in stray:
                os.unlink(s) if os.path.isfile(s) else shutil.rmtree(s, ignore_errors=True)
        ops0 = base['ops']
        nm = NameMap(sc)
        old = sc['init'].get(sc['dest'])
        init_names = set(sc['init'])
        patho = NameMap.tmp_index(os.path.basename(sc['dest'])) is not None
        raising = sc.get('raise_after') is not None or bool(sc.get('bsp_break'))
        pre_fail = sc.get('bsp_break') == 'rebuild-raises'     # BSP.save fails before the writer is entered
        ck.hist('scenario_ops', len(ops0))
        ck.hist('scenario_kind', sc['kind'])
        # ---- oracle on the fault-free run
        new = base['listing'].get(sc['dest'])
        exp_out = 'body' if raising else 'ok'
        if base['outcome'] != exp_out:
            ck.violation(f'unexpected-outcome:{sc["kind"]}', f'fault-free run ended with {base["outcome"]}',
                         {'scenario': sc_json(sc), 'outcome': base['outcome']})
            return
        if raising:
            new = old
            if base['listing'].get(sc['dest']) != old:
                ck.violation('dest-changed-after-body-exception',
                             f'the write was abandoned by an exception but the destination holds '
                             f'{base["listing"].get(sc["dest"])!r:.60} instead of the previous {old!r:.40}',
                             replay_obj('fault', sc, k=0))
        elif sc.get('expect') is not None and new != sc['expect']:
            ck.violation(f'wrong-content:{sc["kind"]}', 'destination does not hold what the body wrote',
                         {'scenario': sc_json(sc)})
        left = set(base['listing']) - init_names - {sc['dest']}
        if left:
            ck.violation(f'temp-left-after-{"body-exception" if raising else "success"}',
                         f'files {sorted(left)} left after a fault-free run', {'scenario': sc_json(sc)})
        # the temp-name loop: attempts tmp_1, tmp_2, ... in order, stops at the least free index, creates only that one
        opens = [(o['name'], o['res']) for o in ops0 if o['op'] == 'open']
        if opens and not patho:
            ddir = os.path.dirname(sc['dest'])
            j = 1
            while os.path.join(ddir, f'tmp_{j}') in init_names:
                j += 1
            exp_opens = [(os.path.join(ddir, f'tmp_{i}'), 'exist') for i in range(1, j)] + [(os.path.join(ddir, f'tmp_{j}'), 'ok')]
            if opens != exp_opens:
                ck.violation('temp-name-loop:not-the-least-free-index',
                             f'open attempts {opens[:6]}{"..." if len(opens) > 6 else ""} (total {len(opens)}), expected '
                             f'tmp_1..tmp_{j} with only the last one succeeding', replay_obj('fault', sc, k=0))
            ck.hist('open_attempts', len(opens))
        if pre_fail and ops0:
            ck.violation('fs-operation-before-save-entered-the-writer',
                         f'BSP.save failed while rebuilding lumps but had already performed {[(o["op"], o["name"]) for o in ops0]}',
                         replay_obj('fault', sc, k=0))
        # write tokens of the fault-free trace
        writes0 = [o for o in ops0 if o['op'] == 'write']
        wmap = {j + 1: (o['off'], o['data']) for j, o in enumerate(writes0)}

        def wtok(n: int, o: dict, wmap=wmap) -> int:
            return n if wmap.get(n) == (o['off'], o['data']) else 0
        if raising:
            body = [j + 1 for j, o in enumerate(writes0) if o['phase'] == 'body']
            tail: list[int] = []
            raise_at: int | None = len(body)
        else:
            body = [j + 1 for j, o in enumerate(writes0) if o['phase'] == 'body']
            tail = [j + 1 for j, o in enumerate(writes0) if o['phase'] == 'exit']
            raise_at = None
        ev0, why = canon_events(ops0, nm, wtok)
        max_tmp = max([e[1] for e in (ev0 or []) if e[0] != 0] + [NameMap.tmp_index(b) or 0 for b in nm.init] + [1]) + 1
        scen_coq = coq_scen(0, body, tail, raise_at)
        replace_k = next((o['k'] for o in ops0 if o['op'] == 'replace'), None)
        raise_k = next((o['k'] for o in ops0 if o['phase'] == 'exit'), len(ops0) + 1) if raising else None

        seen_cases: set = set()

        def add_case(cut: int, faults: list[int], real_events, real_listing: dict, real_committed, what: dict,
                     cmp_tmp_content: bool, proto: str = 'aw_proto') -> None:
            if not do_model or patho:
                return
            if real_events is None:
                name = f'correspondence:trace:{sc["kind"].split("-")[0]}'
                if not any(o['name'] == name for o in ck.obligations):
                    ck.obligation(name, False, what.get('why', 'operation outside the model'))
                    ck.tie_broken.append('correspondence AtomicWriter trace: ' + what.get('why', ''))
                return
            # a run class whose protocol the kernel found equal to the generic one: the same model case
            m_rc = proto.removeprefix('(class_proto aw_obj ').removesuffix(')')
            if proto != 'aw_proto' and ck.extra.get('class_same_protocol', {}).get(m_rc):
                proto = 'aw_proto'
            # pre_ok = false: BSP.save's rebuild phase raises, the writer is never entered (save_alone in the model)
            coq = (f'corr_case_t {proto} {"false" if pre_fail else "true"} {nm.coq_init()} {scen_coq} {cut} '
                   f'{coq_list(map(str, faults))} '
                   f'{coq_list(nm.probe_names(max_tmp))}')
            if pre_fail:
                real_committed = None       # the writer never starts: there is no outcome of a `with` to compare
            # the same model case with the same observations of the real run (an OSError of another errno / class at the
            # same operation, handled alike by the code and by the model) is compared once
            dkey = (coq, repr(real_events), repr(sorted(real_listing.items())), real_committed, cmp_tmp_content)
            if dkey in seen_cases:
                ck.count('model_cases_single_same_as_an_earlier_one')
                return
            seen_cases.add(dkey)
            cases.append(dict(coq=coq, events=real_events, listing=real_listing, committed=real_committed, nm=nm,
                              replaced=any(e[0] == 4 and e[3] == 0 for e in real_events),
                              wmap=wmap, max_tmp=max_tmp, what=what, cmp_tmp=cmp_tmp_content, sc=sc))

        if ev0 is None and not patho:
            add_case(0, [], None, {}, None, {'why': why, 'scenario': sc_json(sc)}, False)
        add_case(len(ops0) + 5, [], ev0, base['listing'], base['outcome'] == 'ok',
                 {'run': 'fault-free', 'scenario': sc_json(sc)}, True)
        ck.sample({'scenario': sc_json(sc), 'real_trace': [[o['op'], o['name'], o['res'], o['phase']] for o in ops0],
                   'model_scenario': scen_coq})

        # ---- a kill before every operation (k operations completed), executed in a forked child
        # long traces (BSP.save: one raw write per deferred header slot): the quick tier executes every kill/fault point
        # that is not a write plus a seeded sample of the writes; the thorough tier (and any broken tie) executes all
        # (a source that merely differs from the known digests triples the sample; every point only in the thorough tier
        # or when a tie is broken: an escalated BSP stage took 150-480 s for a behaviour-preserving refactoring)
        full = len(ops0) <= 24 or is_big(ck) or (escalated(ck) and not sc.get('bsp'))
        keep = {o['k'] for o in ops0 if o['op'] != 'write'} | {len(ops0)} | {0}
        wks = [o['k'] for o in ops0 if o['op'] == 'write']
        keep |= set(wks[:2] + wks[-2:] + ck.rng.sample(wks, min(len(wks), 30 if escalated(ck) else 10)))
        for k in range(0, len(ops0) + 1):
            if not full and k not in keep and (k + 1) not in keep:
                continue
            rc, lst = run_crash(sc, fresh('crash'), k)
            ck.count('crash_points_executed')
            if rc not in (77, 0):
                ck.violation(f'crash-child-error:{sc["kind"]}', f'forked child exited with {rc}', {'scenario': sc_json(sc), 'k': k})
                continue
            d = lst.get(sc['dest'])
            at = op_label(ops0[k]) if k < len(ops0) else 'end'
            ck.seen(('crash', sc['kind'], sc.get('bufsize'), k))
            key = None
            if d != old and d != new:
                key = 'dest-named-like-temp-file' if patho else f'dest-mixture-at-crash-before-{at}'
            elif not raising and d == new and new != old and (replace_k is None or k < replace_k):
                key = f'new-content-before-replace:{at}'
            elif not raising and replace_k is not None and k >= replace_k and d != new:
                key = f'old-content-after-replace:{at}'
            if key and patho:
                key = 'dest-named-like-temp-file'
            if key:
                ck.violation(key, f'killed after {k} operations (before {at}): destination holds {d!r:.80}, '
                                  f'old={old!r:.40} new={new!r:.40}', replay_obj('crash', sc, k=k))
            extra = set(lst) - init_names - {sc['dest']}
            if len(extra) > 1 or any(NameMap.tmp_index(os.path.basename(x)) is None for x in extra):
                ck.violation(f'unexpected-files-at-crash:{at}', f'files {sorted(extra)} present after kill',
                             replay_obj('crash', sc, k=k))
            for n0, v0 in sc['init'].items():
                if n0 != sc['dest'] and lst.get(n0) != v0:
                    ck.violation(f'foreign-file-touched-at-crash:{at}', f'{n0} changed', replay_obj('crash', sc, k=k))
            evk, whyk = canon_events(ops0[:k], nm, wtok)
            add_case(len(evk or []), [], evk, lst, None,
                     {'run': f'kill after {k} ops', 'scenario': sc_json(sc), 'why': whyk},
                     not (raise_k is not None and k >= raise_k))

        # ---- one OSError at every operation
        for o in ops0:
            if not o['inj'] or (not full and o['k'] not in keep):
                continue
            k = o['k']
            r = run_single(sc, fresh('fault'), fault_at=k)
            ck.count('fault_points_executed')
            at = op_label(o)
            ck.seen(('fault', sc['kind'], sc.get('bufsize'), k))
            ck.hist('fault_op', at)
            hit = [x for x in r['ops'] if x['res'] == 'fault']
            if not hit:
                continue
            lst = r['listing']
            d = lst.get(sc['dest'])
            committed = r['outcome'] == 'ok'
            cleanup_fault = hit[0]['op'] == 'unlink'
            if r['outcome'].startswith(('other', 'hang')):
                ck.violation(f'unexpected-exception-after-{at}-fault', r['outcome'], replay_obj('fault', sc, k=k))
            if r['outcome'] != 'ok' and d != old:
                ck.violation('dest-named-like-temp-file' if patho else f'dest-changed-after-{at}-fault',
                             f'OSError injected into operation {k} ({at}); the call failed with {r["outcome"]} but the '
                             f'destination holds {d!r:.60} instead of the previous {old!r:.40}', replay_obj('fault', sc, k=k))
            if r['outcome'] == 'ok' and d != new:
                ck.violation(f'bad-content-after-swallowed-{at}-fault', f'destination holds {d!r:.60}', replay_obj('fault', sc, k=k))
            extra = set(lst) - init_names - {sc['dest']}
            if extra and not cleanup_fault:
                ck.violation(f'temp-left-after-{at}-fault' + ('-during-exception' if raising else ''),
                             f'OSError injected into operation {k} ({at}) was handled (propagated as {r["outcome"]}) '
                             f'but {sorted(extra)} stayed in the directory', replay_obj('fault', sc, k=k))
            for n0, v0 in sc['init'].items():
                if n0 != sc['dest'] and lst.get(n0) != v0:
                    ck.violation(f'foreign-file-touched-after-{at}-fault', f'{n0} changed', replay_obj('fault', sc, k=k))
            evf, whyf = canon_events(r['ops'], nm, wtok)
            fidx = [i for i, e in enumerate(evf or []) if e[3] == 3]
            add_case(len(r['ops']) + 5, fidx[:1], evf, lst, committed,
                     {'run': f'OSError at op {k} ({at})', 'scenario': sc_json(sc), 'why': whyf}, False)
            # ---- a second OSError at every operation that follows the first one (the cleanup of the cleanup):
            # exercises the second level of the decision trees (close fails AND unlink fails, rename fails AND ...)
            if sc.get('bsp') and not is_big(ck):
                continue
            for o2 in [x for x in r['ops'] if x['k'] > k and x['inj']]:
                k2 = o2['k']
                r2 = run_single(sc, fresh('fault2'), fault_at=frozenset((k, k2)))
                hit2 = [x for x in r2['ops'] if x['res'] == 'fault']
                if len(hit2) < 2:
                    continue
                ck.count('double_fault_points_executed')
                at2 = f'{at}+{op_label(o2)}'
                ck.seen(('fault2', sc['kind'], sc.get('bufsize'), k, k2))
                ck.hist('double_fault_ops', at2)
                lst2 = r2['listing']
                rp2 = replay_obj('fault', sc, k=[k, k2])
                if r2['outcome'] == 'ok' or r2['outcome'].startswith(('other', 'hang')):
                    ck.violation(f'unexpected-outcome-after-two-faults:{at2}', r2['outcome'], rp2)
                if lst2.get(sc['dest']) != old:
                    ck.violation('dest-named-like-temp-file' if patho else f'dest-changed-after-two-faults:{at2}',
                                 f'OSErrors injected into operations {k} and {k2}; destination holds '
                                 f'{lst2.get(sc["dest"])!r:.60} instead of the previous {old!r:.40}', rp2)
                if (set(lst2) - init_names - {sc['dest']}) and not any(x['op'] == 'unlink' for x in hit2):
                    ck.violation(f'temp-left-after-two-faults:{at2}', f'{sorted(set(lst2) - init_names - {sc["dest"]})} left', rp2)
                for n0, v0 in sc['init'].items():
                    if n0 != sc['dest'] and lst2.get(n0) != v0:
                        ck.violation(f'foreign-file-touched-after-two-faults:{at2}', f'{n0} changed', rp2)
                ev2, why2 = canon_events(r2['ops'], nm, wtok)
                add_case(len(r2['ops']) + 5, [i for i, e in enumerate(ev2 or []) if e[3] == 3], ev2, lst2, False,
                         {'run': f'OSErrors at ops {k} ({at}) and {k2}', 'scenario': sc_json(sc), 'why': why2}, False)


        # ---- every exception class at every operation, refused for good or only k times (round 4)
        _class_runs(ck, sc, fresh, ops0, old, new, init_names, raising, patho, pre_fail, nm, wtok, add_case)


# Which exception a refused operation raises, and for how long.  None = persistent (every further attempt of the same
# operation on the same name is refused as well); k = refused k times, then accepted.
CLASS_TIMES: list[int | None] = [None, 1, 2, 3, 5]
CLASS_SCENARIOS = ('buffered', 'unbuffered', 'stale-temp', 'new-subdir', 'text', 'raise-after-1', 'new-file',
                   'bsp-save-buf512', 'bsp-save-fresh-path-buf512', 'bsp-save-body-raises')
# not injected into raw writes: io.BufferedWriter itself retries EINTR for ever and gives EAGAIN a meaning of its own
# (partial write), below the code under test
NOT_AT_WRITES = ('InterruptedError', 'BlockingIOError')
CLASS_MODEL = True


def coq_run_class(ck: Ck, cls: str) -> str | None:
    """The run class of SM/AtomicRetry.v for an injected exception class (None: not modelled)."""
    rc = FAULT_CLASSES[cls][1]
    if rc is None:
        return None
    if rc == 'generic':
        return 'RGeneric'
    if rc == 'kbd':
        return 'RKbd'
    table = (ck.extra.get('translated', {}).get('AtomicWriter_gen', {}) or {}).get('subclasses') or []
    name = rc.split(':')[1]
    return f'(RSub {table.index(name)})' if name in table else None


def _class_runs(ck: Any, sc: dict, fresh: Callable[[str], str], ops0: list[dict], old: bytes | None, new: bytes | None,
                init_names: set[str], raising: bool, patho: bool, pre_fail: bool, nm: 'NameMap', wtok: Callable,
                add_case: Callable) -> None:
    if patho or pre_fail or not (ck.thorough or sc['kind'] in CLASS_SCENARIOS):
        return
    bsp = bool(sc.get('bsp'))
    wks = [o['k'] for o in ops0 if o['op'] == 'write']
    keepw = set(wks[:1] + wks[-1:]) if (bsp or not is_big(ck)) else set(wks[:2] + wks[-2:] + wks[len(wks) // 2:len(wks) // 2 + 1])
    names = list(FAULT_CLASSES)
    if bsp and not is_big(ck):
        names = ['OSError:ENOSPC', 'PermissionError:EACCES', 'IsADirectoryError', 'FileNotFoundError', 'KeyboardInterrupt']
    for o in ops0:
        if not o['inj'] or (o['op'] == 'write' and o['k'] not in keepw):
            continue
        at = op_label(o)
        for cls in names:
            cname = cls.split(':')[0]
            if o['op'] == 'write' and (cname in NOT_AT_WRITES or (not escalated(ck) and cls not in (
                    'OSError:ENOSPC', 'PermissionError:EACCES', 'KeyboardInterrupt'))):
                continue
            hits_persistent = None
            for times in CLASS_TIMES:
                if times is None and cname == 'FileExistsError' and o['op'] == 'open':
                    continue      # "every name is taken, for ever": the unbounded temp-name loop cannot end, by design
                if times is not None and hits_persistent is not None and times >= hits_persistent:
                    continue      # the persistent run gave up after that many refusals: the same run again
                plan = dict(at=o['k'], cls=cls, times=times)
                r = run_single(sc, fresh('class'), plan=plan)
                hit = [x for x in r['ops'] if x['res'] == 'fault']
                if times is None:
                    hits_persistent = len(hit)
                if not hit:
                    break
                mode = 'persistent' if times is None else 'transient'
                ck.count('class_fault_runs')
                ck.seen(('class', sc['kind'], sc.get('bufsize'), o['k'], cls, times))
                ck.hist('class_fault', f'{at}:{cname}:{mode}')
                ck.hist('class_fault_refusals', len(hit))
                rp = replay_obj('fault-class', sc, plan=plan)
                key = lambda what: f'errclass:{what}:{at}:{cname}:{mode}'
                how = (f'{cls} injected into operation {o["k"]} ({at})'
                       + (' and every further attempt' if times is None else f', {len(hit)} time(s), then accepted') + ': ')
                lst = r['listing']
                d = lst.get(sc['dest'])
                outc = r['outcome']
                if outc.startswith(('other', 'hang')):
                    ck.violation(key('hang' if outc.startswith('hang') else 'unexpected-exception'), how + outc, rp)
                    continue
                if outc == 'ok' and times is None:
                    ck.violation(key('refused-operation-reported-as-success'),
                                 how + f'the operation never succeeded, yet the with statement returned normally '
                                       f'(destination holds {d!r:.40}, directory {sorted(lst)})', rp)
                if cname == 'KeyboardInterrupt' and outc != 'kbd' and times is None:
                    ck.violation(key('keyboard-interrupt-did-not-propagate'), how + f'the with statement ended with {outc}', rp)
                if outc != 'ok' and d != old:
                    ck.violation(key('dest-changed-after-failure'),
                                 how + f'the write failed ({outc}) but the destination holds {d!r:.60} instead of the '
                                       f'previous {old!r:.40}', rp)
                if outc == 'ok' and d != new:
                    ck.violation(key('success-reported-but-destination-not-new'),
                                 how + f'the with statement returned normally but the destination holds {d!r:.60}', rp)
                extra = set(lst) - init_names - {sc['dest']}
                # "the file is gone" said by a refused cleanup unlink is believed: the carve-out of the property
                if extra and not any(x['op'] == 'unlink' for x in hit):
                    ck.violation(key('temp-left'), how + f'{sorted(extra)} stayed in the directory (outcome {outc})', rp)
                for n0, v0 in sc['init'].items():
                    if n0 != sc['dest'] and lst.get(n0) != v0:
                        ck.violation(key('foreign-file-touched'), how + f'{n0} changed', rp)
                rcls = coq_run_class(ck, cls) if CLASS_MODEL else None
                if rcls is None or (cname == 'FileExistsError' and o['op'] == 'open') or bsp and not is_big(ck):
                    continue
                evf, whyf = canon_events(r['ops'], nm, wtok)
                add_case(len(r['ops']) + 5, [i for i, e in enumerate(evf or []) if e[3] == 3], evf, lst, outc == 'ok',
                         {'run': how, 'scenario': sc_json(sc), 'why': whyf}, False, proto=f'(class_proto aw_obj {rcls})')


def eval_cases(ck: Ck, cases: list[dict], tag: str) -> None:
    bad: list[dict] = []
    n = 0
    ch = 700 if ck.thorough else 5000
    for lo in range(0, len(cases), ch):
        part = cases[lo:lo + ch]
        vals = ck.coq_eval(IMPORTS, [coq_list(c['coq'] for c in part)], name=f'aw_{tag}', preamble=PRE)
        if vals is None:
            ck.obligation(f'correspondence:{tag}', False, 'model could not be evaluated')
            ck.tie_broken.append(f'correspondence AtomicWriter ({tag}): model evaluation failed')
            return
        res = parse_coq_nested(vals[0])
        assert len(res) == len(part), (len(res), len(part))
        for c, r in zip(part, res):
            n += 1
            ck.count(f'model_cases_{tag}')
            pc, events, probes = r
            nm: NameMap = c['nm']
            diffs = []
            if c['events'] is not None and events != c['events']:
                diffs.append({'events_model': events, 'events_real': c['events']})
            if c['committed'] is not None:        # a finished run (not a kill): outcome of the `with` statement
                if (pc[0] == 1) != c['replaced']:
                    diffs.append({'model_pc': pc, 'real_rename_succeeded': c['replaced']})
                if (pc[2] == 1) != (not c['committed']):
                    diffs.append({'model_pc': pc, 'model_raises': pc[2] == 1, 'real_returned_normally': c['committed']})
            for b, enc in zip(nm.probe_bases(c['max_tmp']), probes):
                toks = opt_content(enc)
                real = c['listing'].get(os.path.join(nm.dir, b) if nm.dir else b)
                is_tmp = NameMap.tmp_index(b) is not None
                if is_tmp and not c['cmp_tmp'] and b not in nm.init:
                    if (toks is None) != (real is None):
                        diffs.append({'name': b, 'model_present': toks is not None, 'real_present': real is not None})
                    continue
                exp = nm.expect_bytes(toks, c['wmap'])
                if exp != real:
                    diffs.append({'name': b, 'model_tokens': toks, 'model_bytes': repr(exp)[:80], 'real': repr(real)[:80]})
            if diffs:
                bad.append({'what': c['what'], 'diffs': diffs})
    ck.obligation(f'correspondence:{tag}', not bad,
                  f'{n} runs of the real code (fault-free / killed / OSError injected / interleaved) vs model '
                  f'(vm_compute, cfg from the source): {len(bad)} disagreements')
    if bad:
        ck.tie_broken.append(f'correspondence AtomicWriter ({tag}): real trace/directory differs from the model')
        ck.extra[f'{tag}_disagreements'] = bad[:5]


def sc_json(sc: dict) -> dict:
    return {k: (v if not isinstance(v, (bytes, dict, list)) else repr(v)[:200]) for k, v in sc.items() if k != 'expect'}


def replay_obj(mode: str, sc: dict, **kw: Any) -> dict:
    d = {k: v for k, v in sc.items() if k not in ('expect',)}
    d['init'] = {n: v.hex() for n, v in sc['init'].items()}
    d['chunks'] = [c.hex() if isinstance(c, bytes) else c for c in sc.get('chunks', [])]
    return {'mode': mode, 'scenario': d, **kw,
            'how': './check C12 --replay <this file> re-runs the scenario with the same kill/fault point'}


def scenarios(ck: Ck) -> list[dict]:
    OLD = b'OLD-CONTENT-0123456789'
    scs: list[dict] = []

    def add(kind: str, **kw: Any) -> None:
        sc = dict(kind=kind, dest='out.bin', init={'out.bin': OLD, 'keep.txt': b'keep'}, bufsize=8192)
        sc.update(kw)
        if not sc.get('text') and not sc.get('bsp') and sc.get('raise_after') is None:
            sc['expect'] = b''.join(sc['chunks'])
        scs.append(sc)
    c3 = [b'AAAA', b'BBBBBB', b'CC']
    add('buffered', chunks=c3)
    add('unbuffered', chunks=c3, bufsize=1)
    add('small-buffer', chunks=c3 + [b'DDDDDDDD'], bufsize=6)
    add('stale-temp', chunks=c3, bufsize=1, init={'out.bin': OLD, 'tmp_1': b'STALE1', 'tmp_2': b'STALE2', 'keep.txt': b'k'})
    many = 60 if is_big(ck) else 12
    add(f'stale-temps-1-to-{many}', chunks=c3[:2], bufsize=1,
        init={'out.bin': OLD, 'keep.txt': b'k', **{f'tmp_{i}': b'STALE%d' % i for i in range(1, many + 1)}})
    add('stale-temps-with-gap', chunks=c3[:2], bufsize=8192,
        init={'out.bin': OLD, 'tmp_1': b'S1', 'tmp_2': b'S2', 'tmp_4': b'S4', 'tmp_5': b'S5', 'tmp_03': b'not-a-temp-name'})
    add('stale-temps-raise', chunks=c3, bufsize=1, raise_after=1,
        init={'out.bin': OLD, **{f'tmp_{i}': b'STALE%d' % i for i in range(1, 7)}})
    add('new-file', chunks=c3, bufsize=6, init={'keep.txt': b'keep'})
    add('new-subdir', chunks=c3, dest='sub/dir/out.bin', init={'keep.txt': b'keep'})
    add('empty-body', chunks=[])
    add('text', chunks=['héllo\n', 'wörld\n'], text=True, encoding='utf16', bufsize=4)
    add('text-stale-temp', chunks=['ab\n', 'cd\n'], text=True, encoding='utf8', bufsize=8192,
        init={'out.bin': OLD, 'tmp_1': b'STALE1', 'tmp_2': b'STALE2', 'keep.txt': b'k'})
    for ra in (0, 1, 3):
        add(f'raise-after-{ra}', chunks=c3, bufsize=1, raise_after=ra)
    add('raise-buffered', chunks=c3, raise_after=2)
    add('raise-small-buffer', chunks=c3 + [b'DDDDDDDD'], bufsize=6, raise_after=3)
    add('dest-named-like-temp', chunks=c3, bufsize=1, dest='tmp_1', init={'keep.txt': b'keep'})
    # random scenarios
    for _ in range(budget(ck, 4, 40)):
        rng = ck.rng
        chunks = [bytes(rng.randrange(65, 91) for _ in range(rng.choice([1, 3, 8, 20]))) for _ in range(rng.choice([1, 2, 4, 6]))]
        init = {'keep.txt': b'keep'}
        if rng.random() < 0.8:
            init['out.bin'] = OLD
        for i in rng.sample([1, 2, 3], rng.choice([0, 0, 1, 2])):
            init[f'tmp_{i}'] = b'STALE%d' % i
        ra = rng.choice([None, None, rng.randint(0, len(chunks))])
        add('random-raise' if ra is not None else 'random', chunks=chunks, bufsize=rng.choice([1, 5, 16, 8192]), init=init,
            **({'raise_after': ra} if ra is not None else {}))
    return scs


def bsp_scenarios(ck: Ck) -> list[dict]:
    src = small_bsp(ck.scratch)
    out = []
    full = {'maps/test.bsp': b'OLD-BSP-CONTENT', 'maps/other.bsp': b'other', 'maps/tmp_1': b'STALE1'}
    fresh = {'maps/other.bsp': b'other', 'maps/tmp_1': b'STALE1'}        # "save as": the destination does not exist yet
    for bs in ([256, 1024, 8192] if is_big(ck) else [512]):
        out.append(dict(kind=f'bsp-save-buf{bs}', dest='maps/test.bsp', bsp=src, bufsize=bs, init=full))
    for bs in ([64, 512, 8192] if is_big(ck) else [512]):
        out.append(dict(kind=f'bsp-save-fresh-path-buf{bs}', dest='maps/test.bsp', bsp=src, bufsize=bs, init=fresh))
        # the body of the `with` raises after some lumps have been written (a lump holds a str)
        out.append(dict(kind=f'bsp-save-fresh-path-body-raises-buf{bs}', dest='maps/test.bsp', bsp=src, bufsize=bs,
                        init=fresh, bsp_break='lump-data-str'))
    out.append(dict(kind='bsp-save-body-raises', dest='maps/test.bsp', bsp=src, bufsize=64, init=full,
                    bsp_break='lump-data-str'))
    out.append(dict(kind='bsp-save-fresh-path-no-version', dest='maps/test.bsp', bsp=src, bufsize=512, init=fresh,
                    bsp_break='version-none'))
    out.append(dict(kind='bsp-save-new-directory', dest='newdir/maps/test.bsp', bsp=src, bufsize=8192, init={'keep.txt': b'k'}))
    # the rebuild phase raises: the writer is never entered, nothing may happen in the directory
    out.append(dict(kind='bsp-save-rebuild-raises', dest='maps/test.bsp', bsp=src, bufsize=512, init=full,
                    bsp_break='rebuild-raises'))
    out.append(dict(kind='bsp-save-fresh-path-rebuild-raises', dest='maps/test.bsp', bsp=src, bufsize=512, init=fresh,
                    bsp_break='rebuild-raises'))
    return out


# =============================================================================================== reuse histories
# One AtomicWriter object, several `with` blocks ("not reentrant, but can be repeated").  A history is a word over
# S (the body returns) / B (the body raises after some writes); OSErrors are injected on top.  What survives a use is
# the object's instance attributes: every use must behave like the single use of a fresh object in the directory the
# previous use left (c12_reuse_history), whatever came before it.
def run_history(hs: dict, root: str, fault_at: Any = None, crash_at: int | None = None, plan: dict | None = None) -> dict:
    populate(root, hs)
    dest = os.path.join(root, hs['dest'])
    sim = FsSim(root, hs.get('bufsize', 8192), fault_at, crash_at, plan=plan)
    outcomes: list[str] = []
    listings: list[dict[str, bytes]] = [listing(root)]
    leaked: list[Any] = []
    with sim, deadline():
        AWSpy = make_spy_class(sim)
        aw = AWSpy(dest, is_bytes=not hs.get('text'), **({'encoding': hs['encoding']} if hs.get('text') else {}))
        sim.snaps = []
        sim.snap('init', aw)
        for u, use in enumerate(hs['uses']):
            sim.use_idx = u
            sim.set_phase('pre')
            outcome = 'ok'
            try:
                if use.get('abandon'):
                    # letter A: entered and written, but the matching __exit__ never happens (a generator that is never
                    # resumed, a caller that leaks the context): the handle stays open, the object is used again later
                    f = aw.__enter__()
                    leaked.append(f)
                    body_plain(use)(f)
                    outcome = 'abandoned'
                else:
                    with aw as f:
                        body_plain(use)(f)
            except (Exception, KeyboardInterrupt) as e:
                outcome = _outcome(e)
            except HangError as e:
                outcome = _outcome(e)
            outcomes.append(outcome)
            listings.append(listing(root))
            if outcome.startswith('hang'):
                break
        while len(outcomes) < len(hs['uses']):       # a hung use ends the history: the later uses are not run
            outcomes.append(outcomes[-1])
            listings.append(listings[-1])
    for f in leaked:          # outside the interposition: handles the history left open are closed unrecorded
        try:
            f.close()
        except Exception:
            pass
    return dict(ops=sim.ops, outcomes=outcomes, listings=listings, snaps=sim.snaps, dest=dest)


def run_history_crash(hs: dict, root: str, k: int) -> tuple[int, dict[str, bytes]]:
    pid = os.fork()
    if pid == 0:
        try:
            run_history(hs, root, crash_at=k)
        except BaseException:
            os._exit(3)
        os._exit(0)
    _, status = os.waitpid(pid, 0)
    return os.waitstatus_to_exitcode(status), listing(root)


def history_scenarios(ck: Ck) -> list[dict]:
    OLD = b'OLD-CONTENT-0123456789'
    out: list[dict] = []

    def uses_of(word: str, text: bool) -> list[dict]:
        us = []
        for u, ch in enumerate(word):
            chunks: list[Any] = [b'U%d-AAAA' % u, b'U%d-BBBBBB' % u, b'U%d-CC' % u]
            if text:
                chunks = [c.decode() + '\n' for c in chunks]
            if ch == 'A':       # entered, one or two chunks written, never exited
                us.append(dict(chunks=chunks[:1 + u % 2], abandon=True))
                continue
            us.append(dict(chunks=chunks, **({'raise_after': 1 + u % 2} if ch == 'B' else {})))
        return us

    def add(word: str, **kw: Any) -> None:
        hs = dict(kind=f'history-{word}' + ('-text' if kw.get('text') else '') + ('-stale' if 'init' in kw else ''),
                  word=word, dest='out.bin', init={'out.bin': OLD, 'keep.txt': b'keep'}, bufsize=1)
        hs.update(kw)
        hs['uses'] = uses_of(word, bool(hs.get('text')))
        out.append(hs)
    words = ['S', 'B', 'SS', 'SB', 'BS', 'BB', 'SSB', 'BSB', 'SBS', 'SBB']
    if escalated(ck):
        words += ['SSS', 'BBS', 'BSS', 'BBB', 'SSSB', 'SBSB', 'BSBS', 'SSBB', 'SBBS']
    for w in words:
        add(w)
    add('SB', bufsize=8192)
    add('SBS', init={'out.bin': OLD, 'tmp_1': b'STALE1', 'keep.txt': b'k'}, bufsize=6)
    add('SB', text=True, encoding='utf8', bufsize=8192)
    add('BS', text=True, encoding='utf8', bufsize=4)
    add('SSB', init={'keep.txt': b'k'}, bufsize=8192)          # the destination does not exist before the first use
    # round 5: words with the letter A = entered and written but never exited (the handle stays open), then used again
    add('AS')
    add('AS', bufsize=8192)
    add('AS', text=True, encoding='utf8', bufsize=8192)
    add('SAS', text=True, encoding='utf16', bufsize=4)
    add('AAS', init={'out.bin': OLD, 'tmp_2': b'STALE2', 'keep.txt': b'k'}, bufsize=6)
    add('ABS')
    if escalated(ck):
        for w in ['ASA', 'AAB', 'SASB', 'BAAS']:
            add(w, bufsize=ck.rng.choice([1, 7, 8192]))
        add('ASS', text=True, encoding='utf8', bufsize=1)
    for _ in range(budget(ck, 2, 12)):
        w = ''.join(ck.rng.choice('SB') for _ in range(ck.rng.choice([2, 3, 3, 4])))
        init = {'keep.txt': b'keep'}
        if ck.rng.random() < 0.8:
            init['out.bin'] = OLD
        for i in ck.rng.sample([1, 2, 3], ck.rng.choice([0, 0, 1, 2])):
            init[f'tmp_{i}'] = b'STALE%d' % i
        add(w, init=init, bufsize=ck.rng.choice([1, 5, 16, 8192]))
    return out


def hist_replay_obj(mode: str, hs: dict, k: Any) -> dict:
    d = {x: v for x, v in hs.items() if x not in ('uses', 'init')}
    d['init'] = {n: v.hex() for n, v in hs['init'].items()}
    d['uses'] = [{**u, 'chunks': [c.hex() if isinstance(c, bytes) else c for c in u['chunks']]} for u in hs['uses']]
    return {'mode': mode, 'history': d, 'k': k,
            'how': './check C12 --replay <this file> re-runs the history (one AtomicWriter object, one `with` block per '
                   'letter of `word`: S = body returns, B = body raises, A = entered by hand and written, never exited) with the same '
                   'OSError / kill point k'}


_MISSING = object()


def abs_attr(v: Any, dest: str) -> str | None:
    """A real attribute value -> the abstract value of SM/AtomicExit.v (None: outside xval / unbound)."""
    if v is None:
        return 'VNone'
    if v is True or v is False:
        return 'VTrue' if v else 'VFalse'
    if isinstance(v, io.IOBase):
        return 'VTemp'
    if isinstance(v, BaseException) or (isinstance(v, type) and issubclass(v, BaseException)):
        return 'VExc'
    if isinstance(v, (str, os.PathLike)):
        p = os.fspath(v)
        if os.path.abspath(p) == os.path.abspath(dest):
            return 'VDest'
        if os.path.dirname(os.path.abspath(p)) == os.path.dirname(os.path.abspath(dest)) \
                and NameMap.tmp_index(os.path.basename(p)) is not None:
            return 'VTName'
    return None


def abs_state(snap: tuple, names: list[str], dest: str) -> list[str | None]:
    _u, _tag, _exc, d, cls = snap
    return [abs_attr(d.get(n.removeprefix('self.'), getattr(cls, n.removeprefix('self.'), _MISSING)), dest) for n in names]


def coq_astate(a: list[str | None]) -> str:
    return coq_list('None' if v is None else f'(Some {v})' for v in a)


def attr_case(r: dict, per_use: list[dict], names: list[str], objterm: str = 'aw_obj') -> tuple[str, list[dict]] | None:
    """The instance attributes of the real object after __init__, inside every body and after every __exit__ of one
    executed history -> the arguments of corr_attrs (SM/AtomicReuse.v) + what each row stands for."""
    snaps, dest = r.get('snaps') or [], r['dest']
    init = [sn for sn in snaps if sn[1] == 'init']
    if len(init) != 1:
        return None
    cur = abs_state(init[0], names, dest)
    init_abs = cur
    rows, info = [], []
    for u, pu in enumerate(per_use):
        mid = [sn for sn in snaps if sn[0] == u and sn[1] == 'mid']
        aft = [sn for sn in snaps if sn[0] == u and sn[1] == 'after']
        if not mid or not aft:
            # the entry failed (no __exit__ is run): the model does not say what the attributes hold then, the next use
            # simply starts from what the real object holds (c12_reuse_history quantifies over every such state)
            failed = [sn for sn in snaps if sn[0] == u and sn[1] == 'entry-failed']
            if not failed:
                break
            cur = abs_state(failed[0], names, dest)
            continue
        oracle = pu['exit_calls']
        m, a = abs_state(mid[0], names, dest), abs_state(aft[0], names, dest)
        rows.append(f'({coq_astate(cur)}, {"true" if aft[0][2] else "false"}, {coq_list(map(str, oracle))}, '
                    f'{coq_astate(m)}, {coq_astate(a)})')
        info.append(dict(use=u + 1, before=cur, body_raised=aft[0][2], exit_call_results=oracle, inside_body=m, after=a))
        cur = a
    return f'corr_attrs {objterm} {coq_astate(init_abs)} {coq_list(rows)}', [dict(after_init=init_abs)] + info


def _prev_class(word: str, outcomes: list[str], u: int) -> str:
    if u == 0:
        return 'first-use'
    if word[u - 1] == 'A':
        return 'after-a-use-left-open'
    if outcomes[u - 1] == 'ok':
        return 'after-a-successful-use'
    if outcomes[u - 1] == 'body':
        return 'after-an-abandoned-use'
    return 'after-a-failed-use'


def held_names(hs: dict, r: dict) -> list[str | None]:
    """For every use of an executed history: the temp name whose handle the object still holds when the use starts (left
    by a use that was entered but never exited), computed from the recorded operations alone: a use without __exit__
    keeps the temp file it opened; the next entry that is attempted gives it up."""
    out: list[str | None] = []
    held: str | None = None
    for u, use in enumerate(hs['uses']):
        out.append(held)
        uops = [o for o in r['ops'] if o['u'] == u]
        if held is not None and uops:
            # entering again gives the old temp file up: it is removed, or (close / unlink refused: the entry fails) at
            # least forgotten — an object that comes back to the NAME later may find it owned by somebody else
            held = None
        opened = [o['name'] for o in uops if o['op'] == 'open' and o['res'] == 'ok']
        if use.get('abandon') and opened:
            held = opened[-1]
    return out


def history_campaign(ck: Ck, do_model: bool) -> None:
    work = ck.scratch / 'c12_hist'
    cases: list[dict] = []
    hss = history_scenarios(ck)
    for hi, hs in enumerate(hss):
        def fresh(tag: str, hi: int = hi) -> str:
            d = str(work / f'h{hi}_{tag}')
            shutil.rmtree(d, ignore_errors=True)
            return d
        base = run_history(hs, fresh('base'))
        ck.count('history_fault_free_runs')
        ck.hist('history_word', hs['word'])
        ops0 = base['ops']
        nuse = len(hs['uses'])
        enc = hs.get('encoding', 'utf8')
        news = [(''.join(u['chunks']).encode(enc) if hs.get('text') else b''.join(u['chunks'])) for u in hs['uses']]
        # token numbering of every use, from the fault-free run
        # (use u, j-th raw write) = token 16*u + j: distinct over the whole history, below the tokens of old contents
        wmaps, scens = [], []
        wall: dict[int, tuple[int, bytes]] = {}
        # the model's histories are words over complete uses: a history with a use that is never exited is judged by the
        # oracle alone (what the model says about it is the entry obligation on the generated prologue)
        modelled = do_model and nuse <= 5 and not any(u.get('abandon') for u in hs['uses'])
        for u, use in enumerate(hs['uses']):
            wr = [o for o in ops0 if o['u'] == u and o['op'] == 'write']
            modelled = modelled and len(wr) <= 15
            wmaps.append({16 * u + j + 1: (o['off'], o['data']) for j, o in enumerate(wr)})
            wall.update(wmaps[-1])
            bodyt = [16 * u + j + 1 for j, o in enumerate(wr) if o['phase'] == 'body']
            if use.get('raise_after') is not None:
                scens.append(coq_scen(0, bodyt, [], len(bodyt)))
            else:
                scens.append(coq_scen(0, bodyt, [16 * u + j + 1 for j, o in enumerate(wr) if o['phase'] == 'exit'], None))
        nm = NameMap(hs)
        obj_names = list((ck.extra.get('translated', {}).get('AtomicWriter_gen', {}).get('obj') or {}).get('names', []))

        def judge(r: dict, fault: Any, how: str, objterm: str | None = 'aw_obj') -> None:
            """Oracle on every use of one executed history + one model case for the whole history (`objterm`: the object
            of the model, specialised to the run class of the injected exception; None: oracle only)."""
            rp = hist_replay_obj('history', hs, fault)
            per_use: list[dict] | None = []
            helds = held_names(hs, r)
            for u, use in enumerate(hs['uses']):
                before, after, outc = r['listings'][u], r['listings'][u + 1], r['outcomes'][u]
                uops = [o for o in r['ops'] if o['u'] == u]
                hit = [o for o in uops if o['res'] == 'fault']
                raising = use.get('raise_after') is not None
                leaving = bool(use.get('abandon'))
                held = helds[u]
                pos = _prev_class(hs['word'], r['outcomes'], u)
                what = (f'history {hs["word"]}, use {u + 1} ('
                        f'{"entered, written, never exited" if leaving else "body raises" if raising else "body returns"}'
                        f'{", OSError in " + op_label(hit[0]) if hit else ""}; {pos.replace("-", " ")}): ')
                cause = ((f'{op_label(hit[0])}-{hit[0]["cls"].split(":")[0]}-fault' if hit[0].get('cls') else f'{op_label(hit[0])}-fault')
                         if hit else ('leaving-open' if leaving else 'body-exception' if raising else 'success'))
                transient = isinstance(fault, dict) and fault.get('times') is not None     # refused k times, then accepted
                exp_out = 'abandoned' if leaving else 'body' if raising else 'ok'
                if (not hit and outc != exp_out) or (hit and ((outc in ('ok', 'abandoned') and not transient)
                                                              or outc.startswith(('other', 'hang')))):
                    ck.violation(f'reuse:unexpected-outcome-after-{cause}:{pos}', what + f'the with statement ended with {outc}', rp)
                d = after.get(hs['dest'])
                if outc == 'ok' and d != news[u]:
                    ck.violation(f'reuse:wrong-content-after-{cause}:{pos}', what + f'destination holds {d!r:.60}', rp)
                if outc != 'ok' and d != before.get(hs['dest']):
                    ck.violation(f'reuse:dest-changed-after-{cause}:{pos}',
                                 what + f'the use did not commit ({outc}) but the destination holds {d!r:.60} instead of '
                                        f'{before.get(hs["dest"])!r:.40}', rp)
                extra = set(after) - set(before) - {hs['dest']}
                # a use that is never exited keeps the one temp file it opened (that is no handled failure: nothing has
                # failed or ended yet); everything else is judged as before, relative to the directory the use started in
                mine = {o['name'] for o in uops if o['op'] == 'open' and o['res'] == 'ok'} if leaving else set()
                if extra - mine and not any(o['op'] == 'unlink' for o in hit):
                    ck.violation(f'reuse:temp-left-after-{cause}:{pos}', what + f'{sorted(extra - mine)} stayed in the directory', rp)
                for n0, v0 in before.items():
                    if n0 != hs['dest'] and n0 != held and after.get(n0) != v0:
                        ck.violation(f'reuse:foreign-file-touched-after-{cause}:{pos}', what + f'{n0} changed or vanished', rp)
                # the temp file of the use that was left open: entering again must give it up (close the handle, remove the
                # file) before anything else happens, and the new use must write into a file created afresh
                npro = 0        # the prologue of the entry: the operations before mkdir that concern the held temp file
                if held is not None:
                    while npro < len(uops) and uops[npro]['op'] != 'mkdir' and uops[npro]['phase'] == 'enter' \
                            and uops[npro]['name'] == held:
                        npro += 1
                pro, rest = uops[:npro], uops[npro:]
                if held is not None and uops:
                    shape = [(o['op'], o['res']) for o in pro if o['op'] != 'write']
                    refused = any(o['res'] == 'fault' for o in pro)
                    if not refused and shape not in ([('close', 'ok'), ('unlink', 'ok')], [('unlink', 'ok')]):
                        ck.violation(f'reuse:open-temp-not-given-up-on-entry:{pos}',
                                     what + f'the object still held {held}; entering again performed '
                                            f'{[(o["op"], o["name"], o["res"]) for o in uops[:6]]} instead of close + unlink of {held} first', rp)
                opens = [(o['name'], o['res']) for o in uops if o['op'] == 'open']
                if opens and not any(o['op'] in ('mkdir', 'open') for o in hit):
                    taken = set(before) - ({held} if any(o['op'] == 'unlink' and o['res'] != 'fault' for o in pro) else set())
                    j = 1
                    while f'tmp_{j}' in taken:
                        j += 1
                    if opens != [(f'tmp_{i}', 'exist') for i in range(1, j)] + [(f'tmp_{j}', 'ok')]:
                        ck.violation(f'reuse:temp-name-loop:{pos}', what + f'open attempts {opens[:6]}, expected tmp_1..tmp_{j}', rp)
                first = rest[0]['op'] if rest else None
                if first is not None and first != 'mkdir':
                    ck.violation(f'reuse:entry-does-not-start-afresh:{pos}',
                                 what + f'the use starts with {first} {rest[0]["name"]} (left over from the previous use)', rp)
                ck.seen(('history', hs['kind'], repr(fault), u))
                if not modelled or per_use is None or objterm is None:
                    continue

                def wtok(n: int, o: dict, u: int = u) -> int:
                    return 16 * u + n if wmaps[u].get(16 * u + n) == (o['off'], o['data']) else 0
                evs, why = canon_events(uops, nm, wtok)
                if evs is None:
                    if not any(o['name'] == 'correspondence:trace:history' for o in ck.obligations):
                        ck.obligation('correspondence:trace:history', False, why)
                        ck.tie_broken.append('correspondence AtomicWriter history trace: ' + why)
                    per_use = None
                    continue
                # the results of the calls __exit__ made, in order (0 ok, 1 OSError, 2 FileNotFoundError): a close() whose
                # flush was refused raises although the raw close succeeds
                calls, flush_failed = [], False
                for o in uops:
                    if o['phase'] != 'exit':
                        continue
                    if o['op'] == 'write':
                        flush_failed = flush_failed or o['res'] == 'fault'
                    elif o['op'] == 'close':
                        calls.append(1 if flush_failed or o['res'] == 'fault' else 0)
                        flush_failed = False
                    elif o['op'] in ('replace', 'unlink'):
                        calls.append({'ok': 0, 'fault': 1, 'noent': 2}.get(o['res'], 1))
                per_use.append(dict(events=evs, listing=after, returned=outc == 'ok', cut=len(uops) + 5, exit_calls=calls,
                                    replaced=any(e[0] == 4 and e[3] == 0 for e in evs),
                                    faults=[i for i, e in enumerate(evs) if e[3] == 3]))
            if modelled and per_use and objterm is not None:
                # the whole history in the model: every use starts in the directory the model's previous use left
                max_tmp = max([e[1] for pu in per_use for e in pu['events'] if e[0] != 0]
                              + [NameMap.tmp_index(b) or 0 for b in nm.init] + [1]) + 1
                uses = coq_list(f'({scens[u]}, {pu["cut"]}, {coq_list(map(str, pu["faults"]))})' for u, pu in enumerate(per_use))
                cases.append(dict(coq=f'corr_hist {objterm} {uses} (dir_of {nm.coq_init()}) {coq_list(nm.probe_names(max_tmp))}',
                                  uses=per_use, nm=nm, wmap=wall, max_tmp=max_tmp, attrs=attr_case(r, per_use, obj_names, objterm),
                                  what={'run': how, 'history': hs['kind'], 'fault': repr(fault)}))

        judge(base, None, 'fault-free history')
        helds0 = held_names(hs, base)
        # ---- one OSError at every injectable operation of the whole history
        for o in ops0:
            if not o['inj']:
                continue
            r = run_history(hs, fresh('fault'), fault_at=o['k'])
            if not any(x['res'] == 'fault' for x in r['ops']):
                continue
            ck.count('history_fault_runs')
            ck.hist('history_fault_op', op_label(o))
            judge(r, o['k'], f'OSError at operation {o["k"]} ({op_label(o)}) of the history')
        # ---- round 4: an exception of a named class / KeyboardInterrupt, persistently, at every operation that is no raw
        # write (the same operation of the later uses is refused as well: a failed use follows a failed use)
        leaves_open = any(u.get('abandon') for u in hs['uses'])
        if nuse >= 2 and (hi % 4 == 0 or (ck.thorough and (hi % 2 == 0 or not leaves_open))):
            for o in ops0:
                if not o['inj'] or o['op'] == 'write':
                    continue
                for cls in (['PermissionError:EACCES', 'KeyboardInterrupt'] if not is_big(ck) else
                            ['PermissionError:EACCES', 'KeyboardInterrupt', 'IsADirectoryError', 'OSError:ENOSPC']):
                    for times in (None, 2):
                        plan = dict(at=o['k'], cls=cls, times=times)
                        r = run_history(hs, fresh('class'), plan=plan)
                        nhit = sum(1 for x in r['ops'] if x['res'] == 'fault')
                        if not nhit or (times is not None and nhit < 2):
                            continue      # transient: only when the operation was indeed attempted again
                        ck.count('history_class_fault_runs')
                        ck.hist('history_class_fault', f'{op_label(o)}:{cls.split(":")[0]}:{"persistent" if times is None else "transient"}')
                        rcls = coq_run_class(ck, cls)
                        same = ck.extra.get('class_same_protocol', {}).get(rcls or '')
                        judge(r, plan, f'{cls} at operation {o["k"]} ({op_label(o)}) of the history, '
                                       f'{"persistent" if times is None else "the first 2 attempts"}',
                              None if rcls is None else ('aw_obj' if same else f'(with_class {rcls} aw_obj)'))
        # ---- a kill before every operation of the later uses (the first use is the single-writer campaign)
        if nuse < 2 or (hi % 3 and not escalated(ck)):
            continue
        for k in range(0, len(ops0) + 1):
            u = ops0[k]['u'] if k < len(ops0) else nuse - 1
            if u == 0 or (k < len(ops0) and ops0[k]['op'] == 'write' and not escalated(ck) and k % 2):
                continue
            rc, lst = run_history_crash(hs, fresh('crash'), k)
            ck.count('history_crash_points')
            if rc not in (77, 0):
                ck.violation(f'crash-child-error:{hs["kind"]}', f'forked child exited with {rc}', {'history': hs['kind'], 'k': k})
                continue
            at = op_label(ops0[k]) if k < len(ops0) else 'end'
            before, new = base['listings'][u], news[u]
            d = lst.get(hs['dest'])
            rk = next((o['k'] for o in ops0 if o['u'] == u and o['op'] == 'replace'), None)
            pos = _prev_class(hs['word'], base['outcomes'], u)
            rp = hist_replay_obj('history-crash', hs, k)
            ck.seen(('history-crash', hs['kind'], k))
            if d != before.get(hs['dest']) and d != new:
                ck.violation(f'reuse:dest-mixture-at-crash-before-{at}:{pos}',
                             f'history {hs["word"]} killed after {k} operations (use {u + 1}, before {at}): destination holds '
                             f'{d!r:.60}', rp)
            elif d == new and d != before.get(hs['dest']) and (rk is None or k < rk):
                ck.violation(f'reuse:new-content-before-replace:{at}:{pos}', f'history {hs["word"]} killed after {k} operations', rp)
            elif rk is not None and k >= rk and d != new:
                ck.violation(f'reuse:old-content-after-replace:{at}:{pos}', f'history {hs["word"]} killed after {k} operations', rp)
            extra = set(lst) - set(before) - {hs['dest']}
            if len(extra) > 1 or any(NameMap.tmp_index(x) is None for x in extra):
                ck.violation(f'reuse:unexpected-files-at-crash:{at}:{pos}', f'files {sorted(extra)} present after the kill', rp)
            for n0, v0 in before.items():
                if n0 != hs['dest'] and n0 != helds0[u] and lst.get(n0) != v0:
                    ck.violation(f'reuse:foreign-file-touched-at-crash:{at}:{pos}', f'{n0} changed', rp)
    ck.extra['histories'] = {'scenarios': len(hss), 'words': sorted({h['word'] for h in hss})}
    if do_model and cases:
        deferred(ck).submit(eval_hist_cases, cases)


def eval_hist_cases(ck: Ck, cases: list[dict]) -> None:
    bad: list[dict] = []
    abad: list[dict] = []
    n = na = 0
    ch = 250 if ck.thorough else 5000
    for lo in range(0, len(cases), ch):
        part = cases[lo:lo + ch]
        vals = ck.coq_eval(IMPORTS, [coq_list(c['coq'] for c in part),
                                     coq_list((c['attrs'][0] if c['attrs'] else '[]') for c in part)],
                           name='aw_history', preamble=PRE)
        if vals is None:
            ck.obligation('correspondence:history', False, 'model could not be evaluated')
            ck.tie_broken.append('correspondence AtomicWriter (history): model evaluation failed')
            return
        res = parse_coq_nested(vals[0])
        assert len(res) == len(part), (len(res), len(part))
        for c, arows in zip(part, parse_coq_nested(vals[1])):
            if not c['attrs']:
                abad.append({'what': c['what'], 'why': 'no snapshot of the instance attributes after __init__'})
                continue
            for row, info in zip(arows, c['attrs'][1]):
                na += 1
                ck.count('model_cases_history_attributes')
                if not all(row):
                    abad.append({'what': c['what'], 'row': info,
                                 'agrees': dict(zip(['after __init__'] if 'after_init' in info else ['inside the body', 'after __exit__'], row))})
        for c, rows in zip(part, res):
            nm: NameMap = c['nm']
            diffs: list[dict] = []
            if len(rows) != len(c['uses']):
                diffs.append({'model_uses': len(rows), 'real_uses': len(c['uses'])})
            for u, (row, pu) in enumerate(zip(rows, c['uses'])):
                n += 1
                ck.count('model_cases_history')
                pc, events, probes = row
                if events != pu['events']:
                    diffs.append({'use': u + 1, 'events_model': events, 'events_real': pu['events']})
                if (pc[0] == 1) != pu['replaced'] or (pc[2] == 1) != (not pu['returned']):
                    diffs.append({'use': u + 1, 'model_pc': pc, 'real_rename_succeeded': pu['replaced'],
                                  'real_returned_normally': pu['returned']})
                for b, enc in zip(nm.probe_bases(c['max_tmp']), probes):
                    toks = opt_content(enc)
                    real = pu['listing'].get(b)
                    if NameMap.tmp_index(b) is not None and b not in nm.init:
                        if (toks is None) != (real is None):       # a temp file of the writer: presence only
                            diffs.append({'use': u + 1, 'name': b, 'model_present': toks is not None, 'real_present': real is not None})
                        continue
                    exp = nm.expect_bytes(toks, c['wmap'])
                    if exp != real:
                        diffs.append({'use': u + 1, 'name': b, 'model_tokens': toks, 'model_bytes': repr(exp)[:80], 'real': repr(real)[:80]})
            if diffs:
                bad.append({'what': c['what'], 'diffs': diffs[:6]})
    ck.obligation('correspondence:history', not bad,
                  f'{n} uses in {len(cases)} executed reuse histories of one real AtomicWriter (fault-free / one OSError at every '
                  f'operation) vs corr_hist aw_obj (the model threads the directory from use to use): {len(bad)} disagreements')
    if bad:
        ck.tie_broken.append('correspondence AtomicWriter (history): real trace/directory differs from the model')
        ck.extra['history_disagreements'] = bad[:5]
    ck.obligation('correspondence:history-attributes', not abad,
                  f'{na} snapshots of the instance attributes of the real object (after __init__, inside the body and after '
                  f'__exit__ of every use of {len(cases)} executed histories, abstracted to None / True / False / handle / temp '
                  f'name / destination / exception) vs corr_attrs aw_obj (o_init, entered, the leaf environment of __exit__ on '
                  f'the path the real calls took): {len(abad)} disagreements')
    if abad:
        ck.tie_broken.append('correspondence AtomicWriter (history attributes): the attributes of the real object differ '
                             'from the generated object facts')
        ck.extra['history_attribute_disagreements'] = abad[:5]


# =============================================================================================== two writers
def run_two(scs: tuple[dict, dict], root: str, prefix: list[int], init: dict[str, bytes], fault_at: int | None = None):
    """Run two writers in threads under the schedule `prefix` (then: lowest unfinished writer first); `fault_at` = k
    injects an OSError into the k-th file-system operation of the whole run (whoever performs it)."""
    shutil.rmtree(root, ignore_errors=True)
    populate(root, {'init': init})
    sched = Sched(2)
    sim = FsSim(root, 1, fault_at, None, sched)
    outcomes = ['ok', 'ok']
    per_use: list[list[str]] = [[], []]
    executed: list[int] = []
    enabled: list[list[int]] = []
    leaked: list[Any] = []
    with sim:
        AWSpy = make_spy_class(sim)

        def worker(w: int) -> None:
            sim.wids[threading.get_ident()] = w
            sc = scs[w]
            # a writer is one AtomicWriter object; `uses` (round 4) makes it a reuse history: one `with` block per entry
            uses = sc.get('uses') or [sc]
            try:
                aw = AWSpy(os.path.join(root, sc['dest']), is_bytes=not sc.get('text'),
                           **({'encoding': 'utf8'} if sc.get('text') else {}))
                for u, use in enumerate(uses):
                    sim.use_by_w[w] = u
                    sim.set_phase('pre')
                    out = 'ok'
                    try:
                        if use.get('abandon'):       # entered and written, never exited (see run_history)
                            f = aw.__enter__()
                            leaked.append(f)
                            body_plain(use)(f)
                            out = 'abandoned'
                        else:
                            with aw as f:
                                body_plain(use)(f)
                    except BodyError:
                        out = 'body'
                    except OSError as e:
                        out = f'oserror:{type(e).__name__}'
                    except BaseException as e:
                        out = f'other:{type(e).__name__}:{e}'
                    outcomes[w] = out
                    per_use[w].append(out)
            finally:
                sched.done(w)
        ths = [threading.Thread(target=worker, args=(w,), daemon=True) for w in (0, 1)]
        for t in ths:
            t.start()
        step = 0
        while True:
            en = [w for w in (0, 1) if sched.settled(w) == 'waiting']
            if not en:
                break
            w = prefix[step] if step < len(prefix) and prefix[step] in en else en[0]
            enabled.append(en)
            executed.append(w)
            sched.step(w)
            step += 1
            if step > 200:
                break
        for t in ths:
            t.join(timeout=10)
    lst = listing(root)
    for f in leaked:          # handles a history left open: closed outside the interposition, unrecorded
        try:
            f.close()
        except Exception:
            pass
    return dict(ops=sim.ops, outcomes=outcomes, per_use=per_use, executed=executed, enabled=enabled, listing=lst)


class Pair:
    """Two writers (scenario dicts) in one directory, with the token numbering / names the model cases need."""

    def __init__(self, tag: str, sa: dict, sb: dict, init: dict[str, bytes]) -> None:
        self.tag, self.sa, self.sb, self.init = tag, sa, sb, init
        self.nm = NameMap({'init': init, 'dest': sa['dest']}, dests=[sa['dest'], sb['dest']])
        # token numbering: writer w's j-th chunk is token 10*(w+1)+j.  A text writer (TextIOWrapper keeps the encoded
        # chunks until close) issues ONE raw write, during the close on the success path: empty body, one tail token
        toks = [[10 * (w + 1) + j + 1 for j in range(len(s['chunks']) if s.get('raise_after') is None else s['raise_after'])]
                for w, s in enumerate((sa, sb))]
        self.wmap: dict[int, tuple[int, bytes]] = {}
        tails: list[list[int]] = [[], []]
        for w, s in enumerate((sa, sb)):
            if s.get('text'):
                assert s.get('raise_after') is None
                toks[w], tails[w] = [], [10 * (w + 1) + 1]
                self.wmap[10 * (w + 1) + 1] = (0, _data(s))
                continue
            off = 0
            for j, ch in enumerate(s['chunks']):
                self.wmap[10 * (w + 1) + j + 1] = (off, ch)
                off += len(ch)
        self.scen = [coq_scen(self.nm.files.index(os.path.basename(s['dest'])), toks[w], tails[w], s.get('raise_after'))
                     for w, s in enumerate((sa, sb))]
        self.new = [_data(s) if s.get('raise_after') is None else init.get(s['dest']) for s in (sa, sb)]
        self.same_dest = sa['dest'] == sb['dest']
        self.max_tmp = max([NameMap.tmp_index(b) or 0 for b in init] + [0]) + 3


def two_check(ck: Ck, P: Pair, r: dict, fault_at: int | None, do_model: bool, cases: list[dict], how: str) -> None:
    """Oracle on one executed two-writer run (possibly with one injected OSError) + its model case."""
    sa, sb, init, nm = P.sa, P.sb, P.init, P.nm
    lst = r['listing']
    ex = r['executed']
    hit = [o for o in r['ops'] if o['res'] == 'fault']
    fw = hit[0]['w'] if hit else None            # the writer that got the OSError
    rp = replay_obj('two', dict(kind=P.tag, init=init, dest=sa['dest']), a=_hexsc(sa), b=_hexsc(sb), schedule=ex,
                    **({'fault_at': fault_at} if fault_at is not None else {}))
    sfx = '-with-fault' if hit else ''
    if P.same_dest:
        # same destination: the last successful rename decides; the content must be complete (old / all of A / all of B)
        last = [o['w'] for o in r['ops'] if o['op'] == 'replace' and o['res'] == 'ok']
        exp = _data((sa, sb)[last[-1]]) if last else init.get(sa['dest'])
        if lst.get(sa['dest']) != exp:
            ck.violation('two-writers:same-destination-wrong-content' + sfx,
                         f'{sa["dest"]} holds {lst.get(sa["dest"])!r:.40}, expected {exp!r:.40} (renames by {last})', rp)
    for w, s in enumerate((sa, sb)):
        if P.same_dest and w != fw:
            exp_out = 'ok' if s.get('raise_after') is None else 'body'
            if r['outcomes'][w] != exp_out:
                ck.violation('two-writers:unexpected-outcome' + sfx, f'writer {w} ended with {r["outcomes"][w]}', rp)
            continue
        if P.same_dest:
            if r['outcomes'][w] == 'ok' or r['outcomes'][w].startswith(('other', 'hang')):
                ck.violation('two-writers:unexpected-outcome-with-fault',
                             f'writer {w} got an OSError in {hit[0]["op"]} but ended with {r["outcomes"][w]}', rp)
            continue
        exp_out = 'ok' if s.get('raise_after') is None else 'body'
        if w == fw:
            if r['outcomes'][w] == 'ok' or r['outcomes'][w].startswith(('other', 'hang')):
                ck.violation('two-writers:unexpected-outcome-with-fault',
                             f'writer {w} got an OSError in {hit[0]["op"]} but ended with {r["outcomes"][w]}', rp)
            if lst.get(s['dest']) != init.get(s['dest']):
                ck.violation('two-writers:dest-changed-after-fault',
                             f'writer {w} failed ({hit[0]["op"]}) but {s["dest"]} holds {lst.get(s["dest"])!r:.40}', rp)
            continue
        if r['outcomes'][w] != exp_out:
            ck.violation('two-writers:unexpected-outcome' + sfx, f'writer {w} ended with {r["outcomes"][w]}', rp)
        if lst.get(s['dest']) != P.new[w]:
            ck.violation('two-writers:destination-clobbered' + sfx, f'{s["dest"]} holds {lst.get(s["dest"])!r:.40}, '
                         f'expected {P.new[w]!r:.40}', rp)
    extra = set(lst) - set(init) - {sa['dest'], sb['dest']}
    if extra and not (hit and hit[0]['op'] == 'unlink'):
        ck.violation('two-writers:temp-left' + sfx, f'{sorted(extra)} left', rp)
    for n0, v0 in init.items():
        if n0 not in (sa['dest'], sb['dest']) and lst.get(n0) != v0:
            ck.violation('two-writers:foreign-file-touched' + sfx, f'{n0} changed', rp)
    # temp names held at the same time must differ
    held: dict[int, str] = {}
    for o in r['ops']:
        if o['op'] == 'open' and o['res'] == 'ok':
            if o['name'] in held.values():
                ck.violation('two-writers:same-temp-name', f'{o["name"]} opened by both writers', rp)
            held[o['w']] = o['name']
        elif o['op'] in ('replace', 'unlink') and o['res'] == 'ok':
            held.pop(o['w'], None)
    if not do_model:
        return
    # ---- model case: canonicalise each writer's operations (merging as for one writer), then order by time
    merged: list[tuple[int, int, list[int]]] = []
    okc = True
    for w in (0, 1):
        def wtok(n: int, oo: dict, w: int = w) -> int:
            t = 10 * (w + 1) + n
            return t if P.wmap.get(t) == (oo['off'], oo['data']) else 0
        evs, _why, ks = canon_events_k([o for o in r['ops'] if o['w'] == w], nm, wtok)
        if evs is None:
            okc = False
            break
        merged += [(k, w, e) for k, e in zip(ks, evs)]
    merged.sort()
    sched = coq_list(f'({"true" if w else "false"}, {"true" if e[3] == 3 else "false"})' for _k, w, e in merged)
    coq = (f'corr_case2_t aw_proto {nm.coq_init()} {P.scen[0]} {P.scen[1]} {sched} '
           f'{coq_list(nm.probe_names(P.max_tmp))}')
    cases.append(dict(coq=coq, events=[[w] + e for _k, w, e in merged] if okc else None, listing=lst, nm=nm,
                      wmap=P.wmap, max_tmp=P.max_tmp, what={'run': how, 'pair': P.tag, 'schedule': ex, 'fault_at': fault_at},
                      committed=[x == 'ok' for x in r['outcomes']], cleanup_fault=bool(hit and hit[0]['op'] == 'unlink')))


def two_writer_campaign(ck: Ck, do_model: bool) -> None:
    work = str(ck.scratch / 'c12_two')
    big = is_big(ck)
    cap = (lambda n: n) if ck.thorough else (lambda n: min(n, 1000))     # a broken tie in the quick tier: capped DFS
    A1 = dict(dest='a.bin', chunks=[b'A1'])
    pairs = [
        # (pair, limit of the exhaustive DFS over schedules; 0 = only boundary pairs)
        (Pair('plain', A1, dict(dest='b.bin', chunks=[b'B1']), {'a.bin': b'OLDA', 'b.bin': b'OLDB', 'keep.txt': b'k'}), 5000),
        (Pair('stale+raise', A1, dict(dest='b.bin', chunks=[b'B1', b'B2'], raise_after=1),
              {'a.bin': b'OLDA', 'tmp_1': b'STALE1', 'keep.txt': b'k'}), 5000 if big else 0),
        (Pair('two-chunks', dict(dest='a.bin', chunks=[b'A1', b'A2']), dict(dest='b.bin', chunks=[b'B1', b'B2']),
              {'a.bin': b'OLDA', 'b.bin': b'OLDB', 'tmp_2': b'STALE2'}), 6000 if big else 0),
        # a bytes writer next to a text writer (the two open calls of make_tempfile are different code paths)
        (Pair('bytes+text', dict(dest='a.bin', chunks=[b'A1', b'A2']), dict(dest='b.txt', chunks=['b1\n', 'b2\n'], text=True),
              {'a.bin': b'OLDA', 'b.txt': b'OLDB', 'keep.txt': b'k'}), 3000 if big else 0),
        (Pair('fresh+stale-gap', dict(dest='a.bin', chunks=[b'A1', b'A2', b'A3']), dict(dest='b.bin', chunks=[]),
              {'tmp_1': b'S1', 'tmp_3': b'S3', 'keep.txt': b'k'}), 0),
        (Pair('same-destination', dict(dest='a.bin', chunks=[b'A1', b'A2']), dict(dest='a.bin', chunks=[b'B1']),
              {'a.bin': b'OLDA', 'keep.txt': b'k', 'tmp_1': b'S1'}), 3000 if big else 0),
        (Pair('both-raise', dict(dest='a.bin', chunks=[b'A1', b'A2'], raise_after=2), dict(dest='b.bin', chunks=[b'B1'], raise_after=0),
              {'a.bin': b'OLDA', 'b.bin': b'OLDB'}), 0),
    ]
    cases: list[dict] = []
    for P, limit in pairs:
        tag = P.tag
        seen_sched: set[tuple[int, ...]] = set()
        # ---- every interleaving (DFS over schedules), up to `limit` runs
        limit = cap(limit)
        stack: list[list[int]] = [[]] if limit else []
        nrun = 0
        while stack and nrun < limit:
            prefix = stack.pop()
            r = run_two((P.sa, P.sb), work, prefix, P.init)
            nrun += 1
            ck.count('interleavings_executed')
            ex = r['executed']
            seen_sched.add(tuple(ex))
            ck.seen(('two', tag, tuple(ex)))
            ck.hist('interleaving_len', len(ex))
            for j in range(len(prefix), len(ex)):
                other = 1 - ex[j]
                if other in r['enabled'][j]:
                    stack.append(ex[:j] + [other])
            two_check(ck, P, r, None, do_model, cases, 'two writers, DFS over schedules')
        exhaustive = bool(limit) and not stack
        # ---- every pair of operation boundaries: writer A has completed k1 operations and writer B k2, reached both
        # as A^k1 B^k2 and as B^k2 A^k1 (then the rest sequentially); redundant when the DFS was exhaustive
        seq = run_two((P.sa, P.sb), work, [], P.init)
        n1 = sum(1 for w in seq['executed'] if w == 0)
        n2 = sum(1 for w in seq['executed'] if w == 1)
        npairs = 0
        if not exhaustive:
            for k1 in range(n1 + 1):
                for k2 in range(n2 + 1):
                    # quick tier: the mirrored order only for every other pair (the DFS / the theorem cover all)
                    # (round 3: the reuse histories took over part of the quick budget; 'fresh+stale-gap' and 'both-raise'
                    # run the mirrored order only in the thorough tier)
                    for prefix in ([[0] * k1 + [1] * k2, [1] * k2 + [0] * k1]
                                   if big or ((k1 + k2) % 2 and tag not in ('fresh+stale-gap', 'both-raise'))
                                   else [[0] * k1 + [1] * k2]):
                        r = run_two((P.sa, P.sb), work, prefix + [1, 0] * 3, P.init)
                        if tuple(r['executed']) in seen_sched:
                            continue
                        seen_sched.add(tuple(r['executed']))
                        ck.count('boundary_pair_runs')
                        ck.seen(('two-bp', tag, tuple(r['executed'])))
                        two_check(ck, P, r, None, do_model, cases, f'two writers, boundary pair ({k1},{k2})')
                    npairs += 1
        # ---- one injected OSError at every operation of some schedules (sequential both ways, alternating, random)
        nfault = 0
        scheds = [[], [1] * 40, [0, 1] * 20, [1, 0] * 20] + [[ck.rng.randrange(2) for _ in range(40)]
                                                            for _ in range(budget(ck, 2, 8))]
        for sc_i, prefix in enumerate(scheds if (limit or big) else [scheds[0], scheds[2]]):
            n_ops = len(run_two((P.sa, P.sb), work, prefix, P.init)['ops'])
            for k in range(1, n_ops + 1):
                r = run_two((P.sa, P.sb), work, prefix, P.init, fault_at=k)
                if not any(o['res'] == 'fault' for o in r['ops']):
                    continue            # not an injectable operation (mkdir of an existing directory)
                nfault += 1
                ck.count('two_writer_fault_runs')
                ck.seen(('two-fault', tag, sc_i, k))
                ck.hist('two_writer_fault_op', next(o['op'] for o in r['ops'] if o['res'] == 'fault'))
                two_check(ck, P, r, k, do_model, cases, f'two writers, OSError at operation {k}')
        ck.extra.setdefault('interleavings', {})[tag] = {
            'executed': nrun, 'exhaustive': exhaustive, 'boundary_pairs': npairs, 'ops': [n1, n2], 'fault_runs': nfault}
    if do_model and cases:
        deferred(ck).submit(eval_cases2, cases)


def product_campaign(ck: Ck, do_model: bool = False) -> None:
    """Reuse histories x concurrent writers (round 4): writer A is ONE AtomicWriter object used for a word of `with`
    blocks (S = body returns, B = body raises, F = an OSError is injected into the rename of that use), writer B is an
    ordinary single-use writer to another file of the same directory.  Every pair of operation boundaries (A has
    completed k1 operations of its whole history, B k2 of its single use) is reached as A^k1 B^k2 and (thorough tier, and
    every other pair in the quick tier) as B^k2 A^k1; then the rest runs A first.  So B is open — holds a temp name —
    at every point of every use of A, in particular while A is entered again.  Oracle only (the model has no product of
    histories and concurrent writers): every use of A ends as its letter says, both destinations hold the content of
    their writer's last successful use (or the previous content), nothing is left, nothing else is touched, and no
    writer opens, renames or removes a temp name the other writer holds."""
    work = str(ck.scratch / 'c12_product')
    big = is_big(ck)
    cases: list[dict] = []
    init = {'a.bin': b'OLDA', 'b.bin': b'OLDB', 'keep.txt': b'k'}
    # round 5: A = entered and written, never exited (the handle stays open); E = the open of that entry is refused (the
    # entry fails after the prologue has given up the temp file of the abandoned use).  AES: whatever the object still
    # holds after the failed entry, the last use must not come back to the NAME tmp_1 — B may own it by then
    words = ['SS', 'BS', 'FS', 'AES'] + (['SB', 'SSS', 'FB', 'SFS', 'AS', 'AEB'] if escalated(ck) else [])
    B = dict(dest='b.bin', chunks=[b'B1', b'B2'])
    variants = [(w, False) for w in words] + ([('SS', True)] if escalated(ck) else [])
    for word, text in variants:
        uses = []
        for u, ch in enumerate(word):
            chunk: Any = b'A%d' % u
            uses.append(dict(chunks=[chunk.decode() + '\n' if text else chunk], **({'raise_after': 1} if ch == 'B' else {}),
                             **({'abandon': True} if ch == 'A' else {})))
        A = dict(dest='a.bin', uses=uses, chunks=[], **({'text': True} if text else {}))
        seq = run_two((A, B), work, [0] * 200, init)
        opsA = [o for o in seq['ops'] if o['w'] == 0]
        n1, n2 = len(opsA), sum(1 for o in seq['ops'] if o['w'] == 1)
        # F: the rename of that use of A is refused (global number of the operation when A runs first up to there)
        faults = [next((o['k'] for o in opsA if o['u'] == u and o['op'] == ('replace' if ch == 'F' else 'open')
                        and o['res'] == 'ok'), None) for u, ch in enumerate(word) if ch in 'FE']
        if None in faults:
            # the use never performs the operation this word wants refused (e.g. an entry that creates no temp file of its
            # own): that is a failing input by itself, not a reason for the check to stop
            product_check(ck, word, A, B, init, seq, None)
            ck.violation(f'two-writers-reuse:use-without-its-own-open-or-rename:{word}',
                         f'fault-free run of the word {word}: a use marked E / F performed no successful '
                         f'{"open" if "E" in word else "replace"}: {[(o["u"], o["op"], o["name"], o["res"]) for o in opsA][:24]}',
                         {'mode': 'product', 'word': word, 'a': {**A, 'uses': [_hexsc(u) for u in A['uses']]}, 'b': _hexsc(B),
                          'init': {n: v.hex() for n, v in init.items()}, 'schedule': seq['executed'], 'fault_at': None})
            continue
        fault_at = faults[0] if faults else None
        seen_sched: set[tuple[int, ...]] = set()
        nrun = 0
        for k1 in range(n1 + 1):
            if fault_at is not None and k1 < fault_at:
                continue          # the fault is addressed by its number in A's own sequence: A must get there first
            for k2 in range(n2 + 1):
                orders = [[0] * k1 + [1] * k2]
                if fault_at is None and (big or (k1 + k2) % 2):
                    orders.append([1] * k2 + [0] * k1)
                for prefix in orders:
                    r = run_two((A, B), work, prefix + [0] * 200, init, fault_at=fault_at)
                    ex = tuple(r['executed'])
                    if ex in seen_sched:
                        continue
                    seen_sched.add(ex)
                    nrun += 1
                    ck.count('product_runs')
                    ck.seen(('product', word, text, ex))
                    ck.hist('product_word', word + ('-text' if text else ''))
                    product_check(ck, word, A, B, init, r, fault_at)
                    if do_model and not text and 'A' not in word:      # the model's histories are complete uses
                        product_case(word, A, B, init, r, cases)
        ck.extra.setdefault('product', {})[word + ('-text' if text else '')] = {'runs': nrun, 'ops': [n1, n2]}
    if do_model and cases:
        deferred(ck).submit(eval_product_cases, cases)


def product_case(word: str, A: dict, B: dict, init: dict[str, bytes], r: dict, cases: list[dict]) -> None:
    """One executed product run -> corr_product aw_proto (SM/AtomicProduct.v): A's uses become segments, every model
    event is scheduled in the segment of the use of A that is running or comes next."""
    nm = NameMap({'init': init, 'dest': 'a.bin'}, dests=['a.bin', 'b.bin'])
    wmap: dict[int, tuple[int, bytes]] = {}
    off = 0
    for j, ch in enumerate(B['chunks']):
        wmap[90 + j + 1] = (off, ch)
        off += len(ch)
    scenB = coq_scen(1, [90 + j + 1 for j in range(len(B['chunks']))], [], None)
    merged: list[tuple[int, int, int, list[int]]] = []       # (global op number, writer, use of A or -1, event)
    nuse = len(A['uses'])
    scens = []
    for u, use in enumerate(A['uses']):
        tok = 10 * (u + 1) + 1
        wmap[tok] = (0, use['chunks'][0])
        scens.append(coq_scen(0, [tok], [], use.get('raise_after')))

        def wtokA(n: int, oo: dict, u: int = u) -> int:
            t = 10 * (u + 1) + n
            return t if wmap.get(t) == (oo['off'], oo['data']) else 0
        evs, _why, ks = canon_events_k([o for o in r['ops'] if o['w'] == 0 and o['u'] == u], nm, wtokA)
        if evs is None:
            cases.append(dict(coq=None, what={'word': word, 'schedule': r['executed'], 'why': _why}))
            return
        merged += [(k, 0, u, e) for k, e in zip(ks, evs)]

    def wtokB(n: int, oo: dict) -> int:
        return 90 + n if wmap.get(90 + n) == (oo['off'], oo['data']) else 0
    evs, _why, ks = canon_events_k([o for o in r['ops'] if o['w'] == 1], nm, wtokB)
    if evs is None:
        cases.append(dict(coq=None, what={'word': word, 'schedule': r['executed'], 'why': _why}))
        return
    merged += [(k, 1, -1, e) for k, e in zip(ks, evs)]
    merged.sort()
    # the segment of an event of B: the use of A that comes next (the last one when A is done)
    segs: list[list[str]] = [[] for _ in range(nuse)]
    nxt = nuse - 1
    for k, w, u, e in reversed(merged):
        if w == 0:
            nxt = u
        segs[nxt if w == 1 else u].insert(0, f'({"true" if w else "false"}, {"true" if e[3] == 3 else "false"})')
    # uses of A that were never started (an earlier use left its temp file) have no events: the model history ends there too
    last = max([u for _k, w, u, _e in merged if w == 0] + [0])
    h = coq_list(f'({scens[u]}, {coq_list(segs[u])})' for u in range(last + 1))
    max_tmp = 4
    cases.append(dict(coq=f'corr_product aw_proto {scenB} {h} {nm.coq_init()} {coq_list(nm.probe_names(max_tmp))}',
                      events=[[w] + e for _k, w, _u, e in merged], listing=r['listing'], nm=nm, wmap=wmap, max_tmp=max_tmp,
                      outA=(r['per_use'][0][last] if last < len(r['per_use'][0]) else None), outB=r['outcomes'][1],
                      cleanup_fault=any(o['res'] == 'fault' and o['op'] == 'unlink' for o in r['ops']),
                      what={'word': word, 'schedule': r['executed']}))


def eval_product_cases(ck: Ck, cases: list[dict]) -> None:
    bad: list[dict] = [{'what': c['what']} for c in cases if c['coq'] is None]
    good = [c for c in cases if c['coq'] is not None]
    n = 0
    ch = 600 if ck.thorough else 5000
    for lo in range(0, len(good), ch):
        part = good[lo:lo + ch]
        vals = ck.coq_eval(IMPORTS, [coq_list(c['coq'] for c in part)], name='aw_product', preamble=PRE)
        if vals is None:
            ck.obligation('correspondence:product', False, 'model could not be evaluated')
            ck.tie_broken.append('correspondence AtomicWriter (product): model evaluation failed')
            return
        for c, res in zip(part, parse_coq_nested(vals[0])):
            n += 1
            ck.count('model_cases_product')
            pc1, pc2, events, probes = res
            nm: NameMap = c['nm']
            diffs: list[dict] = []
            if events != c['events']:
                diffs.append({'events_model': events, 'events_real': c['events']})
            if c['outA'] is not None and (pc1[2] == 0) != (c['outA'] == 'ok'):
                diffs.append({'model_pc_A': pc1, 'real_outcome_of_the_last_use_of_A': c['outA']})
            if (pc2[2] == 0) != (c['outB'] == 'ok'):
                diffs.append({'model_pc_B': pc2, 'real_outcome_of_B': c['outB']})
            for b, enc in zip(nm.probe_bases(c['max_tmp']), probes):
                toks = opt_content(enc)
                real = c['listing'].get(b)
                if c['cleanup_fault'] and NameMap.tmp_index(b) is not None and b not in nm.init:
                    if (toks is None) != (real is None):
                        diffs.append({'name': b, 'model_present': toks is not None, 'real_present': real is not None})
                    continue
                exp = nm.expect_bytes(toks, c['wmap'])
                if exp != real:
                    diffs.append({'name': b, 'model': repr(exp)[:60], 'real': repr(real)[:60]})
            if diffs:
                bad.append({'what': c['what'], 'diffs': diffs[:6]})
    ck.obligation('correspondence:product', not bad,
                  f'{n} executed runs of a reuse history of one real writer interleaved with a second writer vs corr_product '
                  f'aw_proto (prunt, SM/AtomicProduct.v: A restarts at mkdir after every finished use): {len(bad)} disagreements')
    if bad:
        ck.tie_broken.append('correspondence AtomicWriter (product): real trace/directory differs from the model')
        ck.extra['product_disagreements'] = bad[:5]


def product_check(ck: Ck, word: str, A: dict, B: dict, init: dict[str, bytes], r: dict, fault_at: int | None) -> None:
    lst = r['listing']
    rp = {'mode': 'product', 'word': word, 'a': {**A, 'uses': [_hexsc(u) for u in A['uses']]}, 'b': _hexsc(B),
          'init': {n: v.hex() for n, v in init.items()}, 'schedule': r['executed'], 'fault_at': fault_at,
          'how': './check C12 --replay <this file>: writer 0 is one AtomicWriter object used once per letter of `word`, '
                 'writer 1 a single-use writer; `schedule` says whose operation comes next'}
    key = lambda what: f'two-writers-reuse:{what}:{word}'
    hit = [o for o in r['ops'] if o['res'] == 'fault']
    # writer A, use by use
    expA = init.get('a.bin')
    for u, ch in enumerate(word):
        got = r['per_use'][0][u] if u < len(r['per_use'][0]) else '<not run>'
        faulted = any(o['w'] == 0 and o['u'] == u for o in hit)
        want = 'body' if ch == 'B' else 'abandoned' if ch == 'A' else 'ok'
        if (not faulted and got != want) or (faulted and (got in ('ok', 'abandoned') or got.startswith(('other', 'hang')))):
            ck.violation(key('unexpected-outcome'), f'use {u + 1} ({ch}) of the reused writer ended with {got}, '
                                                    f'B is open in between (schedule {r["executed"][:24]})', rp)
        if got == 'ok':
            expA = _data({**A, 'chunks': A['uses'][u]['chunks']})
    if lst.get('a.bin') != expA:
        ck.violation(key('destination-of-the-reused-writer-wrong'), f'a.bin holds {lst.get("a.bin")!r:.40}, expected {expA!r:.40}', rp)
    if r['outcomes'][1] != 'ok':
        ck.violation(key('other-writer-failed'), f'the single-use writer ended with {r["outcomes"][1]}', rp)
    if lst.get('b.bin') != _data(B):
        ck.violation(key('destination-of-the-other-writer-clobbered'),
                     f'b.bin holds {lst.get("b.bin")!r:.40}, expected {_data(B)!r:.40}', rp)
    extra = set(lst) - set(init)
    if word.endswith('A'):        # the last use is still open: it keeps the one temp file it holds
        extra -= {o['name'] for o in r['ops'] if o['w'] == 0 and o['u'] == len(word) - 1 and o['op'] == 'open' and o['res'] == 'ok'}
    if extra and not any(o['op'] == 'unlink' for o in hit):
        ck.violation(key('temp-left'), f'{sorted(extra)} left', rp)
    for n0, v0 in init.items():
        if n0 not in ('a.bin', 'b.bin') and lst.get(n0) != v0:
            ck.violation(key('foreign-file-touched'), f'{n0} changed', rp)
    held: dict[int, str] = {}
    for o in r['ops']:
        other = 1 - o['w'] if o['w'] in (0, 1) else None
        if other is None or NameMap.tmp_index(os.path.basename(o['name'])) is None:
            continue
        if o['op'] in ('open', 'replace', 'unlink') and o['res'] == 'ok' and held.get(other) == o['name'] \
                and held.get(o['w']) != o['name']:
            ck.violation(key(f'{o["op"]}-of-a-temp-name-the-other-writer-holds'),
                         f'writer {o["w"]} performed {o["op"]} on {o["name"]} while writer {other} was writing to it '
                         f'(operation {o["k"]})', rp)
        if o['op'] == 'open' and o['res'] == 'ok':
            held[o['w']] = o['name']
        elif o['op'] in ('replace', 'unlink') and o['res'] == 'ok' and held.get(o['w']) == o['name']:
            held.pop(o['w'], None)


def _hexsc(s: dict) -> dict:
    return {**s, 'chunks': [c.hex() if isinstance(c, bytes) else c for c in s['chunks']]}


def _data(s: dict) -> bytes:
    return ''.join(s['chunks']).encode('utf8') if s.get('text') else b''.join(s['chunks'])


def eval_cases2(ck: Ck, cases: list[dict]) -> None:
    bad = []
    n = 0
    ch = 900 if ck.thorough else 5000
    for lo in range(0, len(cases), ch):
        part = cases[lo:lo + ch]
        vals = ck.coq_eval(IMPORTS, [coq_list(c['coq'] for c in part)], name='aw_two', preamble=PRE)
        if vals is None:
            ck.obligation('correspondence:two-writers', False, 'model could not be evaluated')
            ck.tie_broken.append('correspondence AtomicWriter (two writers): model evaluation failed')
            return
        res = parse_coq_nested(vals[0])
        for c, r in zip(part, res):
            n += 1
            ck.count('model_cases_two')
            pc1, pc2, events, probes = r
            nm: NameMap = c['nm']
            diffs = []
            if c['events'] is None or events != c['events']:
                diffs.append({'events_model': events, 'events_real': c['events']})
            replaced = [any(e[0] == w and e[1] == 4 and e[4] == 0 for e in (c['events'] or [])) for w in (0, 1)]
            if [(pc1[0] == 1), (pc2[0] == 1)] != replaced or [(pc1[2] == 0), (pc2[2] == 0)] != c['committed']:
                diffs.append({'model_pcs': [pc1, pc2], 'real_rename_succeeded': replaced,
                              'real_returned_normally': c['committed']})
            for b, enc in zip(nm.probe_bases(c['max_tmp']), probes):
                toks = opt_content(enc)
                real = c['listing'].get(b)
                if c.get('cleanup_fault') and NameMap.tmp_index(b) is not None and b not in nm.init:
                    # a temp file left by a failing cleanup unlink: presence is compared, its (partial) bytes are not
                    if (toks is None) != (real is None):
                        diffs.append({'name': b, 'model_present': toks is not None, 'real_present': real is not None})
                    continue
                exp = nm.expect_bytes(toks, c['wmap'])
                if exp != real:
                    diffs.append({'name': b, 'model': repr(exp)[:60], 'real': repr(real)[:60]})
            if diffs:
                bad.append({'what': c['what'], 'diffs': diffs})
    ck.obligation('correspondence:two-writers', not bad,
                  f'{n} executed interleavings of two real writers vs run2 (vm_compute): {len(bad)} disagreements')
    if bad:
        ck.tie_broken.append('correspondence AtomicWriter (two writers): real trace/directory differs from the model')
        ck.extra['two_disagreements'] = bad[:5]


# =============================================================================================== interpreter vs CPython
# The symbolic interpreter of SM/AtomicExit.v (exec / exit_tree) and the transliteration in translate/c12_atomic.py are
# hand-written semantics of a Python subset.  They are tied to CPython here: random `__exit__` bodies in that subset
# (nested try/except/else/finally, returns inside try/finally, bare and explicit raise, aliases that may be None,
# tuple assignment, suppress) are (1) executed by CPython against mock objects whose close/replace/unlink follow an
# oracle of results, (2) transliterated by the translator and walked in the kernel with the same oracle.  The calls
# performed, their results and how the function ends (returns / raises or lets the body's exception through) must agree.
class _Orc:
    def __init__(self, results: list[int], refuse: Callable[[str], BaseException] | None = None) -> None:
        self.results, self.pos, self.log = results, 0, []
        self.refuse = refuse or (lambda what: OSError(errno.EIO, what))     # what a refused operation raises

    def next(self, op: int) -> int:
        r = self.results[self.pos] if self.pos < len(self.results) else 0
        self.pos += 1
        if op == 0:
            r = 1 if r == 1 else 0
        self.log.append([op, r])
        return r


class _MockTemp:
    def __init__(self, orc: _Orc) -> None:
        self._orc = orc

    def close(self) -> None:
        if self._orc.next(0) == 1:
            raise self._orc.refuse('mock close')

    def __exit__(self, *a: Any) -> None:
        self.close()


class _MockPath:
    def __init__(self, orc: _Orc) -> None:
        self._orc = orc

    def replace(self, dst: Any) -> None:
        r = self._orc.next(1)
        if r == 1:
            raise self._orc.refuse('mock replace')
        if r == 2:
            raise FileNotFoundError('mock replace')
    rename = replace

    def unlink(self, missing_ok: bool = False) -> None:
        r = self._orc.next(2)
        if r == 1:
            raise self._orc.refuse('mock unlink')
        if r == 2 and not missing_ok:
            raise FileNotFoundError('mock unlink')


class _MockOs:
    @staticmethod
    def replace(a: Any, b: Any) -> None:
        if a is None:
            raise TypeError('mock os.replace(None)')
        a.replace(b)
    rename = replace

    @staticmethod
    def unlink(a: Any) -> None:
        if a is None:
            raise TypeError('mock os.unlink(None)')
        a.unlink()
    remove = unlink


def gen_exit_source(rng: Any) -> str:
    """A random __exit__ in the translator's subset (all locals are bound in a prologue)."""
    calls = [0]

    def call() -> str:
        calls[0] += 1
        T = rng.choice(['self.temp', 't', 't'])
        N = rng.choice(['self._temp_name', 'n', 'n'])
        k = rng.randrange(9)
        if k < 3:
            return rng.choice([f'{T}.close()', f'{T}.__exit__(exc_type, exc_value, tback)'])
        if k < 5:
            return rng.choice([f'{N}.replace(self.filename)', f'os.replace({N}, self.filename)', f'{N}.rename(self.filename)'])
        return rng.choice([f'{N}.unlink()', f'{N}.unlink(missing_ok=True)', f'os.unlink({N})', f'os.remove({N})',
                           f'{N}.unlink(missing_ok=False)'])

    def test() -> str:
        atoms = ['exc_type is None', 'exc_type is not None', 't is not None', 't is None', 'n is None', 'flag', 'not flag',
                 'done', 'not done', 'exc_value is None', 'self.temp is None', 'flag is True', 'done is not False']
        a = rng.choice(atoms)
        if rng.random() < 0.3:
            a = f'{a} {rng.choice(["and", "or"])} {rng.choice(atoms)}'
        if rng.random() < 0.1:
            a = f'not ({a})'
        return a

    loops = [0]

    def block(depth: int, ind: str, n: int) -> list[str]:
        out: list[str] = []
        for _ in range(n):
            out += stmt(depth, ind)
        return out or [ind + 'pass']

    def stmt(depth: int, ind: str) -> list[str]:
        k = rng.random()
        if loops[0] and rng.random() < 0.22:
            return [ind + rng.choice(['break', 'break', 'continue'])]
        if depth < 3 and rng.random() < 0.10:
            # for _ in range(n): ... [else: ...]   (a retry loop is one of these)
            loops[0] += 1
            out = [ind + f'for _ in range({rng.choice([0, 1, 2, 3])}):'] + block(depth + 1, ind + '    ', rng.choice([1, 2, 2]))
            loops[0] -= 1
            if rng.random() < 0.5:
                out += [ind + 'else:'] + block(depth + 1, ind + '    ', 1)
            return out
        if rng.random() < 0.03:
            return [ind + 'time.sleep(0)']
        if k < 0.30 and calls[0] < 5:
            return [ind + call()]
        if k < 0.42:
            return [ind + rng.choice(['flag = True', 'flag = False', 'done = True', 't = None', 't = self.temp',
                                      'n = self._temp_name', 'self.temp = None', 't, self.temp = self.temp, None',
                                      'flag, done = done, True', 'n = None'])]
        if k < 0.58 and depth < 3:
            out = [ind + f'if {test()}:'] + block(depth + 1, ind + '    ', rng.choice([1, 1, 2]))
            if rng.random() < 0.5:
                out += [ind + 'else:'] + block(depth + 1, ind + '    ', rng.choice([1, 2]))
            return out
        if k < 0.80 and depth < 3:
            out = [ind + 'try:'] + block(depth + 1, ind + '    ', rng.choice([1, 2, 3]))
            nh = rng.choice([0, 1, 1, 2])
            fin = rng.random() < 0.55 or nh == 0
            classes = rng.sample(['OSError', 'FileNotFoundError', 'Exception', '(FileNotFoundError, KeyError)', 'KeyError',
                                  'BaseException', 'IOError', 'PermissionError', 'PermissionError', 'IsADirectoryError',
                                  '(PermissionError, FileExistsError)', 'KeyboardInterrupt'], nh)
            if nh and rng.random() < 0.2:
                classes[-1] = ''
            for c in classes:
                out += [ind + (f'except {c}:' if c else 'except:')] + block(depth + 1, ind + '    ', rng.choice([1, 1, 2]))
            if nh and rng.random() < 0.3:
                out += [ind + 'else:'] + block(depth + 1, ind + '    ', 1)
            if fin:
                out += [ind + 'finally:'] + block(depth + 1, ind + '    ', rng.choice([1, 2]))
            return out
        if k < 0.86:
            return [ind + rng.choice(['return', 'return None', 'return False', 'return True'])]
        if k < 0.92:
            return [ind + rng.choice(['raise', 'raise RuntimeError()', 'raise'])]
        if k < 0.96 and depth < 3:
            return [ind + 'with suppress(FileNotFoundError):'] + block(depth + 1, ind + '    ', rng.choice([1, 2]))
        return [ind + 'pass']

    body = ['    t = self.temp', '    n = self._temp_name', '    flag = False', '    done = False']
    body += block(0, '    ', rng.choice([2, 3, 4, 5]))
    return 'def __exit__(self, exc_type, exc_value, tback):\n' + '\n'.join(body) + '\n'


CORPUS_EXIT = [
    # the repaired __exit__, the pinned one, the shape of seeded c12_1, and some semantic corner cases
    """def __exit__(self, exc_type, exc_value, tback):
    temp, self.temp = self.temp, None
    committed = False
    try:
        if temp is not None:
            temp.__exit__(exc_type, exc_value, tback)
        if self._temp_name is None:
            return None
        if exc_type is None:
            self._temp_name.replace(self.filename)
            committed = True
    finally:
        if not committed and self._temp_name is not None:
            try:
                self._temp_name.unlink()
            except FileNotFoundError:
                pass
    return None
""",
    """def __exit__(self, exc_type, exc_value, tback):
    if self.temp is not None:
        self.temp.__exit__(exc_type, exc_value, tback)
    if self._temp_name is None:
        return None
    if exc_type is not None:
        try:
            self._temp_name.unlink()
        except FileNotFoundError:
            pass
    else:
        self._temp_name.replace(self.filename)
    return None
""",
    """def __exit__(self, exc_type, exc_value, tback):
    try:
        self.temp.close()
    finally:
        if exc_type is None:
            self._temp_name.replace(self.filename)
        else:
            self._temp_name.unlink(missing_ok=True)
""",
    """def __exit__(self, exc_type, exc_value, tback):
    try:
        try:
            self.temp.close()
        finally:
            return True
    finally:
        self._temp_name.unlink()
""",
    """def __exit__(self, exc_type, exc_value, tback):
    try:
        self._temp_name.replace(self.filename)
    except OSError:
        try:
            self._temp_name.unlink()
        finally:
            raise
    else:
        self.temp.close()
""",
    """def __exit__(self, exc_type, exc_value, tback):
    t = None
    try:
        t.close()
    except FileNotFoundError:
        return True
    except Exception:
        self._temp_name.unlink()
        raise
""",
    # a bare raise inside a finally re-raises the exception in flight (or fails when there is none)
    """def __exit__(self, exc_type, exc_value, tback):
    try:
        try:
            self._temp_name.unlink()
        finally:
            raise
    except FileNotFoundError:
        self.temp.close()
    except OSError:
        self._temp_name.replace(self.filename)
""",
    # an exception in the else clause is not caught by the handlers of the same try; the finally still runs
    """def __exit__(self, exc_type, exc_value, tback):
    try:
        self.temp.close()
    except OSError:
        self._temp_name.unlink(missing_ok=True)
    else:
        self._temp_name.replace(self.filename)
    finally:
        if exc_type is not None:
            return False
""",
    # a handler that raises something new; an outer finally that swallows by returning
    """def __exit__(self, exc_type, exc_value, tback):
    try:
        try:
            self._temp_name.replace(self.filename)
        except FileNotFoundError:
            raise RuntimeError()
        except OSError:
            raise
    except Exception:
        self._temp_name.unlink()
        return True
    finally:
        self.temp.close()
""",
    # return inside try, overridden by an exception raised in the finally
    """def __exit__(self, exc_type, exc_value, tback):
    try:
        return True
    finally:
        self.temp.close()
        self._temp_name.unlink()
""",
    # round 4: a bounded retry of the rename on PermissionError, with else: raise (good) ...
    """def __exit__(self, exc_type, exc_value, tback):
    temp, self.temp = self.temp, None
    committed = False
    try:
        if temp is not None:
            temp.__exit__(exc_type, exc_value, tback)
        if exc_type is None:
            for _ in range(3):
                try:
                    self._temp_name.replace(self.filename)
                    break
                except PermissionError:
                    time.sleep(0)
            else:
                raise RuntimeError()
            committed = True
    finally:
        if not committed and self._temp_name is not None:
            try:
                self._temp_name.unlink()
            except FileNotFoundError:
                pass
""",
    # ... and without the else clause (the shape of seeded c12_6): falls out of the loop as if it had succeeded
    """def __exit__(self, exc_type, exc_value, tback):
    temp, self.temp = self.temp, None
    committed = False
    try:
        if temp is not None:
            temp.__exit__(exc_type, exc_value, tback)
        if exc_type is None:
            for _ in range(3):
                try:
                    self._temp_name.replace(self.filename)
                    break
                except PermissionError:
                    time.sleep(0)
            committed = True
    finally:
        if not committed and self._temp_name is not None:
            try:
                self._temp_name.unlink()
            except FileNotFoundError:
                pass
""",
    # break / continue through a finally; the else clause of a loop that was left by break is skipped
    """def __exit__(self, exc_type, exc_value, tback):
    for _ in range(2):
        try:
            self._temp_name.unlink()
            continue
        except OSError:
            break
        finally:
            self.temp.close()
    else:
        self._temp_name.replace(self.filename)
""",
    # a handler naming KeyboardInterrupt, one naming Exception: which of them sees a refused operation depends on the class
    """def __exit__(self, exc_type, exc_value, tback):
    try:
        self.temp.close()
    except KeyboardInterrupt:
        self._temp_name.unlink()
        raise
    except Exception:
        self._temp_name.replace(self.filename)
""",
]


def interp_correspondence(ck: Ck) -> None:
    import ast as _ast
    import contextlib
    nprog = 600 if ck.thorough else budget(ck, 100, 160)
    progs: list[tuple[str, str]] = []          # (python source, coq term)
    rejected = 0
    sources = list(CORPUS_EXIT)
    while len(sources) < len(CORPUS_EXIT) + nprog:
        sources.append(gen_exit_source(ck.rng))
    for src in sources:
        fn = _ast.parse(src).body[0]
        try:
            term, _slots = c12_atomic._exit_prog(fn)
        except c12_atomic.TranslateError:
            rejected += 1           # the translator refuses (fail closed): nothing to compare
            continue
        progs.append((src, term))
    oracles = [[], [1] * 6, [2] * 6, [0, 1], [0, 2], [0, 0, 1], [1, 0, 2]] + \
              [[ck.rng.choice([0, 0, 1, 2]) for _ in range(6)] for _ in range(3)]
    # run classes: what result 1 (refused) makes the mocks raise, and the program specialised to that class in the kernel
    table = c12_atomic.SUBCLASSES
    runs: list[tuple[str, Callable[[str], BaseException] | None, list[list[int]]]] = [('RGeneric', None, oracles)]
    few = [[1] * 6, [0, 1, 1, 0, 1, 2]]
    for cname in ('PermissionError', 'IsADirectoryError'):
        runs.append((f'(RSub {table.index(cname)})', (lambda what, c=getattr(builtins, cname): c(errno.EACCES, what)), few))
    runs.append(('RKbd', lambda what: KeyboardInterrupt(), few))

    def runs_of(src: str) -> list:
        """A named subclass is only interesting for a program one of whose handlers names it (otherwise it is caught
        exactly like the generic OSError); KeyboardInterrupt differs for every handler of OSError / Exception."""
        return [r for r in runs if not r[0].startswith('(RSub') or table[int(r[0][6:-1])] in src]
    bad: list[dict] = []
    n = 0
    ch = 60 if ck.thorough else 400
    for lo in range(0, len(progs), ch):
        part = progs[lo:lo + ch]
        exprs = []
        for _src, term in part:
            walks = '; '.join(f'walk (exit_tree (spec_stmt {rc} p) {"true" if exc else "false"}) {coq_list(map(str, o))}'
                              for rc, _mk, orcs in runs_of(_src) for exc in (False, True) for o in orcs)
            exprs.append(f'let p := {term} in [{walks}]')
        vals = ck.coq_eval(IMPORTS, [coq_list(exprs)], name='aw_interp', preamble=PRE)
        if vals is None:
            ck.obligation('correspondence:exit-interpreter', False, 'model could not be evaluated')
            ck.tie_broken.append('correspondence exit interpreter: evaluation failed')
            return
        res = parse_coq_nested(vals[0])
        for (src, _term), rows in zip(part, res):
            import time as _time_mod
            ns: dict[str, Any] = {'os': _MockOs, 'suppress': contextlib.suppress, 'contextlib': contextlib, 'time': _time_mod}
            exec(compile(src, '<generated __exit__>', 'exec'), ns)
            fn = ns['__exit__']
            it = iter(rows)
            for rc, mk, orcs in runs_of(src):
              for exc in (False, True):
                for o in orcs:
                    log_m, fin_m = next(it)
                    orc = _Orc(list(o), mk)
                    obj = type('W', (), {})()
                    obj.temp, obj._temp_name, obj.filename = _MockTemp(orc), _MockPath(orc), object()
                    ei = (ValueError, ValueError('body'), None) if exc else (None, None, None)
                    try:
                        rv = fn(obj, *ei)
                        fin_r = 1 if (exc and not rv) else 0
                    except (UnboundLocalError, NameError):
                        fin_r = 2
                    except BaseException:
                        fin_r = 1
                    n += 1
                    ck.count('interpreter_cases')
                    ck.hist('interp_calls', len(orc.log))
                    ck.hist('interp_end', ['returns', 'raises', 'outside'][fin_m])
                    if fin_m == 2 or fin_r == 2:
                        ok = fin_m == fin_r
                    else:
                        ok = (log_m, fin_m) == (orc.log, fin_r)
                    if len(orc.log) >= 1:
                        ck.seen(('interp', hash(src) & 0xffffffff, rc, exc, tuple(o)))
                    ck.hist('interp_run_class', rc)
                    if not ok:
                        bad.append({'source': src, 'run_class': rc, 'body_raised': exc, 'oracle': o, 'model': [log_m, fin_m],
                                    'cpython': [orc.log, fin_r]})
    ck.extra['interpreter_programs'] = {'compared': len(progs), 'rejected_by_translator': rejected}
    ck.obligation('correspondence:exit-interpreter', not bad,
                  f'{n} executions of {len(progs)} __exit__ bodies ({len(CORPUS_EXIT)} fixed + random; {rejected} refused by '
                  f'the translator) in CPython against mock objects vs walk (exit_tree ..) in the kernel: {len(bad)} disagreements')
    if bad:
        ck.tie_broken.append('correspondence exit interpreter: the kernel interpreter / transliteration disagrees with CPython')
        ck.extra['interpreter_disagreements'] = bad[:5]
        ck.violation('exit-interpreter-disagrees-with-cpython',
                     f'model {bad[0]["model"]} vs CPython {bad[0]["cpython"]} (body_raised={bad[0]["body_raised"]}, '
                     f'oracle={bad[0]["oracle"]}) on\n{bad[0]["source"]}', bad[0])
        ck.explain('correspondence:exit-interpreter')


def class_table_correspondence(ck: Ck) -> None:
    """The table behind the run classes — which handler class catches which exception in flight when the refused
    operations of a run raise a given class (catches (spec_class r k) e in SM/AtomicRetry.v, the class terms written by
    translate/c12_atomic.py) — against CPython's own exception hierarchy, EXHAUSTIVELY: every class name the translator
    accepts in a handler x every run class x every exception in flight (the refused operation's, FileNotFoundError,
    AttributeError / RuntimeError for "anything else")."""
    import ast as _ast
    T = c12_atomic
    names = sorted(T.CLASS_ALL | T.CLASS_EXC | T.CLASS_OSERROR | T.CLASS_NOENT | set(T.SUBCLASSES) | {'KeyboardInterrupt'} | T.CLASS_NEVER)
    tr = T._ExitTr(_ast.parse('def __exit__(self, a, b, c): pass').body[0])
    runs: list[tuple[str, BaseException]] = [('RGeneric', OSError(errno.EIO, 'x')), ('RKbd', KeyboardInterrupt())]
    for i, n in enumerate(T.SUBCLASSES):
        runs.append((f'(RSub {i})', getattr(builtins, n)()))
    rows, truth, what = [], [], []
    for h in names + ['']:
        k = tr.classes(_ast.Name(id=h, ctx=_ast.Load()) if h else None)      # '' = a bare `except:`
        hcls = getattr(builtins, h) if h else BaseException
        for rc, inst in runs:
            rows.append(f'map (fun e => existsb (fun k => catches (spec_class {rc} k) e) {k}) [XOSErr; XNoEntErr; XOther]')
            truth.append([isinstance(inst, hcls), isinstance(FileNotFoundError(), hcls),
                          isinstance(AttributeError(), hcls)])
            if isinstance(AttributeError(), hcls) != isinstance(RuntimeError(), hcls):
                truth[-1][2] = None       # the model has one "anything else": the two must agree
            what.append((h or '<bare except>', rc))
    vals = ck.coq_eval(IMPORTS, [coq_list(rows)], name='aw_class_table', preamble=PRE)
    bad: list[dict] = []
    if vals is None:
        bad.append({'why': 'model could not be evaluated'})
    else:
        got = [[x.strip() == 'true' for x in row.strip('[] ').split(';')] for row in vals[0].strip().strip('[]').split('];')]
        if len(got) != len(truth):
            bad.append({'why': f'{len(got)} rows for {len(truth)} questions'})
        for g, t, w in zip(got, truth, what):
            ck.count('class_table_cells', 3)
            if g != t:
                bad.append({'handler': w[0], 'run_class': w[1], 'model [refused; FileNotFoundError; other]': g, 'cpython': t})
    ck.obligation('correspondence:exception-classes', not bad,
                  f'{len(truth)} (handler class, run class) pairs x 3 exceptions in flight, catches (spec_class r k) e vs '
                  f'isinstance in CPython (exhaustive over the translator\'s tables): {len(bad)} disagreements')
    if bad:
        ck.tie_broken.append('the exception-class table of SM/AtomicRetry.v / the translator disagrees with CPython')
        ck.extra['class_table_disagreements'] = bad[:8]


class _Pending(Exception):
    """Raised by the recording pass of _Deferred when the function reaches its first model evaluation."""


class _Deferred:
    """Model evaluations (coqc, vm_compute: 2-8 s of CPU each) in the background.

    `submit(fn, *args)` runs `fn(proxy, *args)` up to its first `coq_eval` request, starts coqc for that request as a
    separate PROCESS (no thread: the campaigns fork) and returns; `join()` runs `fn` again, this time handing it the
    output of that process (any further request of the same call is evaluated synchronously), so everything `fn` reports
    (obligations, counts, broken ties) is reported exactly as before, only later.  `fn` must not do anything that may
    not be repeated before its first request (the eval_* functions only build lists).  Joins happen at fixed points of
    the run (after the stage FOLLOWING the one that submitted), so results do not depend on timing."""

    def __init__(self, ck: Ck) -> None:
        self.ck = ck
        self.jobs: list[dict] = []

    def submit(self, fn: Callable, *args: Any) -> None:
        import subprocess
        from harness.common import ROCQ, _unlimit_stack
        ck, outer = self.ck, self

        class Rec:
            def __getattr__(self, name: str) -> Any:
                return getattr(ck, name)

            def coq_eval(self, imports, exprs, name='eval', timeout=600, preamble=''):
                body = ''.join(f'Require Import {i}.\n' for i in imports) + preamble + '\n'
                body += 'Set Printing Width 1000000.\nSet Printing Depth 1000000.\n'
                for e in exprs:
                    body += f'Eval vm_compute in ({e}).\n'
                d = ck.scratch / f'coq_{name}_bg{len(os.listdir(ck.scratch))}'
                d.mkdir()
                (d / f'{name}.v').write_text(body)
                fh = open(d / 'out.txt', 'w')
                proc = subprocess.Popen(['coqc', '-Q', str(ROCQ), 'SV', '-Q', str(d), 'Scratch', str(d / f'{name}.v')],
                                        stdout=fh, stderr=subprocess.STDOUT, cwd=d, preexec_fn=_unlimit_stack)
                outer.jobs.append(dict(fn=fn, args=args, key=(tuple(imports), tuple(exprs), preamble), proc=proc, fh=fh,
                                       out=d / 'out.txt', name=name, timeout=timeout, rng=rng0))
                raise _Pending()
        rng0 = ck.rng.getstate()      # the second pass must draw what the first one drew (interp_correspondence generates
        try:                          # its programs before its first request, and draws nothing afterwards)
            fn(Rec(), *args)          # completes only when it needs no evaluation at all (then its reports are made)
        except _Pending:
            pass

    def join(self, keep: int = 0) -> None:
        """Finish all submitted calls but the `keep` most recent ones, in the order of submission."""
        import subprocess
        from harness.common import _split_evals
        ck = self.ck
        while len(self.jobs) > keep:
            job = self.jobs.pop(0)

            class Play:
                def __getattr__(self, name: str) -> Any:
                    return getattr(ck, name)

                def coq_eval(self, imports, exprs, name='eval', timeout=600, preamble='', job=job):
                    if job.get('used') or (tuple(imports), tuple(exprs), preamble) != job['key']:
                        return ck.coq_eval(imports, exprs, name=name, timeout=timeout, preamble=preamble)
                    job['used'] = True
                    try:
                        rc = job['proc'].wait(timeout=job['timeout'])
                    except subprocess.TimeoutExpired:
                        job['proc'].kill()
                        rc = 124
                    job['fh'].close()
                    out = job['out'].read_text() if rc != 124 else f'coqc timeout after {job["timeout"]}s'
                    if rc != 0:
                        ck.notes.append(f'coq_eval {name} failed: {out[-1500:]}')
                        return None
                    vals = _split_evals(out)
                    if len(vals) != len(exprs):
                        ck.notes.append(f'coq_eval {name}: expected {len(exprs)} values, got {len(vals)}')
                        return None
                    return vals
            cur = ck.rng.getstate()
            ck.rng.setstate(job['rng'])
            try:
                job['fn'](Play(), *job['args'])
            finally:
                ck.rng.setstate(cur)
                if job['proc'].poll() is None:
                    job['proc'].kill()


class _HygieneInBackground:
    """What Ck.hygiene does (harness.common.scan_hygiene over every .v file of the development: 13 s of CPU), in a separate
    process started after the Gen file is written and collected at the end of the run; reported under the same name."""

    def __init__(self, ck: Ck) -> None:
        import subprocess
        import sys
        self.ck = ck
        ck._hygiene_done = True           # Ck.build would otherwise run the scan synchronously
        self.out = ck.scratch / 'hygiene_bg.json'
        self.fh = open(self.out, 'w')
        self.proc = subprocess.Popen([sys.executable, '-c',
                                      'import json, harness.common as h; print(json.dumps(h.scan_hygiene()))'],
                                     stdout=self.fh, stderr=subprocess.STDOUT)
        self.done = False

    def join(self) -> None:
        import json
        import subprocess
        if self.done:
            return
        self.done = True
        ck = self.ck
        try:
            rc = self.proc.wait(timeout=900)
        except subprocess.TimeoutExpired:
            self.proc.kill()
            rc = 124
        self.fh.close()
        txt = self.out.read_text()
        try:
            bad = json.loads(txt.strip().splitlines()[-1]) if rc == 0 else None
        except Exception:
            bad = None
        if bad is None:
            from harness.common import scan_hygiene
            bad = scan_hygiene()          # the background scan did not come back: do it here
        ck.obligation('hygiene:no_admitted_axiom_parameter_or_unchecked_flag', not bad,
                      'all .v files scanned (comments removed): none found' if not bad else '; '.join(bad[:20]))
        if bad:
            ck.tie_broken.append('hygiene: ' + '; '.join(bad[:5]))


class _TheoremsInBackground:
    """What ck.theorems does (Print Assumptions of every theorem of Props/C12.v: one coqc process, 8-40 s on a loaded
    machine), started as a separate PROCESS right after the build and collected at the end of the run, so that it costs
    no wall time.  No thread is involved (the campaigns fork); the output goes to a file, not a pipe."""

    def __init__(self, ck: Ck, props: str) -> None:
        import re
        import subprocess
        from harness.common import ROCQ, _unlimit_stack
        self.ck, self.props = ck, props
        self.names = re.findall(r"^\s*(?:Theorem|Lemma|Corollary)\s+([A-Za-z0-9_']+)", (ROCQ / props).read_text(), re.M)
        d = ck.scratch / 'coq_assumptions_bg'
        d.mkdir()
        mod = 'SV.' + props[:-2].replace('/', '.')
        (d / 'assumptions.v').write_text(f'Require Import {mod}.\n' + ''.join(f'Print Assumptions {n}.\n' for n in self.names))
        self.out = d / 'out.txt'
        self.fh = open(self.out, 'w')
        self.proc = subprocess.Popen(['coqc', '-Q', str(ROCQ), 'SV', '-Q', str(d), 'Scratch', str(d / 'assumptions.v')],
                                     stdout=self.fh, stderr=subprocess.STDOUT, cwd=d, preexec_fn=_unlimit_stack)
        self.done = False

    def join(self) -> None:
        import subprocess
        from harness.common import _split_assumptions
        if self.done:
            return
        self.done = True
        ck = self.ck
        try:
            rc = self.proc.wait(timeout=900)
        except subprocess.TimeoutExpired:
            self.proc.kill()
            rc = 124
        self.fh.close()
        out = self.out.read_text()
        if rc != 0:
            ck.obligation(f'assumptions:{self.props}', False, ('coqc timeout after 900 s' if rc == 124 else out[-2000:]))
            ck.tie_broken.append(f'Print Assumptions failed for {self.props}')
            return
        for n, b in zip(self.names, _split_assumptions(out, len(self.names))):
            ck.axioms[n] = b
            ck.obligation(f'theorem:{n}', True, 'Qed; axioms: ' + ('none (closed under the global context)' if not b else ', '.join(b)))


# =============================================================================================== main
def run(ck: Ck) -> None:
    ck.level = 'proof'
    ck.extra['secondary_level'] = 'fault_enumeration (every kill point, every single OSError, every interleaving, executed)'
    ck.rule = ('scenario = (destination old/new/nested/named like a temp file, stale tmp_N files (none, gaps, 1..12 / 1..60), '
               'chunk list, buffer size 1/small/8192, bytes or text, body raising after j writes, BSP.save of a cut-down real '
               'map onto an existing / fresh path / new directory, with a lump that makes the body raise mid-way, without a '
               'version, with a rebuild phase that raises). For each scenario the real code is run fault-free, then killed '
               '(os._exit in a forked child) after k operations for EVERY k, then with one OSError injected at EVERY '
               'injectable raw operation (mkdir, open, write, flush-write, close, replace, unlink); two writers (six pairs, '
               'one with a shared destination) are run under EVERY interleaving (DFS over schedules) or at every pair of '
               'operation boundaries (A^k1 B^k2 and B^k2 A^k1), and with one OSError at every operation of 3-6 schedules. '
               'Reuse histories: ONE AtomicWriter object, one with-block per letter of a word over S (body returns) / B (body '
               'raises after some writes) / A (round 5: __enter__ by hand, one or two chunks written, NO __exit__: the handle '
               'stays open) — S, B, SS, SB, BS, BB, SSB, BSB, SBS, SBB, AS (bytes buffer 1 / 8192, utf8 text), SAS (utf16), '
               'AAS (stale temp), ABS (+ longer and random words when escalated), bytes/text, buffer sizes, stale temps, '
               'missing destination — run fault-free, with one OSError at '
               'EVERY injectable operation of the whole history, and killed before every operation of the later uses; every '
               'use is judged relative to the directory it started in, and the instance attributes of the object are '
               'snapshotted after __init__, inside every body and after every __exit__. '
               'A case is distinct by (scenario kind, buffer size, kill/fault index), by the full schedule, by '
               '(pair, schedule, fault index), or by (history, fault/kill index, use); all are non-trivial (each changes where '
               'the protocol is interrupted). '
               'Exception classes (round 4): in 10 scenarios (7 plain, 3 BSP.save) every injectable operation (of the raw writes: '
               'the first and the last) x 14 exception classes x {refused for ever, refused 1 / 2 / 3 / 5 times then accepted '
               '(run only when the persistent run was refused more often than that: otherwise it is the same run)}; in every '
               'fourth reuse history every non-write operation x {PermissionError, KeyboardInterrupt} x {for ever, twice}; '
               'distinct by (scenario, operation, class, times). Product: writer A = one object used for the words SS, BS, FS, AES '
               '(F: the rename of that use is refused; A: entered, written, never exited; E: the open of that entry is '
               'refused; + SB, SSS, FB, SFS, AS, AEB and a text writer when escalated), writer B a '
               'single-use writer of another file, every pair (k1, k2) of completed operations reached as A^k1 B^k2 and for '
               'every other pair as B^k2 A^k1; distinct by the executed schedule. '
               'Interpreter tie: program = random __exit__ body of the translator subset (2-5 top-level statements, depth <= 3, '
               '<= 5 file-system calls, for-range loops with break / continue / else, handlers naming OSError subclasses / '
               'KeyboardInterrupt / Exception / BaseException) x {body returned, body raised} x 10 result oracles for the '
               'generic class + 2 oracles for each of PermissionError / IsADirectoryError (when a handler names it) / '
               'KeyboardInterrupt; distinct by (program, run class, exc, oracle), non-trivial when at least one call is performed.')
    ck.trusted.append('hand-written machines SM/AtomicWriter.v (flags) and SM/AtomicExit.v (decision trees + interpreter of '
                      'the generated __exit__ program), tied by the proved refinement, by the kernel-computed obligations on '
                      'the generated program and by the executed crash/fault/interleaving correspondence on every run; '
                      'SM/AtomicReuse.v (attribute states, histories) on top of them, its generated object facts '
                      '(translate/c12_atomic._object_facts) tied by the executed history and attribute correspondences')
    ck.trusted.append('checks/c12.py interposer: io.FileIO subclass under the BufferedWriter/TextIOWrapper, patched io.open / '
                      'os.mkdir / os.unlink / os.replace; POSIX rename atomicity and O_EXCL are assumed, not verified')
    ck.trusted.append('SM/AtomicRetry.v: spec_stmt (which handler classes catch an exception of which run class) is a '
                      'hand-written table, tied to CPython by the interpreter correspondence run per class (mocks raise '
                      'PermissionError / IsADirectoryError / KeyboardInterrupt) and by the executed class-fault runs')
    ck.assumptions += [
        'all refused operations of one run raise the same exception class (run class); a refused rename / unlink leaves '
        'the directory unchanged (what makes a retry a stutter step)',
        'a killed process loses its user-space buffers but the kernel keeps completed write(2)/rename(2) effects '
        '(no power-loss durability is claimed: the code never calls fsync)',
        'os.replace is atomic and the temp file is in the same directory as the destination (aw_tmp_sibling obligation)',
        'an OSError raised by the cleanup unlink itself may leave the temp file (no implementation can avoid it); '
        'the destination must still be unchanged',
        'contents are abstract write tokens in the model; bytes are reconstructed by the harness from the recorded '
        '(offset, data) of each raw write',
    ]
    ok_t = ck.translate('AtomicWriter_gen', c12_atomic.translate)
    side = ck.extra.get('translated', {}).get('AtomicWriter_gen', {})
    hygiene = _HygieneInBackground(ck) if ok_t else None
    built = ok_t and ck.build(['Props/C12.vo', 'Gen/AtomicWriter_gen.vo'])
    background = None
    if built:
        background = _TheoremsInBackground(ck, 'Props/C12.v')
        # which run classes have the exit protocol of the generic class (all of them unless a handler names a subclass of
        # OSError or KeyboardInterrupt): their model cases are the generic ones (see add_case)
        same = ck.coq_eval(IMPORTS, ['map (fun r => proto_eqb (class_proto aw_obj r) aw_proto) (run_classes aw_nclasses)'],
                           name='aw_classes', preamble=PRE)
        flags = [x.strip() == 'true' for x in same[0].strip('[] \n').split(';')] if same else []
        nsub = len(side.get('subclasses') or [])
        names_rc = ['RGeneric', 'RKbd'] + [f'(RSub {i})' for i in range(nsub)]
        ck.extra['class_same_protocol'] = dict(zip(names_rc, flags)) if len(flags) == len(names_rc) else {}
        # Every obligation is stated for EVERY run class (what a refused operation raises: an OSError that is no named
        # subclass, each named subclass of the translator's table, KeyboardInterrupt): `allc P` = P holds for the object
        # with its __exit__ specialised to each class.  Family membership and the flags are judged on the COLLAPSED
        # protocol (a refused rename / unlink that is tried again is a stutter step: c12_retry_*), the order / exception
        # flow predicates on the trees as they are.
        def allc(body: str) -> str:
            return (f'all_classes aw_nclasses aw_obj (fun o => let x := obj_proto o in let cx := collapse_proto x in '
                    f'let cf := derive_cfg cx in {body})')
        ok2, fl2 = 'x_ok x', 'x_exc x'
        ck.instance_obligations(IMPORTS, {
            # hypotheses of c12_property / c12_retry_* / c12_protocol_* / c12_reuse_*, for today's object
            'proto_ok': allc('proto_ok cx'),
            'proto_safe': allc('proto_safe cx'),
            'exit_protocol_in_model_family': allc('in_family cx'),
            'exit_returns_normally_iff_renamed': allc('proto_outcome_ok x'),
            # the same, flag by flag (flags are computed in the kernel from the decision trees of the program)
            'temp_opened_exclusively_with_retry': allc('c_excl cf'),
            'body_exception_discards_temp': allc('is_discard (c_on_exc cf)'),
            'success_commits_by_replace': allc('is_commit (c_on_ok cf)'),
            'failing_close_still_unlinks_temp': allc('c_close_guard cf'),
            'failing_replace_still_unlinks_temp': allc('c_replace_guard cf'),
            'cfg_ok': allc('cfg_ok cf'),
            # order of operations / exception flow, judged on the decision trees directly (independent of the family)
            'exit_no_unmodelled_step': allc(f'no_bad ({ok2}) && no_bad ({fl2})'),
            'temp_closed_before_replace': allc(f'closes_first ({ok2}) && closes_first ({fl2})'),
            'exit_closes_temp_once': allc(f'no_close (close_ok ({ok2})) && no_close (close_fl ({ok2})) && '
                                          f'no_close (close_ok ({fl2})) && no_close (close_fl ({fl2}))'),
            'exit_failing_close_never_renames': allc(f'no_replace (close_fl ({ok2})) && no_replace (close_fl ({fl2}))'),
            'exit_body_exception_never_renames': allc(f'no_replace ({fl2})'),
            'exit_success_renames_after_close': allc(f'success_commits ({ok2})'),
            'exit_every_failure_path_unlinks_temp': allc(f'cleans ({ok2}) false && cleans ({fl2}) false'),
            # (on the collapsed trees: a refused rename that is accepted at the next attempt is handled, not swallowed;
            # that the with statement returns normally only after a rename is exit_returns_normally_iff_renamed)
            'exit_never_swallows_an_exception': allc('propagates (x_ok cx) false && propagates (x_exc cx) true'),
            'exit_success_returns_normally': allc(f'ok_path_returns ({ok2})'),
            'exit_without_enter_does_nothing': allc('unentered_exit_is_inert o'),
            # one object, several `with` blocks (c12_reuse_* speak about an object with reuse_indep = true): whatever
            # the earlier uses left in the instance attributes, the next use runs the protocol of a fresh object
            'reuse_exit_protocol_independent_of_earlier_uses': allc('reuse_indep o'),
            'reuse_exit_always_clears_the_temp_handle': allc('exit_always_leaves o 0 VNone'),
            # what make_tempfile does before mkdir / the temp-name loop touches nothing whenever no temp file is open
            # (the model enters a use with mkdir): c12_entry_prologue_keyed_on_stale_name_refuted is the wrong shape
            'reuse_entry_touches_nothing_before_creating_its_temp_file':
                'entry_inert aw_obj aw_entry_prog && entry_inert aw_obj aw_entry_prog_closed',
            # round 5: the same statements when the object still HOLDS a temp file (a use that was entered and never
            # exited): close the handle, remove the file by name, and only then go on to create a new one
            # (c12_reentry_after_abandoned_use; c12_reentry_keeps_open_handle_refuted is the shape of seeded c12_8) ...
            'reuse_entry_gives_up_a_temp_file_left_open':
                'reentry_ok aw_obj aw_entry_prog && reentry_ok_closed aw_obj aw_entry_prog_closed',
            # ... and when that entry fails, the handle is forgotten: no later entry comes back to the stale NAME
            'reuse_failed_entry_forgets_the_temp_handle':
                'reentry_forgets aw_obj aw_entry_prog && reentry_forgets aw_obj aw_entry_prog_closed',
            # literally the hypotheses of c12_property_of_generated_object, for today's generated objects
            'c12_property_of_generated_object_hypotheses':
                'all_classes aw_nclasses aw_obj (fun o => retry_ok (obj_proto o) && proto_outcome_ok (obj_proto o) && '
                'reuse_indep o) && reentry_ok aw_obj aw_entry_prog',
            'reuse_fresh_object_is_unentered': 'init_unentered aw_obj',
            'reuse_enter_binds_handle_and_temp_name': 'enter_binds aw_obj',
            'temp_is_sibling_of_destination': 'aw_tmp_sibling',
            # the temp-name loop (c12_open_loop_least_free / c12_temp_index_bounded speak about this loop)
            'temp_loop_starts_at_1_and_is_unbounded': 'Nat.eqb aw_loop_start 1 && aw_loop_unbounded',
            'temp_loop_name_is_tmp_index': 'aw_loop_template_ok',
            'temp_loop_retries_only_on_file_exists': 'aw_loop_handler_inert && aw_loop_break_after_open',
            'temp_loop_never_uses_the_destination': 'aw_loop_skips_destination',
            'bsp_module_never_modifies_files_directly': 'match bsp_fs_write_sites with nil => true | _ => false end',
            'bsp_save_writes_only_through_the_handle': 'forallb snd bsp_save_writes',
            'bsp_save_handle_is_binary': 'bsp_save_handle_is_bytes',
            'bsp_save_output_is_always_an_atomic_writer':
                'match bsp_save_with_ctors with nil => false | l => forallb snd l end',
        })
    # AST digests only escalate budgets (DESIGN 5.4)
    dig = side.get('digests', {})
    if dig and (dig.get('__exit__'), dig.get('make_tempfile')) not in KNOWN_DIGESTS:
        ck.notes.append('AtomicWriter source differs from the versions the model was written against: escalated budgets')
        ck.extra['escalated_by_digest'] = True
    import time
    cwd0 = os.getcwd()
    (ck.scratch / 'cwd').mkdir(exist_ok=True)
    os.chdir(ck.scratch / 'cwd')       # relative temp names would land here, where they are noticed
    try:
        _campaigns(ck, built, background)
    finally:
        os.chdir(cwd0)
        t1 = time.time()
        if hygiene is not None:
            hygiene.join()
        if background is not None:
            background.join()
        ck.extra.setdefault('stage_seconds', {})['wait-for-hygiene-scan-and-print-assumptions'] = round(time.time() - t1, 1)


def _campaigns(ck: Ck, built: bool, background: '_TheoremsInBackground | None' = None) -> None:
    import time

    class _Stages(dict):
        """wall seconds per stage; next to it the CPU seconds of this process and its reaped children (wall time says
        little on a loaded machine)."""
        def __setitem__(self, k: str, v: float) -> None:
            super().__setitem__(k, v)
            t = os.times()
            now = round(t.user + t.system + t.children_user + t.children_system, 1)
            ck.extra.setdefault('stage_cpu_seconds', {})[k] = round(now - getattr(self, 'last', 0.0), 1)
            self.last = now
    stage: dict[str, float] = _Stages()
    ck.extra['stage_seconds'] = stage
    stage['translate+build+obligations'] = round(time.time() - ck.t0, 1)
    t1 = time.time()
    if built:
        class_table_correspondence(ck)
        deferred(ck).submit(interp_correspondence)
    stage['interpreter'] = round(time.time() - t1, 1)
    t1 = time.time()
    scs = scenarios(ck)
    single_campaign(ck, scs, bool(built))
    deferred(ck).join(keep=1)
    stage['single'] = round(time.time() - t1, 1)
    t1 = time.time()
    history_campaign(ck, bool(built))
    deferred(ck).join(keep=1)
    stage['history'] = round(time.time() - t1, 1)
    t1 = time.time()
    try:
        bscs = bsp_scenarios(ck)
    except Exception as e:     # the BSP sample could not be prepared: say so, do not hide it
        ck.obligation('bsp-sample', False, f'could not prepare the BSP sample: {e!r}')
        bscs = []
    single_campaign_bsp(ck, bscs, bool(built))
    deferred(ck).join(keep=1)
    stage['bsp'] = round(time.time() - t1, 1)
    t1 = time.time()
    two_writer_campaign(ck, bool(built))
    deferred(ck).join(keep=1)
    stage['two'] = round(time.time() - t1, 1)
    t1 = time.time()
    product_campaign(ck, bool(built))
    stage['product'] = round(time.time() - t1, 1)
    t1 = time.time()
    deferred(ck).join()
    stage['wait-for-model-evaluations'] = round(time.time() - t1, 1)
    reuse_keys = [v['key'] for v in ck.violations if v['key'].startswith('reuse:')]
    keys = {v['key'].removeprefix('bsp-save:').removeprefix('reuse:') for v in ck.violations}
    class_keys = {k for k in keys if k.startswith('errclass:')}
    # which failed obligations a concrete violation (with a replay) explains
    temp_left = any(k.startswith(('temp-left-after-', 'two-writers:temp-left', 'unexpected-files')) for k in keys)
    dest_bad = any('mixture' in k or k.startswith(('dest-changed', 'new-content', 'old-content', 'wrong-content',
                                                   'two-writers:', 'foreign-file', 'bad-content', 'dest-named'))
                   for k in keys)
    swallowed = any(k.startswith(('unexpected-outcome', 'bad-content-after-swallowed', 'unexpected-exception')) for k in keys)
    table = [
        (any(k.startswith(('temp-left-after-close-fault', 'temp-left-after-flush-fault')) for k in keys),
         ['instance:failing_close_still_unlinks_temp']),
        (any(k.startswith('temp-left-after-replace-fault') for k in keys), ['instance:failing_replace_still_unlinks_temp']),
        (temp_left, ['instance:cfg_ok', 'instance:proto_ok', 'instance:exit_protocol_in_model_family',
                     'instance:exit_every_failure_path_unlinks_temp', 'instance:body_exception_discards_temp']),
        (dest_bad, ['instance:temp_opened_exclusively_with_retry', 'instance:body_exception_discards_temp',
                    'instance:success_commits_by_replace', 'instance:cfg_ok', 'instance:proto_', 'instance:exit_',
                    'instance:temp_closed_before_replace', 'instance:failing_']),
        (swallowed, ['instance:exit_never_swallows_an_exception', 'instance:exit_success_returns_normally',
                     'instance:exit_protocol_in_model_family', 'instance:proto_', 'instance:cfg_ok',
                     'instance:success_commits_by_replace', 'instance:exit_success_renames_after_close',
                     'instance:exit_no_unmodelled_step']),
        (bool(keys), ['correspondence:']),
        (temp_left or dest_bad or swallowed or 'temp-file-outside-destination-directory' in keys, ['translate:']),
        ('temp-file-outside-destination-directory' in keys, ['instance:temp_is_sibling_of_destination']),
        ('dest-named-like-temp-file' in keys, ['instance:temp_loop_never_uses_the_destination']),
        (any(k.startswith(('temp-name-loop', 'unexpected-outcome', 'two-writers:', 'foreign-file')) for k in keys),
         ['instance:temp_loop_']),
        (bool(ck.extra.get('bsp_violations')), ['instance:bsp_', 'translate:']),
        (bool(reuse_keys), ['instance:reuse_', 'instance:exit_without_enter', 'translate:', 'correspondence:']),
        # a refused operation of some exception class, persistent or transient, with a failing input
        (bool(class_keys), ['instance:', 'translate:', 'correspondence:']),
        (any(k.startswith('two-writers-reuse:') for k in keys),
         ['instance:reuse_', 'instance:exit_without_enter', 'translate:', 'correspondence:']),
    ]
    for cond, names in table:
        if cond:
            for nme in names:
                ck.explain(nme)
    # the composite obligation is the conjunction of others (proto_ok, exit_returns_normally_iff_renamed, reuse_indep,
    # reentry_ok): it is explained exactly when every other failed instance obligation is
    comp = 'instance:c12_property_of_generated_object_hypotheses'
    others = [o for o in ck.obligations if not o['ok'] and o['name'].startswith('instance:') and o['name'] != comp]
    if others and all(o.get('explained') for o in others):
        ck.explain(comp)


def single_campaign_bsp(ck: Ck, bscs: list[dict], do_model: bool) -> None:
    if bscs:
        single_campaign(ck, bscs, do_model)


# digests (__exit__, make_tempfile) of the source versions the model was written against: pinned tree and repaired tree
KNOWN_DIGESTS: set = {('b5de1bf6643e', '45e89f0885c1'),     # repaired tree (round 5: make_tempfile forgets the old handle first)
                      ('b5de1bf6643e', 'd204472bc290'),     # repaired tree of rounds 1-4 (both fix commits)
                      ('b5de1bf6643e', '729c8ddbf085'),     # first fix only
                      ('92656bb58107', '729c8ddbf085')}     # pinned tree


def replay(data: dict) -> int:
    import tempfile
    r = data['replay']
    if not isinstance(r, dict) or 'mode' not in r:
        print(r)
        return 0
    root = tempfile.mkdtemp(prefix='c12_replay_', dir='/var/tmp')
    try:
        if r['mode'] in ('crash', 'fault', 'fault-class'):
            sc = dict(r['scenario'])
            sc['init'] = {n: bytes.fromhex(v) for n, v in sc['init'].items()}
            sc['chunks'] = [bytes.fromhex(c) if not sc.get('text') else c for c in sc.get('chunks', [])]
            if sc.get('bsp'):
                os.makedirs(root + '_src', exist_ok=True)
                sc['bsp'] = small_bsp(Path(root + '_src'))
            print('before:', {k: v[:40] for k, v in sc['init'].items()})
            if r['mode'] == 'crash':
                rc, lst = run_crash(sc, os.path.join(root, 'd'), r['k'])
                print(f'killed after {r["k"]} operations (child exit {rc})')
            else:
                if r['mode'] == 'fault-class':
                    print('plan  :', r['plan'], '(operation `at` is refused with `cls`; times = None: so is every further '
                          'attempt of the same operation, k: the first k attempts)')
                    res = run_single(sc, os.path.join(root, 'd'), plan=r['plan'])
                else:
                    res = run_single(sc, os.path.join(root, 'd'),
                                     fault_at=frozenset(r['k']) if isinstance(r['k'], list) else r['k'])
                lst = res['listing']
                print('operations:', [(o['op'], o['name'], o['res']) for o in res['ops']])
                print('outcome:', res['outcome'])
            print('after :', {k: v[:40] for k, v in lst.items()})
        elif r['mode'] in ('history', 'history-crash'):
            hs = dict(r['history'])
            hs['init'] = {n: bytes.fromhex(v) for n, v in hs['init'].items()}
            hs['uses'] = [{**u, 'chunks': [c if hs.get('text') else bytes.fromhex(c) for c in u['chunks']]} for u in hs['uses']]
            print('before:', {k: v[:40] for k, v in hs['init'].items()})
            if r['mode'] == 'history-crash':
                rc, lst = run_history_crash(hs, os.path.join(root, 'd'), r['k'])
                print(f'history {hs["word"]} killed after {r["k"]} operations (child exit {rc})')
                print('after :', {k: v[:40] for k, v in lst.items()})
            else:
                k = r['k']
                if isinstance(k, dict):
                    print('plan  :', k, '(operation `at` is refused with `cls`; times None: every further attempt as well)')
                    res = run_history(hs, os.path.join(root, 'd'), plan=k)
                else:
                    res = run_history(hs, os.path.join(root, 'd'), fault_at=frozenset(k) if isinstance(k, list) else k)
                for u, letter in enumerate(hs['word']):
                    print(f'use {u + 1} ({letter}):', [(o['op'], o['name'], o['res']) for o in res['ops'] if o['u'] == u])
                    print('   outcome:', res['outcomes'][u], ' directory:', {k: v[:40] for k, v in res['listings'][u + 1].items()})
        elif r['mode'] == 'product':
            A = dict(r['a']); B = dict(r['b'])
            A['uses'] = [{**u, 'chunks': [c if A.get('text') else bytes.fromhex(c) for c in u['chunks']]} for u in A['uses']]
            B['chunks'] = [bytes.fromhex(c) for c in B['chunks']]
            init = {n: bytes.fromhex(v) for n, v in r['init'].items()}
            res = run_two((A, B), os.path.join(root, 'd'), r['schedule'], init, fault_at=r.get('fault_at'))
            print('operations:', [(o['w'], o['u'], o['op'], o['name'], o['res']) for o in res['ops']])
            print('outcomes of the uses of writer 0:', res['per_use'][0], ' writer 1:', res['per_use'][1])
            print('after :', res['listing'])
        elif r['mode'] == 'two':
            sa = dict(r['a']); sb = dict(r['b'])
            for s in (sa, sb):
                s['chunks'] = [c if s.get('text') else bytes.fromhex(c) for c in s['chunks']]
            init = {n: bytes.fromhex(v) for n, v in r['scenario']['init'].items()}
            res = run_two((sa, sb), os.path.join(root, 'd'), r['schedule'], init, fault_at=r.get('fault_at'))
            print('operations:', [(o['w'], o['op'], o['name'], o['res']) for o in res['ops']])
            print('outcomes:', res['outcomes'])
            print('after :', res['listing'])
    finally:
        shutil.rmtree(root, ignore_errors=True)
        shutil.rmtree(root + '_src', ignore_errors=True)
    return 0
