"""C06 — VMF export/parse round trip is a fixed point and loses no map content."""
from __future__ import annotations

import copy
import glob
import json
import random
import re
from decimal import Decimal
from fractions import Fraction
from typing import Any

from harness.common import Ck, REPO, coq_list, coq_str, parse_coq_N_list, parse_coq_nested
from harness import c06_util as U
from translate import c06_vmf as T
from translate import c06_prog as P
from translate import c06_lite as L
from translate import c06_ids as IDS
from translate import c06_alias as AL
from translate import c01_kvser

MANIFEST = dict(
    technique='Rocq proof over objects generated from vmf.py by fail-closed ast translators: write templates, key tables, '
              'displacement array shapes, entity-loop shape (round 1); every export method as a structured write program plus the '
              'reader configuration of row keys and the separators/field order of outputs (round 2; the separator logic is evaluated '
              'symbolically); since round 3 the formatter of every written number, the guard of the optional multiblend arrays, an '
              'object-level table (which attributes every written key is computed from / every looked-up key flows into, by data-flow '
              'analysis of the parse methods and constructors) and the displacement flag tables; the block theorem composes the '
              'string-level theorems with the C01 KeyValues1 tokenizer/parser model; since round 4 the ID managers (which class every '
              'manager attribute of a VMF gets with and without preserve_ids, the get_id method of each class executed symbolically into a '
              'decision list over the requested ID), the containment edges of the object graph (which attribute of which class holds child '
              'objects of which class, from the parse methods), the loops over set-typed attributes in the export methods, and the slot / '
              'marker / axis tables of 2D viewports; since round 5 the constructors and makers of a map (VMF.__init__, VMF.parse) executed '
              'symbolically over abstract object identities: the alias pairs the constructor establishes (VMF.brushes is VMF.spawn.solids) and the '
              'reference expression both access paths hold at every return, plus a census of the statements that rebind those attributes; '
              'vm_compute correspondence of the '
              'escape/scanner/rounding/output/fixup/number-group-text/ID-manager/viewport models; round-trip search on real VMF objects',
    text='Theorems in Props/C06.v (78): the tokenizer\'s quoted-string scanner inverts escape_text for every string in both modes; '
         'every keyvalue line whose interpolations are escaped strings, numbers or plain literals re-reads as its field values (a raw '
         'string field does not); for every generated export program that passes prog_ok, every environment and call depth, the text '
         'written parses -- C01 tokenizer and Keyvalues.parse model -- to exactly the tree of keys, values and child blocks the writer '
         'was given; every written key/block name is looked up by a reader in the same block; for each of eight classes of the object '
         'graph every written literal key is read into exactly the attributes its value was computed from, no attribute the reader fills '
         'is forgotten by the writer, and the text found under a key does not depend on other attributes (no cross-talk); displacement rows '
         'have exactly the length the reader demands for power 1..4 and the reader recognises every row key written; the multiblend '
         'arrays are written exactly when the member their primary array carries is non-default; the 16 displacement flag values survive '
         'the flags/subdiv tables; output values survive as_keyvalue/parse for fields free of the separator, instance:name;command names '
         'survive; replaceNN lines and EntityFixup index bookkeeping keep up to 99 distinctly named fixups; every number of every '
         'written line is written by a formatter that keeps the precision the property demands of that field (5e-7 absolutely, six '
         'significant digits for face rotation / output delay / multiblend, exact for integers and flags), and the table is tight; '
         '"x y z" in any bracket pair and "[x y z offset] scale" are taken apart into their number tokens by parse_vec_str / '
         'UVAxis.parse, the plane triple "(a) (b) (c)" into its three parts; reading entity and hidden blocks in file order preserves entity order. '
         'Round 4: a get_id decision list that passes nid_ok hands back every natural number it is asked for, whatever its opaque '
         'condition (and one that fails it renumbers some natural number: the check is complete), so with preserve_ids every kind of ID '
         '(entity, solid, face, group, visgroup, node) is kept; for any class table, every well-formed object tree (VMF > Entity > Solid > '
         'Side, VMF > VisGroup > VisGroup, any depth and width) is given back by parse-after-export when its classes are paired, its child '
         'attributes are exported and filled, and the field codecs invert -- hence the second export equals the first; membership lines '
         'written in sorted order do not depend on the iteration order of the set; the planar axis and both coordinates of a 2D viewport '
         'survive when the coordinates are not marker values; c06_property states all of it over arbitrary generated objects with the '
         'obligations as visible hypotheses. Round 5: the enumeration of worlds (which objects are truthy, which opaque conditions hold) over the '
         'atoms of two reference expressions is a sound and complete decision procedure for "both access paths hold the same object"; when '
         'it passes, what is appended through VMF.brushes is in the list export() reads (x or [], list(x), slices, comprehensions refuted); '
         'c06_property_with_histories adds that to c06_property for every maker of a map; a row reader that looks keys up in a table of '
         '2**4 names does not know row16. '
         '213 instance obligations (329 obligations in total with theorems, correspondences, translators, ties) are regenerated '
         'from vmf.py / math.py and kernel-checked on every run. The search builds maps through the public API (all object kinds, options '
         'minimal/disp_multiblend/preserve_ids, ID schemes from 0 / sparse / huge / repeated on the objects or in the parsed text, every '
         'tests/*.vmf) and checks text fixed point and field-by-field equality with the stated tolerances; every round trip runs under an alarm. '
         'Round 5: edit-after-parse histories: a map is built, exported and parsed; the containers the API can add to (world brushes, entities, '
         'visgroups, groups, cameras, cordons; outputs, fixups and solids of an entity) are mostly EMPTY in the parsed map; content is added through '
         'every public adder (add_brush / add_brushes / VMF.brushes.append, add_ent / add_ents / create_ent, vis_tree.append / create_visgroup, '
         'constructors that register themselves, add_out, fixup[], Entity.solids.append) and removed (remove_brush, Solid.remove, remove_ent); the '
         'edited parsed map must export the same text as the built map that got the same edits, and must round-trip; world brushes are observed '
         'through VMF.brushes (the public view), not through spawn.solids. Every round trip also exercises the other public form of the two calls: '
         'VMF.export(file object) must write what VMF.export() returns, and VMF.parse(<file name>) (cp1251 text file) must give the map '
         'VMF.parse(<Keyvalues tree>) gives (when the text is cp1251-encodable and holds no bare CR; the generator alphabet holds Cyrillic, (c) and the euro sign for it).',
    note='Partial with respect to the whole-map statement: text -> KeyValues tree is proved for all export methods; tree -> object is '
         'proved per class at the level "which attribute receives which key" (flat: child lists are paired only as exported/parsed '
         'attributes), per array, per output value, per fixup line, per number group; the recursion over child objects is a theorem '
         'over an abstract object tree whose hypotheses (pairing, containment edges) are obligations on the generated tables -- the edges '
         'VMF.cameras / cordons / groups / strata_viewports, whose reader registers the child inside the child\'s constructor, are not '
         'seen by the translator and stay search-only; that the blocks of the tree model are the blocks of the write programs is not a '
         'theorem; the allowed_verts array is covered by key pairing and number format only; the reader loops of IDMan.get_id (search for a '
         'free ID) are one opaque "anything else" outcome; ID 0 without preserve_ids is renumbered by IDMan without updating references '
         '(noted for C08, excluded from the generator); float(token) is outside the token models. Trusted: Coq kernel + vm_compute, translate/c06_vmf.py, c06_prog.py, c06_lite.py, c06_ids.py, c06_alias.py (key table '
         'cross-checked against really exported text, number formats against really exported numbers, on every run), the hand tables '
         '(field types, number kinds, required precision per field, class -> methods, ARRAY_ATTRS; ALIAS_ATTRS is now compared with the alias pairs '
         'discovered in the constructors), translate/c06_alias.py (symbolic execution over object identities: a call does not rebind attributes of '
         'existing objects -- checked for the aliased attributes by the rebinding census -- and truthiness does not change inside a maker), the C01 KeyValues1 model '
         '(tied by C01\'s own check), CPython number formatting being correctly rounded and producing no quote/backslash/newline, '
         'str.split/join/strip/int/casefold as modelled. Format limits excluded from the generator (docs/C06.md): keys that look like '
         'replaceNN / id, LF/CR in key names, the separator character inside output fields, fixup names with a space, >99 fixups, '
         'group/visgroup membership of brush-entity solids, 2D viewport coordinates of exactly +-65536. Known findings: "-0" text '
         '(math.format_float, C05) and cordon_enabled without cordons.',
)

# The precision the property demands of every number, by (block, literal key text, index of the number in the value) of the
# *written format* (not of the source): six significant digits for face rotation, output delay (number 0 of an output value)
# and the multiblend / alphablend arrays; exact for integers, flags and the numbers the oracle compares exactly (written by
# repr); 5e-7 for everything else (coordinates, texture axes, colours, viewports).
REQUIRED_SIG6 = {('side', 'rotation', 0), ('connections', '', 0), ('multiblend', 'row', 0), ('alphablend', 'row', 0)}
REQUIRED_EXACT = {('connections', '', 1), ('point_data', 'point', 0), ('dispinfo', 'elevation', 0), ('distances', 'row', 0),
                  ('alphas', 'row', 0), ('triangle_tags', 'row', 0), ('allowed_verts', '10', 0), ('cordon', 'active', 0),
                  ('cordons', 'active', 0)}
EXACT_KEYS = {'id', 'groupid', 'visgroupid', 'visgroupshown', 'visgroupautoshown', 'activecamera', 'flags', 'power', 'subdiv',
              'numpts', 'count', 'lightmapscale', 'smoothing_groups', 'editorbuild', 'editorversion', 'formatversion', 'mapversion',
              'prefab', 'bshow3dgrid', 'bshowgrid', 'bshowlogicalgrid', 'bsnaptogrid', 'ngridspacing', 'ninstancevisibility'}


def required_class(block: str, key: str, idx: int) -> str:
    if (block, key, idx) in REQUIRED_SIG6:
        return 'PSig6'
    if (block, key, idx) in REQUIRED_EXACT or key in EXACT_KEYS:
        return 'PExact'
    return 'PAbs6'


IMPORTS = ['Coq.NArith.NArith', 'Coq.ZArith.ZArith', 'Coq.Lists.List', 'Coq.Strings.String', 'SV.KV.KvBase', 'SV.Fmt.VmfText',
           'SV.Fmt.VmfBlocks', 'SV.Gen.VmfTemplates_gen', 'SV.Gen.VmfKeys_gen', 'SV.Gen.VmfDispSizes_gen', 'SV.Gen.VmfOrder_gen',
           'SV.Gen.VmfProg_gen', 'SV.Fmt.VmfFields', 'SV.Gen.VmfFieldsCfg_gen', 'SV.Fmt.VmfNum', 'SV.Gen.VmfNumFmt_gen', 'SV.Fmt.VmfGuard', 'SV.Fmt.VmfLite', 'SV.Gen.VmfLite_gen', 'SV.Fmt.VmfFlags', 'SV.Gen.VmfFlags_gen', 'SV.Fmt.VmfTok', 'SV.Fmt.VmfPlane', 'SV.Fmt.VmfIds', 'SV.Gen.VmfIds_gen', 'SV.Fmt.VmfTree', 'SV.Fmt.VmfSets', 'SV.Gen.VmfSets_gen', 'SV.Fmt.VmfViewport', 'SV.Gen.VmfViewport_gen', 'SV.Fmt.VmfAlias', 'SV.Gen.VmfAlias_gen', 'SV.KV.KvSym', 'SV.Gen.KVSer_gen', 'SV.Props.C06']
PRE = '''Import ListNotations. Open Scope string_scope.
Fixpoint nl_eqb (a b : list N) : bool := match a, b with [], [] => true | x :: a', y :: b' => N.eqb x y && nl_eqb a' b' | _, _ => false end.
Fixpoint bad_idx {A} (f : A -> bool) (n : N) (l : list A) : list N := match l with [] => [] | x :: r => (if f x then [] else [n]) ++ bad_idx f (n + 1)%N r end.
'''


# ------------------------------------------------------------------------------------------------ correspondences
def corr_escape(ck: Ck) -> None:
    """escape / scan_quoted of Fmt/VmfText.v against srctools.tokenizer.escape_text and the real Tokenizer."""
    from srctools.tokenizer import Tokenizer, Token, TokenSyntaxError, escape_text
    n = ck.budget(300, 4000)
    alpha = ['"', '\\', '\n', '\r', '\t', 'n', 't', 'r', '/', '?', "'", ' ', 'a', 'Z', '0', '{', '}', '\x0b', '\x08', '\x0c',
             '\x07', 'é', '\U0001f600', '\x1b', ',', 'v', 'b', 'f']
    esc_cases, scan_cases = [], []
    for i in range(n):
        s = ''.join(ck.rng.choice(alpha) for _ in range(ck.rng.choice([0, 1, 2, 4, 9, 20])))
        ml = ck.rng.random() < 0.5
        esc_cases.append((ml, s, escape_text(s, ml)))
        ck.count('escape_cases')
        # raw body scanned by the real tokenizer: value of the first token of '"' + body
        body = s if ck.rng.random() < 0.5 else escape_text(s, ml) + '"' + s[:3]
        try:
            tok = Tokenizer('"' + body, allow_escapes=True)
            ty, val = next(iter(tok))
            res = val if ty is Token.STRING else None
        except TokenSyntaxError:
            res = None
        scan_cases.append((body, res))
        ck.count('scanner_cases')
        if any(c in s for c in '"\\\n\r'):
            ck.seen(('esc', ml, s))
    ck.sample({'escape_case(ml, s, escape_text)': list(esc_cases[5]), 'scan_case(body, tokenizer value)': list(scan_cases[5])})
    bad_e: list[int] = []
    bad_s: list[int] = []
    for lo in range(0, n, 500):
        lit_e = coq_list(f'(({"true" if ml else "false"}, {coq_str(s)}), {coq_str(o)})' for ml, s, o in esc_cases[lo:lo + 500])
        lit_s = coq_list(f'({coq_str(b)}, {"Some " + coq_str(r) if r is not None else "None"})' for b, r in scan_cases[lo:lo + 500])
        vals = ck.coq_eval(IMPORTS, [
            f'bad_idx (fun c : (bool * list N) * list N => nl_eqb (escape (fst (fst c)) (snd (fst c))) (snd c)) 0%N {lit_e}',
            f'bad_idx (fun c : list N * option (list N) => match scan_quoted (fst c), snd c with Some (v, _), Some w => nl_eqb v w '
            f'| None, None => true | _, _ => false end) 0%N {lit_s}'], name='esc', preamble=PRE)
        if vals is None:
            ck.obligation('correspondence:escape_scanner', False, 'model could not be evaluated')
            ck.tie_broken.append('correspondence escape/scanner: model evaluation failed')
            return
        bad_e += [lo + i for i in parse_coq_N_list(vals[0])]
        bad_s += [lo + i for i in parse_coq_N_list(vals[1])]
    ck.obligation('correspondence:escape_text', not bad_e, f'{n} strings x mode, Fmt/VmfText.escape vs escape_text: {len(bad_e)} disagreements')
    ck.obligation('correspondence:quoted_scanner', not bad_s, f'{n} quoted bodies, Fmt/VmfText.scan_quoted vs Tokenizer: {len(bad_s)} disagreements')
    if bad_e:
        ck.tie_broken.append('correspondence escape (Fmt/VmfText.v vs tokenizer.escape_text)')
        ck.extra['escape_disagreement'] = list(esc_cases[bad_e[0]])
    if bad_s:
        ck.tie_broken.append('correspondence scanner (Fmt/VmfText.v hs vs Tokenizer._handle_string)')
        ck.extra['scanner_disagreement'] = list(scan_cases[bad_s[0]])


def corr_rounding(ck: Ck) -> None:
    """round_he at scale 10^6 against format_float / '%.6f', and at six significant digits against ':g'."""
    from srctools.math import format_float
    n = ck.budget(300, 3000)
    cases6, casesg = [], []
    for _ in range(n):
        x = U.rfloat(ck.rng)
        if ck.rng.random() < 0.3:
            x = ck.rng.choice([0.5e-6, 1.5e-6, 2.5e-6, 0.0000005, 1.0000005, 0.1234565, 2.0000015, -0.5e-6, 1e-7, 123456.5, 1234565.0,
                               0.000001234565, 99999.95, 999999.5, 0.1, 1 / 3])
        m, d = x.as_integer_ratio()
        txt = format_float(x)
        r = int(Decimal(txt if txt != '-0' else '0') * 10 ** 6)
        cases6.append((m, d, r))
        ck.count('format6_cases')
        if x != 0.0 and abs(x) < 1e15:
            g = format(x, 'g')
            dg = Decimal(g)
            e = dg.adjusted() if dg != 0 else 0
            # exponent of x itself (the scale %g rounds at)
            ex = Decimal(x).adjusted()
            sc = Fraction(10) ** (ex - 5)
            rg = Fraction(dg) / sc
            if rg.denominator == 1:
                casesg.append((m, d, sc.numerator, sc.denominator, int(rg)))
                ck.count('g6_cases')
        if x != float(int(x)):
            ck.seen(('num', x))
    def z(v: int) -> str:
        return f'({v})' if v < 0 else str(v)
    lit6 = coq_list(f'(({z(m)}, {z(d)}), {z(r)})' for m, d, r in cases6[:500])
    litg = coq_list(f'((({z(m)}, {z(d)}), ({z(sn)}, {z(sd)})), {z(r)})' for m, d, sn, sd, r in casesg[:500])
    pre = PRE + 'Open Scope Z_scope.\nFixpoint zbad {A} (f : A -> bool) (n : N) (l : list A) : list N := match l with [] => [] | x :: r => (if f x then [] else [n]) ++ zbad f (n + 1)%N r end.\n'
    vals = ck.coq_eval(IMPORTS, [
        f'zbad (fun c : (Z * Z) * Z => Z.eqb (round_he (fst (fst c) * 10^6) (snd (fst c))) (snd c)) 0%N {lit6}',
        f'zbad (fun c : ((Z * Z) * (Z * Z)) * Z => let m := fst (fst (fst c)) in let d := snd (fst (fst c)) in let sn := fst (snd (fst c)) in '
        f'let sd := snd (snd (fst c)) in Z.eqb (round_he (m * sd) (d * sn)) (snd c)) 0%N {litg}'], name='round', preamble=pre)
    if vals is None:
        ck.obligation('correspondence:rounding', False, 'model could not be evaluated')
        ck.tie_broken.append('correspondence rounding: model evaluation failed')
        return
    b6, bg = parse_coq_N_list(vals[0]), parse_coq_N_list(vals[1])
    ck.obligation('correspondence:format6', not b6, f'{min(len(cases6), 500)} doubles, round_he(x*10^6) vs format_float(x): {len(b6)} disagreements')
    ck.obligation('correspondence:g6', not bg, f'{min(len(casesg), 500)} doubles, round_he at 6 significant digits vs format(x, "g"): {len(bg)} disagreements')
    if b6:
        ck.tie_broken.append('correspondence format6')
        ck.extra['format6_disagreement'] = cases6[b6[0]]
    if bg:
        ck.tie_broken.append('correspondence g6')
        ck.extra['g6_disagreement'] = casesg[bg[0]]


def corr_output_fixup(ck: Ck) -> None:
    """out_parse of Fmt/VmfFields.v against Output.parse on generated values (both separators, missing and extra
    separators, ESC inside comma forms), out_join against the value written by Output.as_keyvalue, and fix_init against
    EntityFixup.__init__ on generated index lists (duplicates, zero and negative indexes, repeated variable names)."""
    from srctools.keyvalues import Keyvalues
    from srctools.vmf import Output, EntityFixup, FixupValue
    n = ck.budget(300, 1500)
    alpha = ['a', 'b', ',', ',', '\x1b', ';', ' ', '"', 'x']
    delays = {'0': 0.0, '1.5': 1.5, '2': 2.0}
    times = {'-1': -1, '1': 1, '5': 5}
    p_cases, j_cases = [], []
    for _ in range(n):
        nf = ck.rng.choice([3, 4, 5, 5, 5, 5, 6, 7])
        sep = ck.rng.choice([',', '\x1b'])
        flds = [''.join(ck.rng.choice(alpha) for _ in range(ck.rng.choice([0, 1, 1, 2, 3]))) for _ in range(max(nf - 2, 0))]
        flds += [ck.rng.choice(list(delays)), ck.rng.choice(list(times))]
        v = sep.join(flds[:nf]) if nf >= 2 else sep.join(flds)
        try:
            o = Output.parse(Keyvalues('OnX', v))
            exp = [o.target, o.input if o.inst_in is None else None, o.params, o.delay, o.times, o.comma_sep]
        except ValueError as e:
            if 'Bad output value' not in str(e):
                ck.count('output_parse_cases_numeric_junk')
                continue
            exp = None
        ck.hist('output_value_fields', f'{len(v.split(sep))}{"c" if sep == "," else "e"}')
        if exp is not None and (exp[1] is None or exp[3] not in delays.values() or exp[4] not in times.values()):
            continue
        p_cases.append((v, exp))
        ck.count('output_parse_cases')
        ck.seen(('outparse', v))
        # writer side: a real Output, its line parsed back by the real Keyvalues parser gives the value text
        comma = ck.rng.random() < 0.5
        t, i, p = (''.join(ck.rng.choice(alpha) for _ in range(ck.rng.choice([0, 1, 2, 3]))) for _ in range(3))
        d, tm = ck.rng.choice(list(delays)), ck.rng.choice(list(times))
        ro = Output('OnX', t, i or 'i', p, delays[d], times=times[tm], comma_sep=comma)
        val = next(iter(Keyvalues.parse(ro.as_keyvalue()))).value
        j_cases.append(((t, i or 'i', p, d, tm, comma), val))
        ck.count('output_join_cases')
    inv_d = {v: k for k, v in delays.items()}
    inv_t = {v: k for k, v in times.items()}

    def b(x: bool) -> str:
        return 'true' if x else 'false'
    lit_p = coq_list(f'({coq_str(v)}, ' + ('None' if e is None else
                     f'Some (mk_outv {coq_str(e[0])} {coq_str(e[1])} {coq_str(e[2])} {coq_str(inv_d[e[3]])} {coq_str(inv_t[e[4]])} {b(e[5])})') + ')'
                     for v, e in p_cases[:500])
    lit_j = coq_list(f'(mk_outv {coq_str(t)} {coq_str(i)} {coq_str(p)} {coq_str(d)} {coq_str(tm)} {b(c)}, {coq_str(val)})'
                     for (t, i, p, d, tm, c), val in j_cases[:500])
    # fixups
    f_cases = []
    names = ['a', 'B', 'b', 'A', 'cc', '$a', 'd']
    for _ in range(n):
        fl = [(ck.rng.choice(names), ck.rng.choice(['v', 'w', '']), ck.rng.choice([0, -1, 1, 1, 2, 3, 3, 5, 7])) for _ in range(ck.rng.randint(0, 6))]
        try:
            ef = EntityFixup([FixupValue(v, x, i) for v, x, i in fl])
        except Exception as e:        # noqa: BLE001 - the API may refuse (empty names): not a case
            ck.count('fixup_cases_refused')
            continue
        got = [(f.var, f.value, f.id) for f in ef._fixup.values()]
        if any(i < 0 for _, _, i in fl):
            fl = [(v, x, max(i, 0)) for v, x, i in fl]     # the model's indexes are naturals; negative == 0 == "not positive"
        f_cases.append((fl, got))
        ck.count('fixup_init_cases')
        if len({i for _, _, i in fl}) < len(fl):
            ck.seen(('fixinit', tuple(fl)))
        ck.hist('fixup_list_len', len(fl))

    def fx(l: list) -> str:
        return coq_list(f'(({coq_str(v)}, {coq_str(x)}), {i}%N)' for v, x, i in l)
    lit_f = coq_list(f'({fx(a)}, {fx(g)})' for a, g in f_cases[:500])
    pre = PRE + '''Open Scope N_scope.
Definition lower (c : N) : N := if ((65 <=? c) && (c <=? 90))%bool then c + 32 else c.
Definition same_ci (a b : list N) : bool := nl_eqb (map lower a) (map lower b).
Definition outv_eqb (a b : outv) : bool := (nl_eqb (ov_target a) (ov_target b) && nl_eqb (ov_input a) (ov_input b) && nl_eqb (ov_params a) (ov_params b)
  && nl_eqb (ov_delay a) (ov_delay b) && nl_eqb (ov_times a) (ov_times b) && Bool.eqb (ov_comma a) (ov_comma b))%bool.
Fixpoint fxl_eqb (a b : list fixup) : bool := match a, b with [], [] => true
  | x :: a', y :: b' => (nl_eqb (fx_var x) (fx_var y) && nl_eqb (fx_val x) (fx_val y) && (fx_id x =? fx_id y) && fxl_eqb a' b')%bool | _, _ => false end.
'''
    vals = ck.coq_eval(IMPORTS, [
        f'bad_idx (fun c : list N * option outv => match out_parse (fst c), snd c with Some a, Some e => outv_eqb a e | None, None => true '
        f'| _, _ => false end) 0%N {lit_p}',
        f'bad_idx (fun c : outv * list N => nl_eqb (out_join (fst c)) (snd c)) 0%N {lit_j}',
        f'bad_idx (fun c : list fixup * list fixup => fxl_eqb (fix_init same_ci (fst c)) (snd c)) 0%N {lit_f}'], name='outfix', preamble=pre)
    if vals is None:
        ck.obligation('correspondence:output_fixup', False, 'model could not be evaluated')
        ck.tie_broken.append('correspondence output/fixup: model evaluation failed')
        return
    bp, bj, bf = (parse_coq_N_list(v) for v in vals)
    ck.obligation('correspondence:output_parse', not bp, f'{min(len(p_cases), 500)} output values, Fmt/VmfFields.out_parse vs Output.parse: {len(bp)} disagreements')
    ck.obligation('correspondence:output_join', not bj, f'{min(len(j_cases), 500)} outputs, Fmt/VmfFields.out_join vs the value written by Output.as_keyvalue: {len(bj)} disagreements')
    ck.obligation('correspondence:fixup_init', not bf, f'{min(len(f_cases), 500)} fixup lists, Fmt/VmfFields.fix_init vs EntityFixup.__init__: {len(bf)} disagreements')
    for name, bad, cases in (('output_parse', bp, p_cases), ('output_join', bj, j_cases), ('fixup_init', bf, f_cases)):
        if bad:
            ck.tie_broken.append(f'correspondence {name} (Fmt/VmfFields.v vs vmf.py)')
            ck.extra[f'{name}_disagreement'] = repr(cases[bad[0]])
    ck.sample({'output_parse_case(value, Output.parse)': repr(p_cases[3]), 'fixup_init_case(input, EntityFixup order)': repr(f_cases[3])})


def corr_tokens(ck: Ck) -> None:
    """parse_vec / uv_parse of Fmt/VmfTok.v against math.parse_vec_str and UVAxis.parse on generated texts (number tokens from
    a pool with pairwise different values; brackets of all kinds, doubled and mismatched; extra white space; 2..6 tokens), and
    vec_text / uv_text against str(Vec), str(Angle), str(UVAxis) (field order and punctuation of the written text)."""
    from srctools.math import Vec, Angle, parse_vec_str, format_float
    from srctools.vmf import UVAxis
    pool = ['0', '1', '-1', '0.5', '-0.25', '16384', '1e+06', '-3.5e-05', '0.000001', '123456.789', '7', '2.5']
    val = {float(t): t for t in pool}
    assert len(val) == len(pool)
    n = ck.budget(200, 1500)
    v_cases, u_cases, t_cases = [], [], []
    for _ in range(n):
        k = ck.rng.choice([3, 3, 3, 3, 2, 4, 1])
        toks = [ck.rng.choice(pool) for _ in range(k)]
        sep = [ck.rng.choice([' ', ' ', ' ', '  ', '\t']) for _ in range(k)]
        body = ''.join(t + s for t, s in zip(toks, sep))[:-len(sep[-1])]
        o = ck.rng.choice(['', '', '(', '[', '{', '<', '((', ' ('])
        c = ck.rng.choice(['', '', ')', ']', '}', '>', '))', ') '])
        text = o + body + c
        sentinel = object()
        r = parse_vec_str(text, sentinel, sentinel, sentinel)
        exp = None if r[0] is sentinel else [val.get(x) for x in r]
        if exp is not None and any(e is None for e in exp):
            continue
        v_cases.append((text, exp))
        ck.count('vec_text_cases')
        ck.hist('vec_text_shape', f'{k} tokens {o.strip() or "-"}{c.strip() or "-"}')
        if o or c:
            ck.seen(('vectext', text))
        # UVAxis.parse
        k = ck.rng.choice([5, 5, 5, 5, 4, 6])
        toks = [ck.rng.choice(pool) for _ in range(k)]
        form = ck.rng.choice(['std', 'std', 'std', 'nobr', 'dbl', 'sp'])
        if form == 'std' and k >= 4:
            text = '[' + ' '.join(toks[:4]) + '] ' + ' '.join(toks[4:])
        elif form == 'dbl' and k >= 4:
            text = '[[' + ' '.join(toks[:4]) + ']] ' + ' '.join(toks[4:])
        elif form == 'sp' and k >= 4:
            text = ' [' + '  '.join(toks[:4]) + ']   ' + ' '.join(toks[4:]) + ' '
        else:
            text = ' '.join(toks)
        try:
            u = UVAxis.parse(text)
            exp_u = [val.get(x) for x in (u.x, u.y, u.z, u.offset, u.scale)]
            if any(e is None for e in exp_u):
                continue
        except (ValueError, IndexError):
            exp_u = None
        u_cases.append((text, exp_u))
        ck.count('uvaxis_text_cases')
        ck.seen(('uvtext', text))
        # written text
        f5 = [ck.rng.choice(pool) for _ in range(5)]
        x5 = [float(t) for t in f5]
        t_cases.append(('uv', [format_float(x) for x in x5], str(UVAxis(*x5))))
        t_cases.append(('vec', [format_float(x) for x in x5[:3]], str(Vec(*x5[:3]))))
        ang = Angle(*x5[2:])          # the constructor normalises to [0, 360): take the tokens from the object
        t_cases.append(('vec', [format_float(ang.pitch), format_float(ang.yaw), format_float(ang.roll)], str(ang)))
        ck.count('number_group_text_cases', 3)
    ck.sample({'vec_text_case(text, parse_vec_str)': list(v_cases[2]), 'uvaxis_text_case(text, UVAxis.parse)': list(u_cases[2])})

    def opt3(e: Any) -> str:
        return 'None' if e is None else 'Some (' + ', '.join(coq_str(t) for t in e) + ')'

    def optl(e: Any) -> str:
        return 'None' if e is None else 'Some ' + coq_list(coq_str(t) for t in e)
    lit_v = coq_list(f'({coq_str(t)}, {opt3(e)})' for t, e in v_cases[:500])
    lit_u = coq_list(f'({coq_str(t)}, {optl(e)})' for t, e in u_cases[:500])
    lit_t = coq_list(f'(({"true" if kd == "uv" else "false"}, {coq_list(coq_str(t) for t in toks)}), {coq_str(txt)})' for kd, toks, txt in t_cases[:500])
    pre = PRE + '''Open Scope N_scope.
Fixpoint nll_eqb (a b : list (list N)) : bool := match a, b with [], [] => true | x :: a', y :: b' => nl_eqb x y && nll_eqb a' b' | _, _ => false end.
Definition chk3 (s : list N) : option (list N * list N * list N) := match parse_vec s with
  | Some (x, y, z) => if (tok_ok x && tok_ok y && tok_ok z)%bool then Some (x, y, z) else None | None => None end.
Definition chk5 (s : list N) : option (list (list N)) := match uv_parse s with Some l => if forallb tok_ok l then Some l else None | None => None end.
'''
    vals = ck.coq_eval(IMPORTS, [
        f'bad_idx (fun c : list N * option (list N * list N * list N) => match chk3 (fst c), snd c with Some (x, y, z), Some (x2, y2, z2) => '
        f'(nl_eqb x x2 && nl_eqb y y2 && nl_eqb z z2)%bool | None, None => true | _, _ => false end) 0%N {lit_v}',
        f'bad_idx (fun c : list N * option (list (list N)) => match chk5 (fst c), snd c with Some a, Some b => nll_eqb a b | None, None => true '
        f'| _, _ => false end) 0%N {lit_u}',
        f'bad_idx (fun c : (bool * list (list N)) * list N => nl_eqb (if fst (fst c) then uv_text (snd (fst c)) else join_sp (snd (fst c))) (snd c)) '
        f'0%N {lit_t}'], name='tok', preamble=pre)
    if vals is None:
        ck.obligation('correspondence:number_group_text', False, 'model could not be evaluated')
        ck.tie_broken.append('correspondence number-group text: model evaluation failed')
        return
    bv, bu, bt = (parse_coq_N_list(v) for v in vals)
    ck.obligation('correspondence:vec_text_parse', not bv, f'{min(len(v_cases), 500)} texts, Fmt/VmfTok.parse_vec vs math.parse_vec_str: {len(bv)} disagreements')
    ck.obligation('correspondence:uvaxis_text_parse', not bu, f'{min(len(u_cases), 500)} texts, Fmt/VmfTok.uv_parse vs UVAxis.parse: {len(bu)} disagreements')
    ck.obligation('correspondence:number_group_text_written', not bt, f'{min(len(t_cases), 500)} values, Fmt/VmfTok.uv_text / join_sp vs str(UVAxis) / '
                  f'str(Vec) / str(Angle): {len(bt)} disagreements')
    for name, bad, cases in (('vec_text_parse', bv, v_cases), ('uvaxis_text_parse', bu, u_cases), ('number_group_text_written', bt, t_cases)):
        if bad:
            ck.tie_broken.append(f'correspondence {name} (Fmt/VmfTok.v vs math.py / vmf.py)')
            ck.extra[f'{name}_disagreement'] = repr(cases[bad[0]])


def corr_plane(ck: Ck) -> None:
    """plane_parse of Fmt/VmfPlane.v (composed with parse_vec of Fmt/VmfTok.v) against the planes of the real Side.parse on
    generated values of the "plane" key (well-formed, 2 or 4 groups, other outer characters, inner brackets, extra spaces),
    and plane_text against the value of the "plane" line really written by Side.export."""
    import io
    from srctools.keyvalues import Keyvalues
    from srctools.math import Vec, format_float
    from srctools.vmf import VMF, Side
    pool = ['0', '1', '-1', '0.5', '-0.25', '16384', '1e+06', '-3.5e-05', '0.000001', '123456.789', '7', '2.5']
    val = {float(t): t for t in pool}
    n = ck.budget(150, 1000)
    vmf = VMF()
    p_cases, w_cases = [], []
    for _ in range(n):
        k = ck.rng.choice([3, 3, 3, 3, 3, 2, 4])
        groups = [' '.join(ck.rng.choice(pool) for _ in range(ck.rng.choice([3, 3, 3, 3, 2, 4]))) for _ in range(k)]
        form = ck.rng.choice(['std', 'std', 'std', 'std', 'sq', 'wide', 'inner'])
        if form == 'std':
            text = '(' + ') ('.join(groups) + ')'
        elif form == 'sq':           # the first and the last character are dropped whatever they are
            text = '[' + ') ('.join(groups) + ']'
        elif form == 'wide':
            text = '(' + ')  ('.join(groups) + ')'
        else:
            text = '(' + ') ('.join('[' + g + ']' for g in groups) + ')'
        try:
            sd = Side.parse(vmf, Keyvalues('side', [Keyvalues('plane', text)]))
            exp = [[val.get(c) for c in (v.x, v.y, v.z)] for v in sd.planes]
            if any(t is None for g in exp for t in g):
                continue
        except ValueError:
            exp = None
        p_cases.append((text, exp))
        ck.count('plane_text_cases')
        ck.hist('plane_text_shape', f'{k} groups {form}')
        ck.seen(('planetext', text))
        vs = [Vec(*(float(ck.rng.choice(pool)) for _ in range(3))) for _ in range(3)]
        buf = io.StringIO()
        Side(vmf, vs).export(buf, '')
        line = next(kv for kv in next(iter(Keyvalues.parse(buf.getvalue()))) if kv.name == 'plane')
        w_cases.append(([' '.join(format_float(c) for c in (v.x, v.y, v.z)) for v in vs], line.value))
        ck.count('plane_written_cases')
    ck.sample({'plane_text_case(value, planes of Side.parse)': list(p_cases[1])})

    def optg(e: Any) -> str:
        return 'None' if e is None else 'Some ' + coq_list(coq_list(coq_str(t) for t in g) for g in e)
    lit_p = coq_list(f'({coq_str(t)}, {optg(e)})' for t, e in p_cases[:500])
    lit_w = coq_list(f'({coq_list(coq_str(t) for t in g)}, {coq_str(v)})' for g, v in w_cases[:500])
    pre = PRE + '''Open Scope N_scope.
Fixpoint nll_eqb (a b : list (list N)) : bool := match a, b with [], [] => true | x :: a', y :: b' => nl_eqb x y && nll_eqb a' b' | _, _ => false end.
Fixpoint nlll_eqb (a b : list (list (list N))) : bool := match a, b with [], [] => true | x :: a', y :: b' => nll_eqb x y && nlll_eqb a' b' | _, _ => false end.
Definition vec_or_zero (s : list N) : list (list N) := match parse_vec s with
  | Some (x, y, z) => if (tok_ok x && tok_ok y && tok_ok z)%bool then [x; y; z] else [[48]; [48]; [48]] | None => [[48]; [48]; [48]] end.
Definition plane_chk (s : list N) : option (list (list (list N))) := match plane_parse s with
  | Some (a, b, c) => Some [vec_or_zero a; vec_or_zero b; vec_or_zero c] | None => None end.
'''
    vals = ck.coq_eval(IMPORTS, [
        f'bad_idx (fun c : list N * option (list (list (list N))) => match plane_chk (fst c), snd c with Some a, Some b => nlll_eqb a b '
        f'| None, None => true | _, _ => false end) 0%N {lit_p}',
        f'bad_idx (fun c : list (list N) * list N => match fst c with [a; b; d] => nl_eqb (plane_text a b d) (snd c) | _ => false end) 0%N {lit_w}'],
        name='plane', preamble=pre)
    if vals is None:
        ck.obligation('correspondence:plane_text', False, 'model could not be evaluated')
        ck.tie_broken.append('correspondence plane text: model evaluation failed')
        return
    bp, bw = (parse_coq_N_list(v) for v in vals)
    ck.obligation('correspondence:plane_text_parse', not bp, f'{min(len(p_cases), 500)} values of the plane key, Fmt/VmfPlane.plane_parse + '
                  f'Fmt/VmfTok.parse_vec vs the planes of Side.parse: {len(bp)} disagreements')
    ck.obligation('correspondence:plane_text_written', not bw, f'{min(len(w_cases), 500)} faces, Fmt/VmfPlane.plane_text vs the plane line written by '
                  f'Side.export: {len(bw)} disagreements')
    for name, bad, cases in (('plane_text_parse', bp, p_cases), ('plane_text_written', bw, w_cases)):
        if bad:
            ck.tie_broken.append(f'correspondence {name} (Fmt/VmfPlane.v vs vmf.py)')
            ck.extra[f'{name}_disagreement'] = repr(cases[bad[0]])


def corr_ids(ck: Ck, idm: dict) -> None:
    """The generated decision lists of the get_id methods against the real classes: for every class VMF.__init__ uses as an ID
    manager, a fresh instance that already holds the IDs 1..39 is asked for generated IDs (-1, other negatives, 0, 1, used and unused
    small numbers, huge numbers, repetitions); observed: "the answer is the requested ID".  The model must give that answer
    for one of the two outcomes of its opaque condition (both, when the list has none).  And directly on the implementation
    (oracle): every manager of VMF(preserve_ids=True) hands back every natural number it is asked for, also when asked twice."""
    from srctools import vmf as V
    progs = idm.get('programs', {})
    cases = []
    pool = [-1, -1, -7, 0, 0, 1, 2, 5, 39, 40, 41, 57, 1000, 65535, 2 ** 31 - 1, 2 ** 31, 2 ** 32, 2 ** 63, 10 ** 20]
    for cname in sorted(progs):
        cls = getattr(V, cname, None)
        if cls is None:
            ck.obligation('correspondence:id_manager_programs', False, f'class {cname} not importable')
            return
        for _ in range(ck.budget(12, 60)):
            man = cls(range(1, 40))
            for _ in range(ck.rng.randint(1, 6)):
                d = ck.rng.choice(pool) if ck.rng.random() < 0.8 else ck.rng.randint(-3, 80)
                try:
                    with U.time_limit(10):
                        r = man.get_id(d)
                except Exception as e:       # noqa: BLE001 - a fault may make the method raise or loop: a failing input
                    ck.violation(f'ids:get_id-error:{cname}', f'{cname}(range(1, 40)).get_id({d}) raised {type(e).__name__}: {e}',
                                 {'class': cname, 'desired': d})
                    r = None
                cases.append((cname, d, r == d))
                ck.count('id_manager_cases')
                ck.hist('id_manager_request', 'sentinel -1' if d == -1 else 'negative' if d < 0 else 'zero' if d == 0 else
                        'used 1..39' if d < 40 else 'huge' if d >= 2 ** 31 - 1 else 'free')
                ck.seen(('idman', cname, d, len(cases)))
    names = sorted(progs)
    lit = coq_list(f'(({names.index(c)}%nat, ({d})%Z), {"true" if k else "false"})' for c, d, k in cases[:500])
    pre = PRE + 'Definition prog_of (i : nat) : idprog := snd (nth i gen_id_classes (EmptyString, nil)).\n'
    vals = ck.coq_eval(IMPORTS, [
        f'bad_idx (fun c : (nat * Z) * bool => let p := prog_of (fst (fst c)) in let d := snd (fst c) in '
        f'(Bool.eqb (is_keep (id_get p true d)) (snd c) || Bool.eqb (is_keep (id_get p false d)) (snd c))%bool) 0%N {lit}',
        'map fst gen_id_classes'], name='idman', preamble=pre)
    order_ok = None if vals is None else [vals[1]]
    if vals is None or order_ok is None:
        ck.obligation('correspondence:id_manager_programs', False, 'model could not be evaluated')
        ck.tie_broken.append('correspondence id managers: model evaluation failed')
        return
    got_names = re.findall(r'"([^"]*)"', order_ok[0])
    bad = parse_coq_N_list(vals[0])
    ck.obligation('correspondence:id_manager_programs', not bad and got_names == names,
                  f'{min(len(cases), 500)} requests to {names}, Fmt/VmfIds.id_get on the generated decision lists vs get_id: {len(bad)} disagreements')
    if bad or got_names != names:
        ck.tie_broken.append('correspondence id managers (generated decision list vs get_id)')
        ck.extra['id_manager_disagreement'] = repr(cases[bad[0]]) if bad else repr((got_names, names))
    ck.sample({'id_manager_case(class, requested, answer == requested)': list(cases[3])})
    # oracle on the implementation: preserve_ids=True means every manager of the map hands back what it is asked for
    for attr in sorted(idm.get('managers', {})):
        m = V.VMF(preserve_ids=True)
        man = getattr(m, attr)
        for d in [0, 1, 0, 2, 7, 7, 1000000, 2 ** 31 - 1, 2 ** 32, 3, 1]:
            ck.count('preserving_manager_requests')
            try:
                with U.time_limit(10):
                    r = man.get_id(d)
            except Exception as e:       # noqa: BLE001
                r = f'{type(e).__name__}: {e}'
            if r != d:
                ck.violation(f'ids:manager:{attr}', f'VMF(preserve_ids=True).{attr}.get_id({d}) returned {r!r}: the ID is not preserved',
                             {'manager': attr, 'desired': d, 'got': repr(r)})
                break


def corr_viewport(ck: Ck) -> None:
    """vp_read of Fmt/VmfViewport.v on the generated tiers / axis table against Strata2DViewport.from_vector on generated vectors
    (coordinates from 0, +-65536, ordinary integers: no marker, one marker, several markers, zeros with and without a marker), and
    vp_write on the generated slots against the position really written by Strata2DViewport.export."""
    import io
    from srctools.keyvalues import Keyvalues
    from srctools.math import Vec
    from srctools.vmf import Strata2DViewport
    pool = [0, 0, 65536, -65536, 5, -7, 1, 65535, 12]
    ax = {'x': 'AX', 'y': 'AY', 'z': 'AZ'}
    r_cases, w_cases = [], []
    for _ in range(ck.budget(150, 600)):
        p = [ck.rng.choice(pool) for _ in range(3)]
        try:
            vp = Strata2DViewport.from_vector(Vec(*p))
            exp = (vp.axis, int(vp.u), int(vp.v))
        except ValueError:
            exp = None
        r_cases.append((p, exp))
        ck.count('viewport_vector_cases')
        ck.hist('viewport_vector', f'{sum(1 for c in p if abs(c) == 65536)} markers, {sum(1 for c in p if c == 0)} zeros')
        ck.seen(('vpvec', tuple(p)))
        a, u, v = ck.rng.choice('xyz'), ck.rng.choice(pool[4:] + [0]), ck.rng.choice(pool[4:] + [0])
        buf = io.StringIO()
        Strata2DViewport(a, float(u), float(v), 1.0).export(buf, 'v0')
        pos = next(iter(Keyvalues.parse(buf.getvalue())))['position']
        w_cases.append(((a, u, v), [int(float(t)) for t in pos.strip('()').split()]))
    lit_r = coq_list(f'((({p[0]})%Z, ({p[1]})%Z, ({p[2]})%Z), ' + ('None' if e is None else f'Some ({ax[e[0]]}, ({e[1]})%Z, ({e[2]})%Z)') + ')' for p, e in r_cases[:500])
    lit_w = coq_list(f'((({ax[a]}, ({u})%Z), ({v})%Z), (({w[0]})%Z, ({w[1]})%Z, ({w[2]})%Z))' for (a, u, v), w in w_cases[:500])
    pre = PRE + 'Open Scope Z_scope.\nDefinition res_eqb (a b : option (ax * Z * Z)) : bool := match a, b with None, None => true ' \
                '| Some (x, u, v), Some (y, u2, v2) => (ax_eqb x y && (u =? u2) && (v =? v2))%bool | _, _ => false end.\n'
    vals = ck.coq_eval(IMPORTS, [
        f'bad_idx (fun c : vec3 * option (ax * Z * Z) => res_eqb (vp_read gen_vp_tiers gen_vp_inv (fst c)) (snd c)) 0%N {lit_r}',
        f'bad_idx (fun c : ((ax * Z) * Z) * vec3 => let \'(x, y, z) := vp_write gen_vp_tbl (fst (fst (fst c))) (snd (fst (fst c))) (snd (fst c)) in '
        f'let \'(x2, y2, z2) := snd c in ((x =? x2) && (y =? y2) && (z =? z2))%bool) 0%N {lit_w}'], name='viewport', preamble=pre)
    if vals is None:
        ck.obligation('correspondence:viewport_axis', False, 'model could not be evaluated')
        ck.tie_broken.append('correspondence viewport axis: model evaluation failed')
        return
    br, bw = (parse_coq_N_list(v) for v in vals)
    ck.obligation('correspondence:viewport_axis_read', not br, f'{min(len(r_cases), 500)} vectors, Fmt/VmfViewport.vp_read on the generated tables vs '
                  f'Strata2DViewport.from_vector: {len(br)} disagreements')
    ck.obligation('correspondence:viewport_axis_written', not bw, f'{min(len(w_cases), 500)} viewports, Fmt/VmfViewport.vp_write on the generated slots vs '
                  f'the position written by Strata2DViewport.export: {len(bw)} disagreements')
    for name, bad, cases in (('viewport_axis_read', br, r_cases), ('viewport_axis_written', bw, w_cases)):
        if bad:
            ck.tie_broken.append(f'correspondence {name} (Fmt/VmfViewport.v vs vmf.py)')
            ck.extra[f'{name}_disagreement'] = repr(cases[bad[0]])


_T0 = [0.0]


def stage(ck: Ck, label: str) -> None:
    """Wall seconds spent since the previous mark, recorded in the evidence only (extra['stage_seconds']); never used in a verdict."""
    import time
    now = time.time()
    if _T0[0]:
        ck.extra.setdefault('stage_seconds', {})[label] = round(now - _T0[0], 1)
    _T0[0] = now


def guarded(ck: Ck, name: str, fn: Any, *args: Any) -> None:
    """A correspondence stage calls the implementation on generated inputs; the exceptions it expects are handled inside.  Anything
    else (a fault that makes the implementation raise something unexpected, or loop) is a failing input of that stage, reported as a
    violation with the stage and the error as replay -- not an INTERNAL-ERROR of the check."""
    import traceback
    try:
        with U.time_limit(600):
            fn(*args)
    except Exception as e:       # noqa: BLE001
        tb = traceback.extract_tb(e.__traceback__)
        where = next((f'{f.filename.rsplit("/", 1)[-1]}:{f.lineno} {f.name}' for f in reversed(tb) if '/srctools/' in f.filename), 'harness')
        ck.obligation(f'correspondence:{name}', False, f'stage raised {type(e).__name__}: {e}')
        ck.tie_broken.append(f'correspondence stage {name} raised {type(e).__name__}')
        ck.violation(f'stage-error:{name}:{U.err_class(e)}', f'the implementation raised {type(e).__name__}: {e} (at {where}) on an input of the '
                     f'correspondence stage {name}', {'stage': name, 'error': repr(e), 'where': where, 'seed': ck.seed})
        ck.explain(f'correspondence:{name}')


def rich_spec(seed: int = 7) -> dict:
    """A fixed specification that contains every kind of object (used to validate the translator's tables)."""
    rng = random.Random(seed)
    spec = U.gen_spec(rng, 'm')
    spec['opts'] = {'minimal': False, 'disp_multiblend': True, 'preserve_ids': True}
    spec['settings']['strata_inst_vis'] = 1
    spec['settings']['quickhide_count'] = 2
    spec['settings']['cordon_enabled'] = True
    spec['viewports'] = [{'3d': True, 'pos': [1.0, 2.0, 3.0], 'ang': [10.0, 20.0, 0.0]},
                         {'3d': False, 'axis': 'x', 'u': 0.0, 'v': 5.0, 'zoom': 1.0},
                         {'3d': False, 'axis': 'y', 'u': 1.5, 'v': 0.0, 'zoom': 2.0},
                         {'3d': False, 'axis': 'z', 'u': -7.0, 'v': 9.0, 'zoom': 0.5}]
    spec['visgroups'] = [{'name': 'a "q"', 'color': [1.0, 2.0, 3.0], 'children': [{'name': 'b', 'color': [4.0, 5.0, 6.0], 'children': []}]}]
    spec['groups'] = [{'shown': True, 'auto_shown': False, 'color': [9.0, 8.0, 7.0]}]
    spec['cameras'] = [[[0.0, 0.0, 0.0], [1.0, 1.0, 1.0]]]
    spec['cordons'] = [{'name': 'c\\1', 'mins': [0.0, 0.0, 0.0], 'maxs': [1.0, 1.0, 1.0], 'active': True}]
    disp = U.gen_disp(rng, 0.5, 2)
    n = 25
    disp['multi'] = {'kind': 'somecolors', 'blend': [[1.0, 0.0, 0.5, 0.25]] * n, 'alpha': [[0.0, 1.0, 0.0, 0.0]] * n,
                     'colors': [None if i % 2 else [[1.0, 0.5, 0.0]] * 4 for i in range(n)]}
    side = U.gen_side_extra(rng, 0.5)
    side['disp'] = disp
    side['points'] = [[0.0, 0.0, 0.0], [1.0, 0.0, 0.0], [1.0, 1.0, 0.0]]
    solid = {'kind': 'prism', 'mins': [0.0, 0.0, 0.0], 'maxs': [64.0, 64.0, 64.0], 'set_points': False,
             'sides': [side, None, None, None, None, None], 'hidden': False, 'vis_shown': True, 'vis_auto_shown': False,
             'is_cordon': True, 'color': [1.0, 2.0, 3.0], 'group': 0, 'vis': [0, 1]}
    hidden_solid = dict(copy.deepcopy(solid), hidden=True, sides=[None] * 6)
    spec['brushes'] = [solid, hidden_solid]
    ent = U.gen_entity(rng, 0.5, 2, 1, 0.0)
    ent.update(keys={'classname': 'func_instance', 'targetname': 'x "y"', 'we"ird': 'v'}, fixups=[['var', 'val'], ['v"2', 'a\\b']],
               outputs=[U.gen_output(rng, 0.5), dict(U.gen_output(rng, 0.5), comma=True, inst_out='io', inst_in='ii', targ='t', inp='i', out='o', param='p,q')],
               solids=[dict(copy.deepcopy(hidden_solid), group=None, vis=[])], hidden=True, groups=[0], vis=[0, 1], comments='c "x"',
               logical_pos='[0 "1"]')
    spec['entities'] = [ent, dict(copy.deepcopy(ent), hidden=False, solids=[], fixups=[])]
    return spec


def validate_tables(ck: Ck, side_templates: dict, side_keys: dict) -> None:
    """Dynamic validation of the translator and of the hand tables on a map holding every kind of object:
    (a) every (block, key) that really appears in exported text is in the generated written-key table;
    (b) the str/number field-type table agrees with the types of the real attributes;
    (c) the per-vertex arity table agrees with the text of the real vertex members."""
    from srctools.keyvalues import Keyvalues
    from srctools import vmf as V
    from srctools.math import Vec
    spec = rich_spec()
    vmf = U.build(spec)
    text = U.export_text(vmf, spec['opts'])
    tree = Keyvalues.parse(text)
    gen_written = {(b, k, p) for _, b, k, p in side_keys['written']}
    missing = []
    seen_pairs = set()

    def walk(kv, block: str) -> None:
        for ch in kv:
            name = ch.name
            pair = (block, name)
            if pair not in seen_pairs:
                seen_pairs.add(pair)
                if not any(b == block and ((not p and k == name) or (p and name.startswith(k))) for b, k, p in gen_written):
                    missing.append(pair)
            if ch.has_children():
                nb = f'editor@{block}' if name == 'editor' else T.BLOCK_ALIAS.get(name, name)
                walk(ch, nb)
    walk(tree, '<file>')
    ck.count('exported_block_key_pairs', len(seen_pairs))
    ck.obligation('tie:written_key_table_covers_real_output', not missing,
                  f'{len(seen_pairs)} distinct (block, key) pairs in really exported text; not in the generated table: {missing[:8]}')
    if missing:
        ck.tie_broken.append('translator key table does not cover the exported text')
    # (b) field types
    inst: dict[str, Any] = {'VMF': vmf, 'Camera': vmf.cameras[0], 'Cordon': vmf.cordons[0], 'VisGroup': vmf.vis_tree[0],
                            'Solid': vmf.brushes[0], 'Side': vmf.brushes[0].sides[0], 'Entity': vmf.entities[0],
                            'EntityGroup': next(iter(vmf.groups.values())), 'Output': vmf.entities[0].outputs[0],
                            'Strata3DViewport': vmf.strata_viewports[0], 'Strata2DViewport': vmf.strata_viewports[1]}
    wrong = []
    checked = 0
    for site in side_templates['sites']:
        cls = site['fn'].split('.')[0]
        for m in re.finditer(r'Ip\((\w+),(self\.[A-Za-z_\.]+(?:\(\))?)\)', site['key'] + site['val']):
            expr = m.group(2)
            key = expr + '@Output' if (cls == 'Output' and expr == 'self.target') else expr
            ty = T.FIELD_TYPES.get(key)
            if ty is None or cls not in inst:
                continue
            obj = inst[cls]
            try:
                val = eval(expr, {'self': obj})     # attribute chains / exp_out() of our own table only
            except Exception as e:
                wrong.append((site['fn'], expr, f'cannot evaluate: {e!r}'))
                continue
            checked += 1
            is_str = isinstance(val, str)
            if (ty == 's') != is_str:
                wrong.append((site['fn'], expr, type(val).__name__))
    ent = vmf.entities[0]
    for k, v in ent._keys.items():
        if not (isinstance(k, str) and isinstance(v, str)):
            wrong.append(('Entity.export', 'key/value', 'not str'))
    for f in ent._fixup._fixup.values():
        if not (isinstance(f.var, str) and isinstance(f.value, str) and isinstance(f.id, int)):
            wrong.append(('EntityFixup.export', 'fixup', 'types'))
    ck.obligation('tie:field_type_table', not wrong, f'{checked} interpolated attributes evaluated on real objects; mismatches: {wrong[:6]}')
    if wrong:
        ck.tie_broken.append('hand field-type table disagrees with real attribute types')
    # (b2) number kinds / member kinds: the hand tables against the real attributes
    from srctools.math import Angle
    from srctools.vmf import UVAxis, Vec4
    kinds = {'int': lambda v: isinstance(v, int), 'float': lambda v: isinstance(v, (int, float)) and not isinstance(v, bool),
             'Vec': lambda v: isinstance(v, Vec), 'Angle': lambda v: isinstance(v, Angle), 'UVAxis': lambda v: isinstance(v, UVAxis),
             'Vec4': lambda v: isinstance(v, Vec4), 'intlist': lambda v: not isinstance(v, str) and all(isinstance(x, int) for x in v)}
    kwrong, kchecked = [], 0
    samples = {'point': Vec(), 'i': 0, 'y': 0, 'group': 1, 'group_id': 1, 'vis_id': 1, 'fixup': next(iter(ent._fixup._fixup.values())),
               'vert': vmf.brushes[0].sides[0]._disp_verts[0]}
    for expr, kind in T.NUM_KINDS.items():
        for cls, obj in inst.items():
            try:
                val = eval(expr, dict(samples, self=obj))
            except Exception:
                continue
            if expr == 'self.target' and cls == 'Output':
                continue
            if expr.startswith('self.') and not any(expr in site['key'] + site['val'] for site in side_templates['sites']
                                                    if site['fn'].split('.')[0] == cls):
                continue          # attribute of the same name on a class that does not write it
            kchecked += 1
            if not kinds[kind](val):
                kwrong.append((cls, expr, kind, type(val).__name__))
    vert0 = vmf.brushes[0].sides[0]._disp_verts[0]
    for member, kind in T.MEMBER_KINDS.items():
        val = (vert0.multi_colors or [Vec()])[0] if member == 'multi_colors[i]' else getattr(vert0, member)
        kchecked += 1
        if not kinds[kind](val):
            kwrong.append(('DispVertex', member, kind, type(val).__name__))
    ck.obligation('tie:number_kind_table', not kwrong and kchecked >= 40, f'{kchecked} number-like expressions evaluated on real objects; '
                  f'mismatches: {kwrong[:6]}')
    if kwrong:
        ck.tie_broken.append('hand number-kind table disagrees with real attribute types')
    # (b3) the recorded formatter of every number against the really exported text: every number token must be a fixed
    # point of the format recorded for its position (block, key, index within the value)
    a = T.analyse()
    by_pos: dict[tuple, list] = {}
    for f in a['numfields']:
        by_pos.setdefault((f['fn'], f['block'], f['key']), []).append(f)
    cand: dict[str, list] = {}
    for st in a['sites']:
        cand.setdefault(st.block, []).append(st)

    def fixed_point(tok: str, f: Any) -> bool:
        if tok == '-0':
            tok = '0'          # known finding text-negative-zero
        try:
            if f == 'I':
                return str(int(tok)) == tok
            if f == 'B':
                return tok in ('0', '1')
            x = float(tok)
            if f == 'R':
                return repr(x) == tok or (x == int(x) and str(int(x)) == tok)
            if f[0] == 'F':
                t = '%.*f' % (f[1], x + 0.0)
                return (t.rstrip('0').rstrip('.') if '.' in t else t) == tok
            if f[0] == 'G':
                return '%.*g' % (f[1], x) == tok
        except ValueError:
            return False
        return False

    def site_regex(st: Any) -> str:
        out = ''
        for pc in st.val:
            if pc.kind == 'lit':
                out += re.escape(pc.text)
            elif pc.cls == 'Num':
                out += r'([-+0-9.e ]*?)'
            elif pc.cls == 'Sep':
                out += r'[,\x1b]'
            else:
                out += r'(?:.*?)'
        return out
    nbad: list = []
    ntok = [0]
    seen_pos: set = set()

    def walk_nums(kv: Any, block: str) -> None:
        for ch in kv:
            name = ch.name
            if ch.has_children():
                walk_nums(ch, f'editor@{block}' if name == 'editor' else T.BLOCK_ALIAS.get(name, name))
                continue
            results = []
            for st in cand.get(block, []):
                ktxt = ''.join(pc.text for pc in st.key if pc.kind == 'lit').casefold()
                dyn = any(pc.kind != 'lit' for pc in st.key)
                if not (name == ktxt or (dyn and name.startswith(ktxt))):
                    continue
                recs = by_pos.get((st.fn, block, ktxt), [])
                if not recs:
                    continue
                m = re.fullmatch(site_regex(st), ch.value, re.S)
                if not m:
                    continue
                errs = []
                for f in recs:
                    toks = m.group(f['idx'] + 1).split()
                    fm = f['raw']
                    if not toks or len(toks) % len(fm):
                        errs.append((block, name, f['idx'], f['fmts'], f'{len(toks)} numbers'))
                        continue
                    for j, tok in enumerate(toks):
                        if not fixed_point(tok, fm[j % len(fm)]):
                            errs.append((block, name, f['idx'], f['fmts'][j % len(fm)], tok))
                            break
                results.append((errs, len(recs), (block, ktxt)))
            if results:
                best = min(results, key=lambda r: len(r[0]))
                ntok[0] += best[1]
                seen_pos.add(best[2])
                nbad.extend(best[0][:1])
    walk_nums(tree, '<file>')
    ck.count('number_groups_checked_against_recorded_format', ntok[0])
    ck.obligation('tie:number_formats_on_exported_text', not nbad and len(seen_pos) >= 40,
                  f'{ntok[0]} numbers at {len(seen_pos)} distinct (block, key) positions of really exported text are fixed points of the '
                  f'format recorded for them; not so: {nbad[:5]}')
    if nbad:
        ck.tie_broken.append('recorded number formats disagree with the exported text')
    # (c) arity
    vert = vmf.brushes[0].sides[0]._disp_verts[0]
    bad = []
    for member, ar in T.MEMBER_ARITY.items():
        if member == 'multi_colors[i]':
            txt = str(vert.multi_colors[0]) if vert.multi_colors else str(Vec(1, 1, 1))
        else:
            txt = str(getattr(vert, member))
        if len(txt.split()) != ar:
            bad.append((member, txt, ar))
    ck.obligation('tie:vertex_member_arity_table', not bad, f'{len(T.MEMBER_ARITY)} members; mismatches: {bad}')
    if bad:
        ck.tie_broken.append('hand arity table disagrees with real vertex members')


# ------------------------------------------------------------------------------------------------ search
def base_spec() -> dict:
    return {
        'opts': {'minimal': False, 'disp_multiblend': True, 'preserve_ids': True},
        'settings': {'map_version': 1, 'hammer_version': 400, 'hammer_build': 8000, 'is_prefab': False, 'show_grid': True,
                     'show_3d_grid': False, 'snap_grid': True, 'show_logic_grid': False, 'grid_spacing': 64, 'quickhide_count': 0,
                     'strata_inst_vis': None, 'cordon_enabled': False, 'active_cam': -1},
        'viewports': None, 'visgroups': [], 'groups': [], 'cameras': [], 'cordons': [], 'world_keys': {}, 'brushes': [], 'entities': [],
    }


def base_ent(**kw: Any) -> dict:
    e = {'keys': {'classname': 'info_target'}, 'fixups': [], 'outputs': [], 'solids': [], 'hidden': False, 'groups': [], 'vis': [],
         'vis_shown': True, 'vis_auto_shown': True, 'logical_pos': None, 'color': [255.0, 255.0, 255.0], 'comments': ''}
    e.update(kw)
    return e


def base_solid(**kw: Any) -> dict:
    s = {'kind': 'prism', 'mins': [0.0, 0.0, 0.0], 'maxs': [64.0, 64.0, 64.0], 'set_points': False, 'sides': [None] * 6, 'hidden': False,
         'vis_shown': True, 'vis_auto_shown': True, 'is_cordon': False, 'color': [255.0, 255.0, 255.0], 'group': None, 'vis': []}
    s.update(kw)
    return s


def corpus_specs() -> list[tuple[str, dict]]:
    """Directed specifications: one per defect class observed on the pinned tree (DESIGN section 7 #6-#10 and the ones
    found while building this check). They run first on every run."""
    out: list[tuple[str, dict]] = []
    rng = random.Random(1)

    def mk(name: str, **kw: Any) -> dict:
        s = base_spec()
        s.update(kw)
        out.append((name, s))
        return s
    grp = [{'shown': True, 'auto_shown': True, 'color': [1.0, 2.0, 3.0]}]
    mk('group-membership', groups=grp, brushes=[base_solid(group=0)], entities=[base_ent(groups=[0])])
    mk('group-auto-shown', groups=[{'shown': False, 'auto_shown': False, 'color': [1.0, 2.0, 3.0]}])
    for p in (1, 2, 3, 4):
        d = U.gen_disp(rng, 0.0, p)
        d['multi'] = None
        sd = U.gen_side_extra(rng, 0.0)
        sd['disp'] = d
        mk(f'displacement-power-{p}', brushes=[base_solid(sides=[sd] + [None] * 5)])
    for kind in ('full', 'nocolors', 'somecolors'):
        d = U.gen_disp(rng, 0.0, 1)
        d['multi'] = {'kind': kind, 'blend': [[1.0, 0.5, 0.0, 0.25]] * 9, 'alpha': [[0.5, 0.0, 0.0, 1.0]] * 9,
                      'colors': [None if (kind == 'nocolors' or (kind == 'somecolors' and i % 2)) else [[1.0, 0.5, 0.25]] * 4 for i in range(9)]}
        sd = U.gen_side_extra(rng, 0.0)
        sd['disp'] = d
        mk(f'multiblend-{kind}', brushes=[base_solid(sides=[sd] + [None] * 5)])
    mk('hidden-before-visible', entities=[base_ent(hidden=True), base_ent()])
    sd = U.gen_side_extra(rng, 0.0)
    sd['mat'] = 'a"b\\c\td'
    mk('quote-in-material', brushes=[base_solid(sides=[sd] + [None] * 5)])
    mk('quote-in-key-name', entities=[base_ent(keys={'classname': 'x', 'we"ird\\key': 'v'})])
    mk('quote-in-fixup-name', entities=[base_ent(fixups=[['a"b', 'v'], ['c\\', 'w']])])
    mk('quote-in-logical-pos', entities=[base_ent(logical_pos='[0 "5"]')])
    vis = [{'name': 'v1', 'color': [1.0, 1.0, 1.0], 'children': [{'name': 'v2', 'color': [2.0, 2.0, 2.0], 'children': []}]}]
    mk('world-brush-in-visgroup', visgroups=vis, brushes=[base_solid(vis=[0, 1])])
    many = [{'name': f'v{i}', 'color': [1.0, 1.0, 1.0], 'children': []} for i in range(12)]
    mk('visgroup-set-history', visgroups=many, entities=[base_ent(vis=[10, 2, 5, -6, 0, 8])], brushes=[base_solid(vis=[10, 2, -3, 8, 0])])
    mk('default-2d-viewport', viewports=[{'3d': True, 'pos': [0.0, 0.0, 0.0], 'ang': [0.0, 0.0, 0.0]}] +
       [{'3d': False, 'axis': a, 'u': 0.0, 'v': 0.0, 'zoom': 1.0} for a in 'xyz'])
    mk('outputs-both-separators', entities=[base_ent(outputs=[
        {'out': 'OnTrigger', 'targ': 'a"b', 'inp': 'Fire', 'param': 'x,y\n"z"', 'delay': 0.25, 'times': -1, 'comma': True, 'inst_out': None, 'inst_in': None},
        {'out': 'OnUser1', 'targ': 'rl', 'inp': 'Kill', 'param': 'a,b', 'delay': 1234567.0, 'times': 1, 'comma': False, 'inst_out': 'in"ner', 'inst_in': 'tgt'}])])
    s = mk('settings-cameras-cordons', cameras=[[[1.0, 2.0, 3.0], [4.0, 5.0, 6.0]], [[0.5, 0.25, 0.125], [0.0, 0.0, 0.0]]],
           cordons=[{'name': 'c "1"', 'mins': [0.0, 0.0, 0.0], 'maxs': [5.0, 5.0, 5.0], 'active': False}])
    s['settings'].update(cordon_enabled=True, active_cam=2, strata_inst_vis=2, quickhide_count=4, is_prefab=True)
    # blend weights set, every other member of the optional group at its default (a presence guard on another member loses them)
    d = U.gen_disp(rng, 0.0, 1)
    d['multi'] = {'kind': 'alpha0', 'blend': [[1.0, 0.5, 0.0, 0.25]] * 9, 'alpha': [[0.0, 0.0, 0.0, 0.0]] * 9, 'colors': [None] * 9}
    sd = U.gen_side_extra(rng, 0.0)
    sd['disp'] = d
    mk('multiblend-only-blend', brushes=[base_solid(sides=[sd] + [None] * 5)])
    # IDs (round 4): every ID-carrying block (entity, world, solid, side, group, visgroup, nodeid) numbered from 0, sparse and huge,
    # repeated; on the objects (route object) and in the text that is parsed (route text); with and without preserve_ids
    def id_map(ids: dict, preserve: bool) -> dict:
        two_vis = [{'name': 'v1', 'color': [1.0, 1.0, 1.0], 'children': [{'name': 'v3', 'color': [3.0, 3.0, 3.0], 'children': []}]},
                   {'name': 'v2', 'color': [2.0, 2.0, 2.0], 'children': []}]
        node = {'classname': 'info_node', 'nodeid': '__unique__'}
        s = base_spec()
        s.update(visgroups=two_vis, groups=[dict(grp[0]), dict(grp[0], shown=False)],
                 brushes=[base_solid(vis=[0], group=0), base_solid(vis=[1, 2], group=1)],
                 entities=[base_ent(vis=[0], groups=[0], keys=dict(node)), base_ent(vis=[1], groups=[1], keys=dict(node), solids=[base_solid()]),
                           base_ent(hidden=True, keys=dict(node))], ids=ids)
        s['opts'] = dict(s['opts'], preserve_ids=preserve)
        return s
    for route in ('object', 'text'):
        out.append((f'ids-from-zero-{route}', id_map(dict({k: [0, 1, None] for k in U.ID_KINDS}, route=route), True)))
        out.append((f'ids-sparse-huge-{route}', id_map({'route': route, 'ent': [2147483647, 1000, None], 'solid': [17, 7, None], 'face': [4294967296, 2, None],
                                                       'group': [1000000, 1000, None], 'vis': [0, 1000, None], 'node': [0, 7, None]}, True)))
        out.append((f'ids-repeated-{route}', id_map({'route': route, 'ent': [0, 1, 2], 'solid': [0, 0, None], 'face': [1, 1, 3],
                                                    'group': [0, 2, None], 'vis': [0, 5, 2], 'node': [0, 1, 1]}, True)))
        out.append((f'ids-sparse-renumbered-{route}', id_map({'route': route, 'ent': [17, 7, None], 'solid': [2, 2, None], 'face': [1000000, 1, None],
                                                             'group': [5, 1000, None], 'vis': [2, 2, None], 'node': [3, 3, None]}, False)))
    # histories (round 5): parse a map in which a container is EMPTY, add to that container through the public API, export, parse.
    # One specification per container and per public way of adding; with and without preserve_ids.
    one = {
        'brushes': [base_solid()], 'entities': [base_ent(logical_pos='[0 1]')], 'visgroups': [{'name': 'v', 'color': [1.0, 2.0, 3.0], 'children': []}],
        'groups': [dict(grp[0])], 'cameras': [[[1.0, 2.0, 3.0], [4.0, 5.0, 6.0]]],
        'cordons': [{'name': 'c', 'mins': [0.0, 0.0, 0.0], 'maxs': [5.0, 5.0, 5.0], 'active': True}],
    }
    an_out = {'out': 'OnTrigger', 'targ': 't', 'inp': 'Fire', 'param': '', 'delay': 0.0, 'times': -1, 'comma': True, 'inst_out': None, 'inst_in': None}
    for pres in (True, False):
        tag = 'ids-kept' if pres else 'renumbered'
        for api in ({'brush': 'add_brush', 'ent': 'add_ent', 'vis': 'append'}, {'brush': 'add_brushes', 'ent': 'add_ents', 'vis': 'create'},
                    {'brush': 'append', 'ent': 'create_ent', 'vis': 'append'}):
            s = mk(f"history-blank-map-then-add-everything-{api['brush']}-{api['ent']}-{tag}",
                   history={'emptied': list(U.HIST_CONTAINERS), 'edits': dict(copy.deepcopy(one), ent_edits=[]), 'api': api})
            s['opts'] = dict(s['opts'], preserve_ids=pres)
        for c in U.HIST_CONTAINERS:
            # everything else present, only this container empty in the parsed map
            edits = {k: [] for k in U.HIST_CONTAINERS}
            edits[c] = copy.deepcopy(one[c])
            edits['ent_edits'] = []
            full = {k: copy.deepcopy(v) for k, v in one.items() if k != c}
            s = mk(f'history-only-{c}-empty-then-add-{tag}', history={'emptied': [c], 'edits': edits, 'api': {}}, **full, **{c: []})
            s['opts'] = dict(s['opts'], preserve_ids=pres)
        s = mk(f'history-bare-entity-then-outputs-fixups-solids-{tag}', entities=[base_ent(), base_ent(hidden=True)],
               history={'emptied': [], 'api': {}, 'edits': {'ent_edits': [
                   {'index': 0, 'outputs': [dict(an_out)], 'fixups': [['var', 'val']], 'solids': [base_solid()]},
                   {'index': 1, 'outputs': [dict(an_out, comma=False)], 'fixups': [['other', 'a "b"']], 'solids': [base_solid(hidden=True)]}]}})
        s['opts'] = dict(s['opts'], preserve_ids=pres)
    return out


def feature_hist(ck: Ck, spec: dict) -> bool:
    """Record the distribution of one specification; returns True when it is non-trivial (has content beyond settings)."""
    ents, brs = spec['entities'], spec['brushes']
    ck.hist('n_entities', min(len(ents), 12))
    ck.hist('n_world_brushes', len(brs))
    ck.hist('options', ''.join(k[0] for k, v in sorted(spec['opts'].items()) if v) or '-')
    solids = list(brs) + [s for e in ents for s in e['solids']]
    for s in solids:
        for sd in s['sides']:
            if sd is not None and sd.get('disp') is not None:
                ck.hist('displacement_power', sd['disp']['power'])
                ck.hist('multiblend', (sd['disp'].get('multi') or {}).get('kind', 'none'))
    feats = {
        'hidden_entity': any(e['hidden'] for e in ents), 'hidden_solid': any(s['hidden'] for s in solids),
        'brush_entity': any(e['solids'] for e in ents), 'fixups': any(e['fixups'] for e in ents),
        'outputs': any(e['outputs'] for e in ents), 'comma_outputs': any(o['comma'] for e in ents for o in e['outputs']),
        'instance_outputs': any(o['inst_out'] or o['inst_in'] for e in ents for o in e['outputs']),
        'groups': bool(spec['groups']), 'visgroups': bool(spec['visgroups']),
        'nested_visgroups': any(v['children'] for v in spec['visgroups']), 'cameras': bool(spec['cameras']),
        'cordons': bool(spec['cordons']), 'viewports': spec['viewports'] is not None,
        'strata_points': any(sd is not None and sd.get('points') for s in solids for sd in s['sides']),
        'arbitrary_faces': any(s['kind'] == 'faces' for s in solids),
        'nasty_strings': any(any(c in v for c in '"\\\n') for e in ents for v in list(e['keys'].values()) + list(e['keys'])),
    }
    hist = spec.get('history')
    if hist:
        feats['history'] = True
        for c in hist.get('emptied', ()):
            if hist['edits'].get(c):
                ck.hist('history_added_to_empty_container', c)
        for c in U.HIST_CONTAINERS:
            if hist['edits'].get(c) and spec[c]:
                ck.hist('history_added_to_nonempty_container', c)
        for ed in hist['edits'].get('ent_edits', ()):
            if ents:
                e = ents[ed['index'] % len(ents)]
                for c in U.HIST_ENT_CONTAINERS:
                    if ed.get(c):
                        ck.hist('history_added_to_entity', c + (':was-empty' if not e[c] else ':was-filled'))
        for k, v in sorted((hist.get('api') or {}).items()):
            ck.hist('history_api', f'{k}:{v}')
        for k, v in sorted((hist['edits'].get('removals') or {}).items()):
            if v:
                ck.hist('history_api', f'remove:{k}')
    ids = spec.get('ids') or {}
    feats['id_scheme'] = bool(ids)
    for kind in U.ID_KINDS:
        if kind in ids:
            st, step, wrap = ids[kind]
            ck.hist('id_scheme', f"{ids['route']}:{kind}:" + ('from0' if st == 0 else 'from1' if st == 1 else 'huge' if st > 2 ** 31 - 2 else 'sparse')
                    + (':repeated' if wrap or step == 0 else '') + ('' if spec['opts']['preserve_ids'] else ':unpreserved'))
    for k, v in feats.items():
        if v:
            ck.hist('features', k)
    return bool(ents or brs or spec['visgroups'] or spec['cameras'] or spec['cordons'] or hist)


def search(ck: Ck) -> None:
    # quick: 150 maps + 60 histories since round 5 (200 maps in round 4; 450 until round 3, 240 until round 4; lowered to keep the quick tier below 90 s on a heavily loaded machine now that the proof side
    # has 140 more obligations and four more correspondences; the directed corpus and the shipped files run first in any case);
    # quick with a broken tie: 2000; thorough: 7500
    n = 7500 if ck.thorough else ck.budget(150, 2000)
    found: dict[str, tuple[dict, str, dict]] = {}
    # Shrinking budget, counted in oracle evaluations (not wall time, so that results are reproducible): per violation key
    # and in total.  A fault in a hot path produces dozens of keys on big maps; the total keeps a failing run within minutes.
    per_key = 200 if ck.thorough else 60
    total = [2500 if ck.thorough else 420]

    def consider(spec: dict, label: str) -> None:
        res = U.check_spec(spec)
        for key, what, det in res:
            if key.startswith('build-error'):
                ck.count('generator_rejected_by_api')
                ck.notes.append(f'generator produced a map the API refused ({label}): {what[:200]}')
                continue
            if key not in found:
                calls = [0]

                def same(s: dict, key: str = key) -> bool:
                    calls[0] += 1
                    return any(k == key for k, _, _ in U.check_spec(s))
                budget = min(per_key, total[0])
                small = U.shrink_spec(spec, same, budget) if budget > 0 else spec
                total[0] -= calls[0]
                ck.count('shrink_evaluations', calls[0])
                w2 = next((w for k, w, _ in U.check_spec(small) if k == key), what) if budget > 0 else what
                found[key] = (small, w2, det)
            else:
                ck.count('repeat_violations')

    for name, spec in corpus_specs():
        ck.count('corpus_specs')
        if feature_hist(ck, spec):
            ck.seen(('corpus', name))
        consider(spec, name)
    # every .vmf shipped under tests/
    from srctools.keyvalues import Keyvalues
    from srctools.vmf import VMF
    files = sorted(glob.glob(str(REPO / 'tests' / '**' / '*.vmf'), recursive=True))
    for f in files:
        for pres in (True, False):
            rel0 = f[len(str(REPO)) + 1:]
            try:
                with U.time_limit(300):
                    with open(f, encoding='cp1251') as fh:
                        kv = Keyvalues.parse(fh)
                    v = VMF.parse(kv, preserve_ids=pres)
            except Exception as e:       # noqa: BLE001 - a shipped map that no longer parses is a failing input
                ck.violation('file:parse-error:' + U.err_class(e), f'{rel0}: VMF.parse(preserve_ids={pres}) raised {type(e).__name__}: {e}',
                             {'file': rel0, 'opts': {'preserve_ids': pres}})
                continue
            for opts in ({'preserve_ids': pres}, {'preserve_ids': pres, 'minimal': True, 'disp_multiblend': False}):
                ck.count('shipped_vmf_round_trips')
                rel = f[len(str(REPO)) + 1:]
                ck.seen(('file', rel, pres, bool(opts.get('minimal'))))
                try:
                    with U.time_limit(300):
                        res = U.check_vmf(v, opts)
                except U.Timeout as e:
                    res = [('hang:round-trip', f'export / parse did not finish: {e}', {})]
                for key, what, det in res:
                    ck.violation('file:' + key, f'{rel}: {what}', {'file': rel, 'opts': opts, 'detail': det})
    ck.extra['shipped_vmf_files'] = [f[len(str(REPO)) + 1:] for f in files]
    for i in range(n):
        spec = U.gen_spec(ck.rng, ck.rng.choice('ssmml' if ck.thorough else 'ssmm'))
        ck.count('generated_maps')
        if feature_hist(ck, spec):
            ck.seen(('spec', i, len(json.dumps(spec))))
        if i == 3:
            ck.sample({'generated_spec_excerpt': json.dumps(spec)[:1500]})
        consider(spec, f'random #{i}')
    # histories (round 5): build -> export -> parse -> edits through the public API -> export -> parse, starting from parsed maps
    # in which the containers the API adds to are mostly empty; compared with the same edits on the map built through the API
    n_hist = 2500 if ck.thorough else ck.budget(60, 700)
    for i in range(n_hist):
        spec = U.gen_history_spec(ck.rng)
        ck.count('generated_histories')
        if feature_hist(ck, spec):
            ck.seen(('history', i, len(json.dumps(spec))))
        if i == 1:
            ck.sample({'generated_history_excerpt': json.dumps(spec['history'])[:1500]})
        consider(spec, f'history #{i}')
    for key, (spec, what, det) in found.items():
        ck.violation(key, what, {'spec': spec, 'detail': det,
                                 'how': 'harness.c06_util.check_spec(spec): build through the public API, export, parse, compare, export again; with spec["history"]: '
                                        'build, export, parse, then add spec["history"]["edits"] to the parsed map through the API, compare with the built map that got the same edits, then round trip'})
    ck.extra['violation_keys'] = sorted(found)


# ------------------------------------------------------------------------------------------------ main
def run(ck: Ck) -> None:
    ck.rule = ('maps are generated as JSON specifications (entities with arbitrary keys/values incl. quotes, backslashes, newlines, '
               'unicode; outputs with both separators and instance forms; fixups; hidden entities/solids; brush entities; prisms and '
               'arbitrary faces; displacements power 1-4 with per-vertex data, allowed_verts, multiblend in 6 variants (incl. all-zero blend and blend-only); nested '
               'visgroups; groups; membership sets built by add/discard histories; cameras; cordons; Strata viewports/points; options '
               'minimal/disp_multiblend/preserve_ids) and realised through the public API; a map is non-trivial when it has at least '
               'one entity, brush, visgroup, camera or cordon; distinct by full specification. Correspondence cases: strings over an '
               'alphabet rich in escapes (non-trivial = contains quote/backslash/newline), doubles with decimal-boundary values '
               '(non-trivial = non-integral); output values of 3..7 fields over an alphabet holding both separators (all distinct values count); '
               'fixup lists with duplicate/zero/negative indexes and equal names (non-trivial = some index repeated). '
               'Number-group texts (Vec/Angle/UVAxis/plane triple): tokens from a pool of pairwise different numbers, brackets of all four '
               'kinds, doubled and mismatched brackets, extra white space, 1..6 tokens, 2..4 plane groups (non-trivial = has a bracket; every '
               'UVAxis and plane text counts). '
               'ID schemes (45 % of the maps; per kind entity/solid/face/group/visgroup/node: start 0, 1, 2, 17, 10^6, 2^31-1, 2^32, step 1..1000, '
               'optionally wrapping so that numbers repeat -- only with preserve_ids, never for groups, which are keyed by ID) applied to the built '
               'objects or to the exported text that is then parsed. ID-manager requests: -1, negatives, 0, used and free small numbers, huge numbers, '
               'repetitions, on instances that already hold 1..39. Viewport vectors: coordinates from 0, +-65536 and ordinary integers. '
               'Shipped files: every tests/**/*.vmf x preserve_ids x minimal. '
               'Histories (round 5): a base specification in which each of world brushes / entities / visgroups / groups / cameras / cordons is emptied with '
               'probability 0.6 (and outputs / fixups / solids of each entity with 0.5) is built, exported and parsed; then 1-2 elements per container '
               '(at least one for every emptied container) are added to the PARSED map through a randomly chosen public adder, entities of the base get '
               'outputs / fixups / solids, and with probability 0.3 a brush / an entity is removed; non-trivial = always (every history adds something); '
               'every round trip additionally writes the text into a file object and, when it is cp1251-encodable without bare CR (every other such text: about 22 % of the maps, '
               '5 % with non-ASCII text), parses it from a file name; distinct by full specification; 21 directed histories (blank map then everything, one container empty at a time, bare entities) run first.')
    ck.trusted.append('hand tables in translate/c06_vmf.py (field types, call graph of export methods, parse roots, vertex arity), '
                      'validated on real objects / really exported text on every run')
    ck.trusted.append('hand-copied ESCAPES table and scanner in rocq/Fmt/VmfText.v (tied by differential correspondence on every run)')
    ck.trusted.append('translate/c06_prog.py: extraction of the block structure of the export methods (shares the call table and the '
                      'template classification with c06_vmf.py); hand models of Output.parse / EntityFixup.__init__ in rocq/Fmt/VmfFields.v '
                      '(tied by differential correspondence and by the generated separators / field order)')
    ck.trusted.append('translate/c06_lite.py: data-flow analysis of the parse methods and constructors (object-level table), hand tables CLASSES, '
                      'ARRAY_ATTRS, ALIAS_ATTRS; the hand table of the precision class each written number must keep (REQUIRED_* in checks/c06.py)')
    ck.trusted.append('translate/c06_ids.py: symbolic execution of get_id / VMF.__init__, scan for get_id call sites, for loops over set-typed '
                      'attributes (set-typed = annotated set[...] or assigned set(...)), for the position templates / marker tiers of 2D viewports; '
                      'the hand model of the reader loop of Strata2DViewport.from_vector (vp_choose; tied by correspondence)')
    ck.trusted.append('translate/c06_alias.py: symbolic execution of the constructors and of the static / class methods that make a map over abstract '
                      'object identities (every call / display / slice / comprehension is a new object; loops and try are joined with an opaque condition)')
    ck.trusted.append('the C01 KeyValues1 tokenizer/parser model rocq/KV/* (imported read-only; tied to keyvalues.py/tokenizer.py by check C01)')
    ck.assumptions += [
        'CPython float formatting (%.6f, %g, repr) is correctly rounded and its output contains only digits, sign, point, exponent, '
        'space and inf/nan (hypothesis num_fields_plain of the theorems; exercised by the search)',
        'float(text) returns the double nearest to the decimal text (re-reading adds at most half an ulp to the bounds of family 4)',
        'text -> tree is proved for every export program; the tree -> object half for whole objects is informal (per block / per field '
        'families) and covered by the search',
        'IDs a map can carry are natural numbers: -1 is the API\'s "no ID", Entity.parse takes an id key as the ID only when it is all digits; '
        'without preserve_ids IDs are positive and unique (IDMan; 0 would be renumbered without updating references -- C08\'s subject)',
        'a call made inside VMF.__init__ / VMF.parse does not rebind VMF.brushes / VMF.spawn / Entity.solids of an object that already exists '
        '(the census gen_alias_rebinds lists every statement of vmf.py that assigns these attribute names: only makers and constructors do), and the '
        'truthiness of a list does not change between two tests inside one maker',
        'a Python set iterates over its elements in some duplicate-free order (model: any NoDup list); sorted() is a function of the multiset',
        'str.split, str.join, int() on digit strings and str.casefold behave as modelled (split_on, join, parse_digits; casefold enters '
        'the theorems as the section variables is_inst / same_var)',
    ]
    stage(ck, 'start')
    oks = [ck.translate(name, fn) for name, fn in {**T.GEN, **P.GEN, **L.GEN, **IDS.GEN, **AL.GEN}.items()]
    # C01's generated parser sites (read-only use of C01's translator): premise pcfg_ok of the block theorem
    oks.append(ck.translate('KVSer_gen', c01_kvser.translate))
    tr = ck.extra.get('translated', {})
    built = all(oks) and ck.build(['Gen/KVSer_gen.vo', 'Gen/VmfIds_gen.vo', 'Gen/VmfSets_gen.vo', 'Gen/VmfViewport_gen.vo', 'Gen/VmfAlias_gen.vo', 'Props/C06.vo'])
    stage(ck, 'translate+build')
    if built:
        ck.theorems('Props/C06.v')
        stage(ck, 'print_assumptions')
        obs: dict[str, str] = {}
        for fn in T.EXPORT_FUNCS:
            if fn == 'Output.export':
                continue
            obs[f'strings_escaped:{fn}'] = f'strings_escaped_in "{fn}" kv_sites'
            obs[f'keys_read:{fn}'] = f'keys_read_for "{fn}" written_keys read_keys'
        for name in sorted(tr.get('VmfDispSizes_gen', {}).get('arrays', {})):
            obs[f'disp_shape:{name}'] = f'named_array_ok gen_disp_size "{name}" disp_arrays'
        obs['disp_shapes_all'] = 'disp_shapes_ok gen_disp_size disp_arrays'
        obs['disp_arrays_complete'] = '(12 <=? List.length disp_arrays)%nat'
        obs['entity_blocks_read_in_file_order'] = 'mode_eqb gen_entity_parse_mode InOrder'
        obs['fixup_index_written_2_read_2'] = '(Nat.eqb gen_fixup_width_written 2 && Nat.eqb gen_fixup_chars_read 2)%bool'
        obs['every_writer_method_has_sites'] = ('forallb (fun fn => orb (negb (Nat.eqb (List.length (sites_of fn kv_sites)) 0)) '
                                                '(str_eqb fn "Output.export")) writer_methods')
        # block-level write programs (round 2): one obligation per (specialised) export method
        prog = tr.get('VmfProg_gen', {})
        for fid, label in sorted(prog.get('functions', {}).items()):
            obs[f'program_ok:{label}'] = f'prog_ok vmf_nums (fun_lookup vmf_progs {fid}%N)'
        obs['programs_all_ok'] = 'table_ok vmf_nums vmf_progs'
        obs['kv_parser_sites_ok(premise pcfg_ok of the block theorem)'] = 'pcfg_ok gen_parsecfg'
        obs['program_calls_defined'] = 'calls_defined vmf_progs'
        obs['program_methods_complete'] = f'({len(T.EXPORT_FUNCS) - 1} <=? List.length vmf_progs)%nat'
        # field-level glue (round 2)
        for pw in (1, 2, 3, 4):
            obs[f'disp_row_keys_read:power{pw}'] = (f'(forallb (fun p => rows_recognised gen_rowreader p (Z.to_nat (gen_disp_size {pw}))) '
                                                    f'gen_row_prefixes && negb (Nat.eqb (List.length gen_row_prefixes) 0))%bool')
        obs['output_separators_agree'] = ('(((gen_out_esc =? ESC) && (gen_out_write_comma =? COMMA) && (gen_out_read_comma =? COMMA) && '
                                          '(gen_out_write_esc =? ESC) && (gen_out_read_esc =? ESC))%N && negb gen_out_flag_when_esc && '
                                          'gen_out_flag_when_comma)%bool')
        # optional array groups (round 3): the multiblend arrays are written exactly when the member carried by the array
        # named "multiblend" is non-default at some vertex (and its default is falsy)
        obs['optional_arrays_guard:multiblend'] = ('(forallb (optgroup_ok "multiblend") gen_opt_groups && '
                                                   'Nat.eqb (List.length gen_opt_groups) 1)%bool')
        # number formats per field (round 3): every number of every written line is written by a format that keeps the
        # precision the property demands of it
        nfields = tr.get('VmfNumFmt_gen', {}).get('fields', [])
        triples = sorted({(f['block'], f['key'], f['idx']) for f in nfields})
        for b, k, i in triples:
            obs[f'number_format:{b}/{k or "<name>"}#{i}'] = f'field_meets "{b}" "{k}" {i}%N {required_class(b, k, i)} num_fields'
        for b, k, i in sorted(REQUIRED_SIG6 | REQUIRED_EXACT):
            obs.setdefault(f'number_format:{b}/{k or "<name>"}#{i}', f'field_meets "{b}" "{k}" {i}%N {required_class(b, k, i)} num_fields')
        obs['number_fields_complete'] = f'({len(REQUIRED_SIG6 | REQUIRED_EXACT)} <=? List.length num_fields)%nat'
        for f in nfields:
            ck.hist('number_format', '+'.join(sorted(set(f['fmts']))) + '->' + required_class(f['block'], f['key'], f['idx']))
        # object level (round 3): every written key is read into exactly the attributes it was computed from; no attribute the
        # reader fills is forgotten by the writer; displacement flag tables are inverse on every DispFlag value
        lite = tr.get('VmfLite_gen', {}).get('classes', {})
        for cname in sorted(lite):
            obs[f'fields_paired:{cname}'] = f'lite_paired lite_{cname}'
            obs[f'attrs_all_written:{cname}'] = f'lite_attrs_written lite_{cname}'
            ck.hist('object_level_written_keys', cname, len(lite[cname]['written']))
        # containment tree (round 4): the edges the tree theorem may use -- attribute exported by the parent's writer, filled by
        # the parent's reader with objects of a class of the table, both classes paired -- and the chain VMF > Entity > Solid > Side
        edges = tr.get('VmfLite_gen', {}).get('child_classes', [])
        for pc, attr, cc in edges:
            if cc in L.CLASSES:
                obs[f'containment_edge:{pc}.{attr}'] = f'edge_ok lite_classes (("{pc}", "{attr}"), "{cc}")'
            ck.hist('containment_edges', f'{pc}.{attr}->{cc}' + ('' if cc in L.CLASSES else ' (class not in the object-level table)'))
        obs['containment_chain:VMF>Entity>Solid>Side'] = 'chain_ok lite_classes lite_kid_classes ("VMF" :: "Entity" :: "Solid" :: "Side" :: nil)'
        obs['containment_chain:VMF>VisGroup>VisGroup'] = 'chain_ok lite_classes lite_kid_classes ("VMF" :: "VisGroup" :: "VisGroup" :: nil)'
        # membership sets (round 4): every loop of an export method over a set-typed attribute iterates sorted(...)
        loops = tr.get('VmfSets_gen', {}).get('loops', [])
        for meth in sorted({m for m, _a, _ok in loops}):
            obs[f'membership_lines_in_canonical_order:{meth}'] = f'member_loops_ok (loops_of "{meth}" gen_member_loops)'
        obs['membership_loops_found'] = '(3 <=? List.length gen_member_loops)%nat'
        # 2D viewport axis (round 4)
        obs['viewport_axis_tables_agree'] = 'vp_ok gen_vp_tiers gen_vp_tbl gen_vp_inv'
        obs['object_classes_complete'] = f'({len(L.CLASSES)} <=? List.length lite_classes)%nat'
        obs['disp_flags_tables_inverse'] = 'flags_tables_ok gen_flags_written gen_flags_t2c gen_flags_sub gen_flags_count'
        obs['disp_flags_all_values'] = '(16 <=? gen_flags_count)%nat'
        # IDs (round 4): every manager attribute of a VMF gets, under preserve_ids, a class whose get_id hands back every
        # natural number it is asked for; every constructor that asks a manager stores its answer; VMF.parse hands the flag on
        idm = tr.get('VmfIds_gen', {})
        for attr in sorted(idm.get('managers', {})):
            obs[f'ids_preserved_when_asked:{attr}'] = f'kind_ok gen_id_classes gen_id_managers gen_id_sites "{attr}"'
        obs['id_managers_complete'] = '(6 <=? List.length gen_id_managers)%nat'
        obs['parse_hands_preserve_ids_on'] = 'gen_parse_passes_preserve'
        for c, idp in sorted(idm.get('programs', {}).items()):
            ck.hist('id_manager_paths', c, len(idp))
        # aliases (round 5): for every function that hands out a map and every alias pair the constructor establishes, the two access
        # paths hold the same object in every world (identity, on every path, the empty case included); the attributes named in a
        # pair are rebound only where a map is made and in constructors
        ali = tr.get('VmfAlias_gen', {})
        for r in ali.get('rows', []):
            nm = f"alias_identity:{r['fn']}:{r['left']}=={r['right']}"       # one obligation for all returns of the function
            obs[nm] = (f'forallb row_ok (filter (fun r => andb (String.eqb (ar_left r) "{r["left"]}") (String.eqb (ar_right r) "{r["right"]}")) '
                       f'(rows_of "{r["fn"]}" gen_alias_rows))')
            ck.hist('alias_rows', f"{r['fn']}:{r['left']}=={r['right']}:" + ('same expression' if r['same_text'] else 'different expressions'))
        obs['alias_pairs_established_by_every_maker'] = 'alias_table_ok gen_alias_makers gen_alias_pairs gen_alias_rows'
        obs['alias_attributes_rebound_only_by_makers_and_constructors'] = (
            'forallb (fun s => existsb (String.eqb (fst s)) gen_alias_may_rebind) gen_alias_rebinds')
        obs['output_field_count_and_recombination'] = '(Nat.eqb gen_out_exact_fields 5 && Nat.eqb gen_out_recombine_from 6)%bool'
        obs['output_field_order_agrees'] = ('(nlist_eqb gen_out_write_order (0 :: 1 :: 2 :: 3 :: 4 :: nil)%N && nlist_eqb gen_out_read_order (0 :: 1 :: 2 :: 3 :: 4 :: nil)%N)%bool')
        # the hypotheses of the composed statement c06_property hold for what was generated from today's source (the example the
        # statement is not vacuous for): write programs, parser sites, class table, ID managers of every kind, membership loops, viewports
        kinds = ' :: '.join(f'"{a}"' for a in sorted(idm.get('managers', {}))) + ' :: nil'
        obs['property_hypotheses_hold_for_todays_source'] = (
            '(table_ok vmf_nums vmf_progs && pcfg_ok gen_parsecfg && forallb lite_paired lite_classes && '
            f'forallb (kind_ok gen_id_classes gen_id_managers gen_id_sites) ({kinds}) && member_loops_ok gen_member_loops && '
            'vp_ok gen_vp_tiers gen_vp_tbl gen_vp_inv && alias_table_ok gen_alias_makers gen_alias_pairs gen_alias_rows)%bool')
        res = ck.instance_obligations(IMPORTS, obs, name='c06')
        stage(ck, 'instance_obligations')
        if not all(res.values()):
            ck.tie_broken.append('instance obligations failed: ' + ', '.join(k for k, v in res.items() if not v))
        # the two extractors (template census of round 1, structured programs of round 2) must see the same written lines
        s1 = {(i['fn'], i['key'], i['val']) for i in tr.get('VmfTemplates_gen', {}).get('sites', [])}
        s2 = {tuple(x) for x in prog.get('sites', [])}
        ck.obligation('tie:program_sites_match_template_sites', s1 == s2,
                      f'{len(s1)} template sites, {len(s2)} program lines (method, key template, value template); only in one: '
                      f'{sorted(s1 ^ s2)[:4]}')
        if s1 != s2:
            ck.tie_broken.append('program translator and template translator disagree on the written lines')
        # the alias table the object-level translator uses (c06_lite.ALIAS_ATTRS: attribute -> the attribute whose object it is part of)
        # must be what the constructors establish today (discovered by symbolic execution, c06_alias.py)
        disc: dict[str, dict[str, str]] = {}
        for cname, a, b in ali.get('pairs', []):
            disc.setdefault(cname, {})[a] = b.split('.')[0]
        ck.obligation('tie:alias_table_is_what_the_constructors_establish', disc == L.ALIAS_ATTRS,
                      f'discovered {ali.get("pairs")}, hand table {L.ALIAS_ATTRS}')
        if disc != L.ALIAS_ATTRS:
            ck.tie_broken.append('the alias pairs the constructors establish are not the hand table of c06_lite.py')
        guarded(ck, 'escape_scanner', corr_escape, ck)
        guarded(ck, 'rounding', corr_rounding, ck)
        guarded(ck, 'output_fixup', corr_output_fixup, ck)
        guarded(ck, 'number_group_text', corr_tokens, ck)
        guarded(ck, 'plane_text', corr_plane, ck)
        guarded(ck, 'id_manager_programs', corr_ids, ck, tr.get('VmfIds_gen', {}))
        guarded(ck, 'viewport_axis', corr_viewport, ck)
        stage(ck, 'correspondences')
        try:
            validate_tables(ck, tr.get('VmfTemplates_gen', {}), tr.get('VmfKeys_gen', {}))
        except Exception as e:     # the rich map itself may fail to export when the source is broken: the search reports that
            ck.obligation('tie:tables_validated', False, f'validation map could not be processed: {e!r}')
            ck.tie_broken.append('table validation failed')
        stage(ck, 'validate_tables')
    search(ck)
    stage(ck, 'search')
    # Failed obligations are explained by concrete violations of the matching kind.
    keys = [v['key'] for v in ck.violations]
    str_marks = ('KeyValError', '.mat', '.keys', 'fixups', 'logical_pos', '.name', 'comments', 'outputs', ':material', '<key>',
                 'replaceN', 'logicalpos', 'TokenSyntaxError')
    if any(any(m in k for m in str_marks) for k in keys):
        ck.explain('instance:strings_escaped:')
        ck.explain('instance:program_ok:')
        ck.explain('instance:programs_all_ok')
    if any(k.startswith(('field:', 'text:', 'parse-error:', 'file:')) for k in keys):
        ck.explain('instance:keys_read:')
        ck.explain('instance:fields_paired:')
        ck.explain('instance:attrs_all_written:')
        ck.explain('instance:containment_')       # an edge needs both of its classes paired
        ck.explain('translate:VmfLite_gen')
        ck.explain('tie:')
    if any('multiblend' in k or 'alphablend' in k for k in keys):
        ck.explain('instance:optional_arrays_guard')
    if any('disp.coll' in k or 'disp.subdiv' in k or 'dispinfo' in k or k.startswith(('export-error', 'file:export-error')) for k in keys):
        ck.explain('instance:disp_flags_')
        ck.explain('translate:VmfFlags_gen')
    if any(k.startswith(('field:', 'text:', 'file:', 'parse-error:')) for k in keys):
        ck.explain('correspondence:vec_text_parse')
        ck.explain('correspondence:uvaxis_text_parse')
        ck.explain('correspondence:number_group_text_written')
        ck.explain('correspondence:plane_text_')
    if any('isplacement' in k or 'disp' in k for k in keys):
        ck.explain('instance:disp_shape')
        ck.explain('instance:disp_arrays_complete')
        ck.explain('instance:disp_row_keys_read')
        ck.explain('translate:VmfFieldsCfg_gen')
    if any(k.startswith(('parse-error:ValueError', 'file:parse-error:ValueError')) for k in keys):
        ck.explain('instance:disp_row_keys_read')      # an unreadable row index surfaces as ValueError from Side._iter_disp_row
    # a failed number_format obligation is explained by a field/text violation at that position of the format
    alias = {'rotation': ['.rot'], 'connections': ['outputs.delay', 'outputs.times', 'connections'], 'lightmapscale': ['lightmap'],
             'smoothing_groups': ['smooth'], 'startposition': ['disp.pos'], 'box': ['cordons'], 'point_data': ['strata_points']}
    for o in ck.obligations:
        m = re.fullmatch(r'instance:number_format:(?:editor@)?([^/]*)/([^#]*)#\d+', o['name'])
        if m and not o['ok']:
            marks = [x for x in (m.group(1), m.group(2)) if x and x != '<name>']
            marks += [y for x in list(marks) for y in alias.get(x, [])]
            if any(k.startswith(('field:', 'text:', 'file:field:', 'file:text:')) and any(x in k for x in marks) for k in keys):
                ck.explain(o['name'])
                ck.explain('tie:number_formats_on_exported_text')
    if any('outputs' in k or 'connections' in k or 'Bad output value' in k for k in keys):
        ck.explain('translate:VmfFieldsCfg_gen')
        ck.explain('instance:output_')
        ck.explain('correspondence:output_')
    if any('fixups' in k or 'replaceN' in k for k in keys):
        ck.explain('correspondence:fixup_init')
    if any(k.startswith('ids:') or k.endswith(('.id', ':id', ':visgroupid', ':groupid', ':nodeid')) for k in keys):
        ck.explain('instance:ids_preserved_when_asked')
        ck.explain('instance:parse_hands_preserve_ids_on')
        ck.explain('instance:id_managers_complete')
        ck.explain('correspondence:id_manager_programs')
        ck.explain('translate:VmfIds_gen')
    if any(k.endswith((':visgroupid', ':groupid', 'groupid|visgroupid', 'visgroupid|groupid')) or 'visgroupid' in k or 'groupid' in k for k in keys):
        ck.explain('instance:membership_lines_in_canonical_order')
        ck.explain('instance:membership_loops_found')
    if any('viewport' in k or 'views' in k or 'D view p' in k or 'D_view_p' in k for k in keys):
        ck.explain('instance:viewport_axis_tables_agree')
        ck.explain('correspondence:viewport_axis')
        ck.explain('translate:VmfViewport_gen')
    if any(k.startswith('history:') or k in ('field:solids.len', 'field:world.solids.len') for k in keys):
        ck.explain('instance:alias_')
        ck.explain('tie:alias_table')
        ck.explain('translate:VmfAlias_gen')
    if any(k.startswith('order:entities') or k.startswith('text::') for k in keys):
        ck.explain('instance:entity_blocks_read_in_file_order')
    if any('fixups' in k or 'replaceN' in k for k in keys):
        ck.explain('instance:fixup_index_written_2_read_2')
    # the composite obligation (hypotheses of c06_property) is explained when every failed component of it is
    comp = ('instance:program_ok:', 'instance:programs_all_ok', 'instance:kv_parser_sites_ok', 'instance:fields_paired:',
            'instance:ids_preserved_when_asked:', 'instance:membership_lines_in_canonical_order:', 'instance:viewport_axis_tables_agree',
            'instance:alias_')
    failed = [o for o in ck.obligations if not o['ok'] and o['name'].startswith(comp)]
    if failed and all(o.get('explained') for o in failed):
        ck.explain('instance:property_hypotheses_hold_for_todays_source')


def replay(data: dict) -> int:
    r = data['replay']
    if isinstance(r, dict) and 'spec' in r:
        res = U.check_spec(r['spec'])
        print(json.dumps(r['spec'])[:2000])
        for key, what, det in res:
            print('->', key, '|', what[:400])
        if not res:
            print('-> no violation on this tree')
        return 0
    if isinstance(r, dict) and 'manager' in r:
        from srctools.vmf import VMF
        got = getattr(VMF(preserve_ids=True), r['manager']).get_id(r['desired'])
        print(f"VMF(preserve_ids=True).{r['manager']}.get_id({r['desired']}) -> {got!r}" + ('' if got == r['desired'] else '   (not preserved)'))
        return 0
    if isinstance(r, dict) and 'class' in r and 'desired' in r:
        from srctools import vmf as V
        print(f"{r['class']}(range(1, 40)).get_id({r['desired']}) ->", getattr(V, r['class'])(range(1, 40)).get_id(r['desired']))
        return 0
    if isinstance(r, dict) and 'file' in r:
        from srctools.keyvalues import Keyvalues
        from srctools.vmf import VMF
        with open(REPO / r['file'], encoding='cp1251') as fh:
            v = VMF.parse(Keyvalues.parse(fh), preserve_ids=r['opts'].get('preserve_ids', False))
        for key, what, det in U.check_vmf(v, r['opts']):
            print('->', key, '|', what[:400])
        return 0
    print(json.dumps(r, indent=1)[:4000])
    return 0
