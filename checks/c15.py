"""C15 — VTF save/read round trip: metadata exact, pixels exact up to the format; bounds checks; mipmaps."""
from __future__ import annotations

import io
import itertools
import json
import random
import struct
from pathlib import Path

from harness import common
from harness.common import Ck, VERIF
from translate import c15_access, c15_container, c15_frame, c15_pixel

MANIFEST = dict(
    technique='Rocq proof (symbolic bit-level evaluation of the translated pixel codecs proved sound, so the round-trip laws hold '
              'for all 2^32 pixels / all stored values; induction over exponents for the mipmap table; linear arithmetic for '
              'bounds and scale_down indexes; induction over the chain of mipmap levels for the Frame life cycle; struct model for '
              'every pack/unpack site; whole-file theorem decode_file(encode_file v) by composition of the sites, directory, data '
              'blocks and offsets; induction over sequences and frames for the particle sheet) + ast translators behind a semantic '
              'normalisation (codecs, layout incl. symbolic evaluation of scale_down, side lists, abstract interpretation of class '
              'Frame, pack/unpack site census, flag expression trees, order of the file-writing events of save) + vm_compute '
              'correspondences (codecs, frame histories, container both directions incl. foreign full-chain files) + save/read oracle search; '
              'round 4: fail-closed census of every use of a frame\'s pixel array with an address-map model (shape of every access path, '
              'allocation sizes, copy guards), if statements of the pixel loop as ETest chains (bluescreen formats, hand proof + 256-value '
              'enumeration), per-pixel laws lifted to frames by induction and composed with the whole-file theorem; cross-path oracle; '
              'round 5: the abstract interpretation of class Frame also follows every exit by exception (explicit raise, assert, import, '
              'every call that can raise, partial multi-element stores) into per-method raise tables with a kernel-checked cleanliness '
              'boolean, census of attribute stores of VTF methods, rejected-call / failing-stream oracle, one whole-property theorem over '
              'the generated objects',
    text='Theorems in Props/C15.v, generic in the objects read from the source. Codecs (_py_vtf_readwrite.py): if the kernel-checked '
         'boolean rt_ok codec spec holds then load(save p) is exactly the documented quantisation of p for every byte-valued pixel '
         '(identity on the used channels for the 8-bit formats), every stored value is a byte; if sf_ok holds then save(load d) = d on '
         'every stored value (up to the don\'t-care X bits) and save(load(save p)) = save p. For all sizes 2^a x 2^b (induction) the '
         'mipmap loop of VTF.__init__ creates levels 0..min(a,b) with halved sizes, and save/read walk exactly the declared levels with '
         'those sizes; Frame pixel access with all four rejections present only touches bytes inside the buffer; scale_down reads the '
         '2x2 parent block inside the parent buffer and the bilinear filter writes the floor of its mean. Frame life cycle: the effect of '
         'every method of class Frame on (_data, _fileinfo) is computed from vtf.py by abstract interpretation and compared in the '
         'kernel with the tables of the model; for every chain of mipmap levels in any state (lazily read, loaded, written to, cleared) '
         'compute_mipmaps()+save() write for each level the file\'s pixels while it still has its file source, else its pixels, else '
         '(cleared) the scaled pixels written for the level above - so a file read lazily and saved again keeps its bytes (composed '
         'with the codec fixpoint theorem). Container: every struct.pack/unpack site of VTF.save/VTF.read and of the particle-sheet '
         'records is regenerated (format strings, field order on both sides, read lengths), the resource flag expressions as trees '
         'judged over the whole byte domain, the side lists of _depth_range and its callers, the loop nests, and the order in which '
         'save() records the offsets it patches in. Whole file (c15_whole_file_*): for every file whose values fit their fields, '
         'decode_file(encode_file v) returns the version, the header values with the real header size, the depth, every resource in '
         'order (flag bit 0x02 normalised, data blocks byte for byte), the particle sheet and the offsets of the thumbnail and of the '
         'first frame, which are where the thumbnail and the frames lie; composed with the side lists and loop order, every (frame, '
         'side/depth, mipmap) read() visits gets exactly the bytes save() produced for it, for any object version and written version '
         '(save(version=)), cubemap or volume; every fitting file can be encoded. Particle sheets: read_sheet(make_sheet qs) = qs for '
         'both sheet versions (version 0 keeps the first coordinate of a frame only). The premises are regenerated from '
         'vtf.py/_py_vtf_readwrite.py on every run and checked in the kernel (291 obligations); the generated codecs are compared with '
         'the Python codecs, the generated Frame effect tables are run by Coq on symbolic pixels against histories of operations on the '
         'implementation, implementation-saved files are decoded by the Coq container model and model-encoded files (also files that '
         'declare all mipmap levels, as other tools write them) are read by VTF.read; whole files are saved and read back over all '
         'sizes 1x1..64x64, frames, depth, cubemaps, versions 7.2-7.5 with overrides, all writable formats, resources and sheets. '
         'Round 4. Pixel access paths: every occurrence of <frame>._data in vtf.py is classified (test, None, allocation, whole copy, '
         'item access, or argument of load/save/scale_down/ppm_convert/alpha_flatten/PIL frombuffer/memoryview.cast; anything else stops '
         'the translation) and per site the rows/columns/bytes it uses are regenerated, also for every Frame(a, b) / frame_size(a, b); '
         'for every site whose description passes path_ok (instance obligation per site) the accepted coordinates are exactly '
         '[0,width) x [0,height) x [0,4) and the byte addressed is 4*(y*width + x) + c, so a pixel written through one path is read back '
         'through every other and no other coordinate changes (c15_every_pixel_path_agrees), frame[x, y] rejects nothing inside the '
         'frame, every allocation has 4*width*height bytes, whole arrays are copied only between frames of equal width and height; '
         'every site that addresses the frame table builds the key (frame, side-or-depth, mipmap) (roles of the key elements regenerated), '
         'so VTF.get finds the frame the constructor / read() stored. '
         'The RGB888/BGR888_BLUESCREEN codecs are translated (if statements) and equal the hand-written keyed codec, for which '
         'load(save p) = (0,0,0,0) if alpha < 128 or the colour is pure blue, else (r, g, b, 255), and save(load d) = d on all stored '
         'values. Frames: decode_frame(encode_frame ps) = map q ps for frames of any size, and (c15_saved_pixels_read_back_*) for every '
         '(frame, side, mipmap) read() visits in a file written by save(), decoding the bytes at the computed offset gives pixel by '
         'pixel the documented quantisation of the pixels saved. A cross-path oracle writes every pixel of 15 mostly non-square '
         'shapes through five paths and reads it through nine (incl. PIL, the PPM handed to tkinter, stand-in wx images).',
    note='Trusted: Coq kernel + vm_compute, translate/c15_norm.py (behaviour-preserving rewrites before the translators: constants, '
         'precompiled structs, product loops, guard clauses, copy propagation of locals that name a side-effect-free expression over '
         'stable attributes), c15_pixel.py (incl. its polynomial evaluator for scale_down), c15_frame.py (abstract interpreter; '
         'cross-checked dynamically by the frame-history correspondence), c15_container.py (its tables of expression -> field name), '
         'the model of byte-valued buffers, CPython struct as modelled by Bin/Struct.v (floats as bit patterns; NaN payloads not '
         'exercised). encode_file/decode_file/make_sheet/read_sheet are hand-written models of VTF.save/VTF.read/make_data/'
         'from_resource: the theorems are about them; their tie to the source is the regenerated sites, flag trees, side lists, loop '
         'nests and event order (instance obligations), the example files evaluated in the kernel over the generated formats, and the '
         'two-way correspondence on every run - not a refinement proof of the Python control flow. The '
         'nearest-neighbour filters beyond their offset table and the thumbnail regeneration policy are searched, not modelled. '
         'translate/c15_access.py is trusted for the classification of the uses of _data, for the argument conventions of PIL '
         'frombuffer / memoryview.cast / wx.Image (fixed table) and for naming the role of unresolvable names by the substrings '
         'width/height; a shaped view is modelled for non-negative indexes (negative ones wrap the Python way inside the array). The '
         'if -> ETest encoding of the bluescreen conditions is valid for byte operands. Known '
         'findings (recorded, not repaired): mipmap_count is one less than the number of levels (mipmap-count-off-by-one), '
         'RGB565/BGR565 exchange R and B on a round trip (rgb565-rb-swap) - both carved out of the theorems as *_pinned / *_refuted '
         'statements. Repaired in round 3: save(version=) across the 7.5 sphere-map boundary for cubemaps. DXT/ATI formats are not '
         'writable from Python and outside the property. The Cython twin cannot be built here and is not verified.',
)

IMPORTS = ['Coq.NArith.NArith', 'Coq.ZArith.ZArith', 'Coq.Lists.List', 'SV.Fmt.VtfPixelExpr', 'SV.Fmt.VtfBluescreen', 'SV.Fmt.VtfLayout', 'SV.Fmt.VtfSides',
           'SV.Gen.PixelCodecs_gen', 'SV.Gen.VtfLayout_gen']
IMPORTS_CONT = ['Coq.NArith.NArith', 'Coq.ZArith.ZArith', 'Coq.Lists.List', 'Coq.Strings.String', 'Coq.Bool.Bool', 'SV.Bin.Struct',
                'SV.Fmt.VtfContainer', 'SV.Fmt.VtfWholeFile', 'SV.Gen.VtfContainer_gen']
IMPORTS_ACCESS = ['Coq.ZArith.ZArith', 'Coq.Lists.List', 'Coq.Strings.String', 'Coq.Bool.Bool', 'SV.Fmt.VtfLayout', 'SV.Fmt.VtfAccess',
                  'SV.Gen.VtfLayout_gen', 'SV.Gen.VtfAccess_gen']
IMPORTS_WHOLE = ['Coq.NArith.NArith', 'Coq.ZArith.ZArith', 'Coq.Lists.List', 'Coq.Bool.Bool', 'SV.Fmt.VtfPixelExpr', 'SV.Gen.PixelCodecs_gen',
                 'SV.Fmt.VtfC15WholeProofs']
IMPORTS_FRAME = ['Coq.Lists.List', 'Coq.Strings.String', 'Coq.Bool.Bool', 'SV.Fmt.VtfFrameSM', 'SV.Fmt.VtfFrameRaise', 'SV.Gen.VtfFrameSM_gen']

# format (lower case) -> (specification of load-after-save, canonical stored form)
SPECS = {
    'rgba8888': ('spec_rgba', 'ident 4'), 'bgra8888': ('spec_rgba', 'ident 4'), 'argb8888': ('spec_rgba', 'ident 4'),
    'abgr8888': ('spec_rgba', 'ident 4'), 'uvlx8888': ('spec_rgba', 'ident 4'), 'uvwq8888': ('spec_rgba', 'ident 4'),
    'rgb888': ('spec_rgb', 'ident 3'), 'bgr888': ('spec_rgb', 'ident 3'), 'bgrx8888': ('spec_rgb', 'canon_bgrx8888'),
    'a8': ('spec_a8', 'ident 1'), 'uv88': ('spec_uv88', 'ident 2'),
    'i8': ('spec_i8', 'ident 1'), 'ia88': ('spec_ia88', 'ident 2'),
    'rgb565': ('spec_565', 'ident 2'), 'bgr565': ('spec_565', 'ident 2'),
    'bgra4444': ('spec_4444', 'ident 2'), 'bgra5551': ('spec_5551', 'ident 2'), 'bgrx5551': ('spec_x5551', 'canon_x5551'),
}
# Known finding rgb565-rb-swap: for these formats the obligation accepts "correct" or "exactly the known swap".
SWAP_565 = {'rgb565', 'bgr565'}
# the two keyed formats: `if` statements, compared with the hand-written codec of Fmt/VtfBluescreen.v (format -> stored as b, g, r?)
BLUESCREEN = {'rgb888_bluescreen': 'false', 'bgr888_bluescreen': 'true'}
EIGHT_BIT = {'rgba8888', 'bgra8888', 'argb8888', 'abgr8888', 'uvlx8888', 'uvwq8888', 'rgb888', 'bgr888', 'bgrx8888', 'a8', 'uv88'}


def _patch_known() -> None:
    """known_findings.json is assembled from known_findings.d/*.json at integration time (tools/mkknown.py); until then
    read this property's own entries as well, so the branch is self-contained."""
    orig = common.load_known
    if getattr(orig, '_c15', False):
        return

    def load_known() -> dict:
        k = orig()
        p = VERIF / 'known_findings.d' / 'C15.json'
        if p.exists():
            # this property's own file is authoritative for C15 (an entry removed there because the defect was repaired
            # must not linger in the assembled file until the next integration)
            d = json.loads(p.read_text())
            k['known'] = [e for e in k.get('known', []) if e.get('property') != 'C15'] + [e for e in d.get('known', []) if e.get('property') == 'C15']
        return k
    load_known._c15 = True
    common.load_known = load_known


# ================================================================================================ reference semantics
def q(n: int, x: int) -> int:
    """documented quantisation: keep the top n bits, duplicate the top bits into the vacated low bits."""
    t = (x >> (8 - n)) << (8 - n)
    return t | (t >> n)


ID = bytes(range(256))
Q4 = bytes(q(4, x) for x in range(256))
Q5 = bytes(q(5, x) for x in range(256))
Q6 = bytes(q(6, x) for x in range(256))
A1 = bytes(255 if x >= 128 else 0 for x in range(256))
K0 = bytes(256)
K255 = bytes([255]) * 256
CHANNELWISE = {
    'RGBA8888': (ID, ID, ID, ID), 'BGRA8888': (ID, ID, ID, ID), 'ARGB8888': (ID, ID, ID, ID), 'ABGR8888': (ID, ID, ID, ID),
    'UVLX8888': (ID, ID, ID, ID), 'UVWQ8888': (ID, ID, ID, ID),
    'RGB888': (ID, ID, ID, K255), 'BGR888': (ID, ID, ID, K255), 'BGRX8888': (ID, ID, ID, K255),
    'RGB565': (Q5, Q6, Q5, K255), 'BGR565': (Q5, Q6, Q5, K255),
    'BGRA4444': (Q4, Q4, Q4, Q4), 'BGRA5551': (Q5, Q5, Q5, A1), 'BGRX5551': (Q5, Q5, Q5, K255),
    'A8': (K0, K0, K0, ID), 'UV88': (ID, ID, K0, K255),
}


def ref_quantise(fmt: str, rgba: bytes) -> bytes:
    """What a frame must look like after save+read in format `fmt` (independent of the source and of the translator)."""
    out = bytearray(len(rgba))
    if fmt in CHANNELWISE:
        for c, t in enumerate(CHANNELWISE[fmt]):
            out[c::4] = rgba[c::4].translate(t)
        return bytes(out)
    if fmt in ('I8', 'IA88'):
        g = bytes((rgba[i] + rgba[i + 1] + rgba[i + 2]) // 3 for i in range(0, len(rgba), 4))
        out[0::4] = out[1::4] = out[2::4] = g
        out[3::4] = rgba[3::4] if fmt == 'IA88' else bytes([255]) * (len(rgba) // 4)
        return bytes(out)
    if fmt in ('RGB888_BLUESCREEN', 'BGR888_BLUESCREEN'):
        for i in range(0, len(rgba), 4):
            r, g, b, a = rgba[i:i + 4]
            if a < 128 or (r, g, b) == (0, 0, 255):     # transparent pixels are made blue; pure blue is transparent
                out[i:i + 4] = b'\0\0\0\0'
            else:
                out[i:i + 4] = bytes((r, g, b, 255))
        return bytes(out)
    raise KeyError(fmt)


def swap_rb(rgba: bytes) -> bytes:
    out = bytearray(rgba)
    out[0::4], out[2::4] = rgba[2::4], rgba[0::4]
    return bytes(out)


def ref_downscale(src: bytes, sw: int, sh: int, w: int, h: int, filt: int) -> bytes:
    """Reference mipmap: filt 0..3 = the corner texel of the parent block, 4 = floor of the mean of the block."""
    fx = 2 if sw != w else 1
    fy = 2 if sh != h else 1
    out = bytearray(4 * w * h)
    for y in range(h):
        for x in range(w):
            xs = [fx * x, fx * x + (fx - 1)]
            ys = [fy * y, fy * y + (fy - 1)]
            blk = [(xs[0], ys[0]), (xs[1], ys[0]), (xs[0], ys[1]), (xs[1], ys[1])]
            for c in range(4):
                vals = [src[4 * (sw * by + bx) + c] for bx, by in blk]
                out[4 * (w * y + x) + c] = vals[filt] if filt < 4 else sum(vals) // 4
    return bytes(out)


def f32(x: float) -> float:
    return struct.unpack('<f', struct.pack('<f', x))[0]


# ================================================================================================ codec correspondence
PRE = '''Import ListNotations. Open Scope N_scope.
Definition pack (l : list N) : N := fold_right (fun x acc => x + 256 * acc) 0 l.
Fixpoint unpack (n : nat) (v : N) : list N := match n with O => [] | S k => (v mod 256) :: unpack k (v / 256) end.
Definition all1 : list (list N) := map (fun lo => [lo]) (Nrange 256).
Definition all2 : list (list N) := flat_map (fun hi => map (fun lo => [lo; hi]) (Nrange 256)) (Nrange 256).
Definition fp (l : list N) : N := fold_left (fun acc v => N.land (N.shiftl acc 19 + N.shiftl acc 3 + acc + v + 1) 2305843009213693951) l 7.
'''


def py_fp(vals) -> int:
    acc = 7
    for v in vals:
        acc = ((acc << 19) + (acc << 3) + acc + v + 1) & 2305843009213693951
    return acc


def impl_save(fmt, pixels: list[tuple[int, int, int, int]]) -> list[tuple[int, ...]]:
    from array import array
    from srctools import _py_vtf_readwrite as rw
    n = len(pixels)
    pix = array('B', [c for p in pixels for c in p])
    data = bytearray(fmt.frame_size(n, 1))
    rw.save(fmt, pix, data, n, 1)
    bpp = len(data) // n
    return [tuple(data[i * bpp:(i + 1) * bpp]) for i in range(n)]


def impl_load(fmt, stored: list[tuple[int, ...]]) -> list[tuple[int, int, int, int]]:
    from array import array
    from srctools import _py_vtf_readwrite as rw
    n = len(stored)
    pix = array('B', bytes(4 * n))
    rw.load(fmt, pix, bytes(c for s in stored for c in s), n, 1)
    return [tuple(pix[4 * i:4 * i + 4]) for i in range(n)]


def pk(t) -> int:
    return sum(v << (8 * i) for i, v in enumerate(t))


def corr_codecs(ck: Ck, cod: dict):
    """Generated Coq codecs (evaluated by vm_compute) and the translator's IR (evaluated in Python) against the running
    Python codecs.  The kernel evaluations are started in the background (six coqc processes); the function returned
    waits for them and records the outcome, so that the caller can run its other Coq stages meanwhile (round 4: wall time
    on a loaded machine).  Inputs are drawn from ck.rng here, results are recorded by the returned function: both at fixed
    points of run(), so the run stays deterministic."""
    from concurrent.futures import ThreadPoolExecutor
    from srctools.vtf import ImageFormats
    n_rand = ck.budget(250, 2500)
    full_sweep = ck.budget(0, 1) == 1
    special = [(0, 0, 0, 0), (255, 255, 255, 255), (255, 0, 0, 255), (0, 255, 0, 255), (0, 0, 255, 255), (0, 0, 255, 0),
               (1, 2, 3, 4), (127, 128, 129, 127), (128, 127, 126, 128), (7, 3, 7, 127), (248, 252, 248, 128), (8, 4, 8, 129)]
    jobs: list[tuple[list[str], list[tuple]]] = []
    bad_ir: list[str] = []
    bad: list[dict] = []
    for name, c in cod.items():
        fmt = ImageFormats[name.upper()]
        bpp = c['bpp']
        f_save, f_load = c15_pixel.ir_compile(c['save']), c15_pixel.ir_compile(c['load'])
        pixels = list(special)
        for ch in range(4):
            for v in range(256):
                p = [ck.rng.randrange(256) for _ in range(4)] if v % 2 else [0, 0, 0, 0]
                p[ch] = v
                pixels.append(tuple(p))
        pixels += [tuple(ck.rng.randrange(256) for _ in range(4)) for _ in range(n_rand)]
        stored_i = impl_save(fmt, pixels)
        loaded_i = impl_load(fmt, stored_i)
        # IR vs implementation: the sample, then every stored value for <= 2 bytes per pixel
        ck.count('codec_pixels', len(pixels))
        for p, s, l in zip(pixels, stored_i, loaded_i):
            ck.seen(('px', name, p))
            if f_save(p) != s or f_load(s) != l:
                bad_ir.append(f'{name}: pixel {p}: impl stored {s} loaded {l}; translated {f_save(p)} {f_load(s)}')
                break
        if bpp <= 2:
            allst = [tuple((v >> (8 * i)) & 255 for i in range(bpp)) for v in range(256 ** bpp)]
        else:
            allst = [tuple(ck.rng.randrange(256) for _ in range(bpp)) for _ in range(4096)]
        load_all = impl_load(fmt, allst)
        ck.count('codec_stored_values', len(allst))
        for s, l in zip(allst, load_all):
            if f_load(s) != l:
                bad_ir.append(f'{name}: stored {s}: impl loaded {l}; translated {f_load(s)}')
                break
        ck.hist('codec_stored_sweep', f'{name}:{"exhaustive" if bpp <= 2 else "sample"}:{len(allst)}')
        # Coq: exact on the sample (both directions), fingerprint over the exhaustive stored sweep
        exprs, meta = [], []
        lit = '[' + ';'.join(str(pk(p)) for p in pixels) + ']'
        lit2 = '[' + ';'.join(str(pk(s)) for s in stored_i) + ']'
        if full_sweep:
            exprs.append(f'map (fun v => pack (run (save_e codec_{name}) (unpack 4 v))) {lit}')
            meta.append(('save', name, pixels, [pk(s) for s in stored_i]))
            exprs.append(f'map (fun v => pack (run (load_e codec_{name}) (unpack {bpp} v))) {lit2}')
            meta.append(('load', name, stored_i, [pk(l) for l in loaded_i]))
        else:
            # quick tier: the kernel evaluates every sample pixel but prints only a 61-bit fingerprint of the results
            # (printing dominates the cost); a mismatch escalates to the exact comparison of the thorough tier
            exprs.append(f'fp (map (fun v => pack (run (save_e codec_{name}) (unpack 4 v))) {lit})')
            meta.append(('fp', name, len(pixels), py_fp(pk(s) for s in stored_i)))
            exprs.append(f'fp (map (fun v => pack (run (load_e codec_{name}) (unpack {bpp} v))) {lit2})')
            meta.append(('fp', name, len(stored_i), py_fp(pk(l) for l in loaded_i)))
        if bpp == 1 or (bpp == 2 and full_sweep):
            exprs.append(f'fp (map (fun d => pack (run (load_e codec_{name}) d)) all{bpp})')
            meta.append(('fp', name, None, py_fp(pk(l) for l in load_all)))
        elif bpp == 2:
            # quick tier: the kernel evaluates a random sixteenth of the 2^16 stored values (the Python evaluation of the
            # translated expressions above is still exhaustive); the thorough tier and any broken tie run all of them
            sub = sorted(ck.rng.sample(range(65536), 4096))
            lit3 = '[' + ';'.join(str(v) for v in sub) + ']'
            exprs.append(f'fp (map (fun v => pack (run (load_e codec_{name}) (unpack 2 v))) {lit3})')
            meta.append(('fp', name, None, py_fp(pk(load_all[v]) for v in sub)))
        jobs.append((exprs, meta))
    ck.obligation('correspondence:translator-ir', not bad_ir,
                  f'{len(cod)} codecs: translated expressions evaluated in Python vs srctools._py_vtf_readwrite on per-channel sweeps, '
                  f'random pixels and all stored values of the 1- and 2-byte formats: {len(bad_ir)} disagreements ' + '; '.join(bad_ir[:3]))
    if bad_ir:
        ck.tie_broken.append('translator IR disagrees with the running codecs: ' + bad_ir[0])
    jobs.sort(key=lambda j: -len(j[0]))
    groups = [jobs[i::6] for i in range(6)]
    groups = [g for g in groups if g]

    def work(ig):
        i, g = ig
        return ck.coq_eval(IMPORTS, [e for ex, _ in g for e in ex], name=f'codecs{i}', preamble=PRE, timeout=900)
    ex = ThreadPoolExecutor(max_workers=6)
    futures = [ex.submit(work, ig) for ig in enumerate(groups)]

    def finish() -> None:
        results = [f.result() for f in futures]
        ex.shutdown()
        _corr_codecs_finish(ck, groups, results, full_sweep, special)
    return finish


def _corr_codecs_finish(ck: Ck, groups, results, full_sweep, special) -> None:
    from srctools.vtf import ImageFormats
    bad: list[dict] = []
    if any(r is None for r in results):
        ck.obligation('correspondence:coq-codecs', False, 'generated codecs could not be evaluated in Coq')
        ck.tie_broken.append('correspondence codecs: Coq evaluation failed')
        return
    n_exact = n_fp = 0
    for g, vals in zip(groups, results):
        metas = [m for _, ms in g for m in ms]
        for (kind, name, inp, exp), v in zip(metas, vals):
            if kind == 'fp':
                n_fp += 1
                ck.count('coq_fingerprinted_sweeps')
                if inp:
                    n_exact += inp
                if int(v) != exp:
                    bad.append({'format': name, 'what': 'fingerprint of the kernel evaluation differs from the implementation', 'coq': v, 'impl': exp})
                continue
            got = common.parse_coq_N_list(v)
            n_exact += len(got)
            if got != exp:
                i = next((i for i, (a, b) in enumerate(zip(got, exp)) if a != b), None)
                bad.append({'format': name, 'direction': kind, 'input': inp[i] if i is not None else None,
                            'coq': got[i] if i is not None else len(got), 'impl': exp[i] if i is not None else len(exp)})
    ck.count('coq_codec_evaluations', n_exact)
    ck.obligation('correspondence:coq-codecs', not bad,
                  f'{n_exact} save/load evaluations of Gen/PixelCodecs_gen.v by vm_compute equal the Python codecs (' + ('value by value' if full_sweep else 'by 61-bit fingerprint per format and direction; value by value in the thorough tier') + '); '
                  f'{n_fp} stored-value sweeps (all 2^8 values; ' + ('all 2^16' if full_sweep else 'a random 2^12 of the 2^16') + f' values of the 2-byte formats) agree by 61-bit fingerprint: {len(bad)} disagreements')
    if bad:
        ck.tie_broken.append('correspondence generated codecs vs _py_vtf_readwrite')
        ck.extra['codec_disagreement'] = bad[:5]
    ck.sample({'codec': 'bgra5551', 'pixel': special[9], 'impl_stored': impl_save(ImageFormats.BGRA5551, [special[9]])[0],
               'impl_loaded_back': impl_load(ImageFormats.BGRA5551, impl_save(ImageFormats.BGRA5551, [special[9]]))[0]})


# ================================================================================================ codec-level oracle
def search_codecs(ck: Ck) -> None:
    """Property at codec level on the implementation, all writable formats (also the unmodelled bluescreen ones):
    load(save p) = documented quantisation, save(load(save p)) = save p."""
    from srctools.vtf import ImageFormats
    from srctools import _py_vtf_readwrite as rw
    n = ck.budget(600, 6000)
    for fmt in rw._SAVE:
        if fmt not in rw._LOAD:
            continue
        name = fmt.name
        pixels = [(0, 0, 255, 255), (0, 0, 255, 0), (0, 0, 0, 0), (255, 255, 255, 255), (255, 0, 0, 255), (10, 20, 30, 127), (10, 20, 30, 128)]
        pixels += [tuple(ck.rng.randrange(256) for _ in range(4)) for _ in range(n)]
        try:
            st = impl_save(fmt, pixels)
            ld = impl_load(fmt, st)
            st2 = impl_save(fmt, ld)
        except Exception as e:
            ck.violation(f'codec-raises-{name.lower()}', f'{name}: codec raised {type(e).__name__}: {e}', {'codec': name, 'pixels': pixels[:8]})
            continue
        flat = bytes(c for p in pixels for c in p)
        exp = ref_quantise(name, flat)
        got = bytes(c for p in ld for c in p)
        ck.count('codec_oracle_pixels', len(pixels))
        ck.hist('codec_oracle_formats', name)
        if got != exp:
            if name in ('RGB565', 'BGR565') and got == swap_rb(exp):
                key, why = 'rgb565-rb-swap', 'R and B exchanged'
                i = next(i for i in range(len(pixels)) if got[4 * i:4 * i + 4] != exp[4 * i:4 * i + 4])
            else:
                key, why = f'pixel-mismatch-{name.lower()}', 'not the documented quantisation'
                alt = swap_rb(exp) if name in ('RGB565', 'BGR565') else exp
                i = next(i for i in range(len(pixels)) if got[4 * i:4 * i + 4] not in (exp[4 * i:4 * i + 4], alt[4 * i:4 * i + 4]))
            ck.violation(key, f'{name}: load(save({pixels[i]})) = {tuple(got[4 * i:4 * i + 4])}, documented quantisation '
                              f'{tuple(exp[4 * i:4 * i + 4])} ({why})', {'codec': name, 'pixel': list(pixels[i])})
        if st2 != st:
            i = next(i for i in range(len(pixels)) if st[i] != st2[i])
            if name in ('RGB565', 'BGR565') and got == swap_rb(exp):
                key = 'rgb565-rb-swap'
            else:
                key = f'stored-not-fixpoint-{name.lower()}'
            ck.violation(key, f'{name}: pixel {pixels[i]} stored as {st[i]}, loaded and stored again as {st2[i]}',
                         {'codec': name, 'pixel': list(pixels[i])})


# ================================================================================================ whole-file oracle
FLAG_POOL = [0x1, 0x2, 0x4, 0x8, 0x10, 0x80, 0x100, 0x200, 0x2000, 0x800000, 0x20000000, 0x40000000]


def gen_config(rng: random.Random, w: int, h: int, fmts: list[str]) -> dict:
    cube = rng.random() < 0.2
    ver = rng.choice([2, 3, 4, 5])
    cfg = {
        'w': w, 'h': h, 'frames': rng.choice([1, 1, 2, 3]), 'depth': 1 if cube else rng.choice([1, 1, 2, 3, 4]), 'cube': cube,
        'version': ver, 'fmt': rng.choice(fmts), 'thumb': rng.choice(fmts + ['NONE']),
        'flags': sum(set(rng.sample(FLAG_POOL, rng.choice([0, 1, 3])))),
        'ref': [f32(rng.uniform(0, 1)) for _ in range(3)], 'bump': f32(rng.choice([1.0, 0.5, rng.uniform(-4, 4)])),
        'first_frame': rng.choice([0, 0, 1, 65535]),
        'mode': rng.choice(['explicit', 'explicit', 'generated']), 'seed': rng.randrange(1 << 30),
        'resources': [], 'sheet': None, 'sheet_ver': 1, 'save_version': None,
    }
    if ver >= 3:
        ids = rng.sample(['CRC', 'LOD', 'TSO', 'KVD', 'ABC', 'zz\x00', '\x02\x00\x00'], rng.choice([0, 0, 1, 2, 4]))
        for rid in ids:
            if rng.random() < 0.5:
                cfg['resources'].append([rid, rng.choice([0, 2, 2, 0x40, 0x42]), rng.choice([0, 1, 0xFFFFFFFF, rng.randrange(1 << 32)])])
            else:
                cfg['resources'].append([rid, rng.choice([0, 0, 2, 0x40]), rng.randbytes(rng.choice([0, 1, 5, 40])).hex()])
        if rng.random() < 0.3:
            sv = rng.choice([0, 1, 1])
            seqs = {}
            for sn in rng.sample(range(64), rng.choice([1, 2, 5])):
                frs = []
                for _ in range(rng.choice([0, 1, 3])):
                    tcs = [[f32(rng.uniform(0, 1)) for _ in range(4)] for _ in range(4)]
                    if sv == 0:
                        tcs = [tcs[0]] * 4
                    frs.append([f32(rng.uniform(0, 2)), tcs])
                seqs[str(sn)] = {'frames': frs, 'clamp': rng.random() < 0.5, 'duration': f32(rng.uniform(0, 10))}
            cfg['sheet'], cfg['sheet_ver'] = seqs, sv
    if rng.random() < (0.4 if cube else 0.15):     # cubemaps: the side list changes at 7.5 (sphere map), so overrides matter most there
        cfg['save_version'] = rng.choice([v for v in (2, 3, 4, 5) if (v >= 3 or (not cfg['resources'] and not cfg['sheet']))])
    return cfg


def _pixels(rng: random.Random, n: int) -> bytes:
    r = rng.random()
    if r < 0.7:
        return rng.randbytes(4 * n)
    if r < 0.8:       # grey with alpha
        return b''.join(bytes([v, v, v, rng.randrange(256)]) for v in rng.randbytes(n))
    pool = [b'\0\0\xff\xff', b'\0\0\xff\0', b'\xff\xff\xff\xff', b'\0\0\0\0', b'\xff\0\0\x80', b'\x07\x03\x07\x7f', rng.randbytes(4)]
    return b''.join(rng.choice(pool) for _ in range(n))


def run_config(cfg: dict) -> list[tuple[str, str]]:
    """_run_config under an alarm: a configuration on which save/read does not come back is a failing input."""
    try:
        return _with_alarm(60, lambda: _run_config(cfg))
    except TimeoutError as e:
        return [('save-read-does-not-return', f'building, saving and reading back this texture: {e} (milliseconds on the unchanged tree)')]


def get_probe(obj, what: str) -> list[tuple[str, str]]:
    """VTF.get(frame=, depth= | side=, mipmap=) is how a user reaches a frame: for every key of the frame table it must hand out
    exactly the frame stored under that key, and refuse a (frame, side/depth, mipmap) that is not in the table."""
    from srctools.vtf import VTFFlags
    cube = VTFFlags.ENVMAP in obj.flags
    out: list[tuple[str, str]] = []
    for k, fr in obj._frames.items():
        kw = {'frame': k[0], 'mipmap': k[2], ('side' if cube else 'depth'): k[1]}
        try:
            got = obj.get(**kw)
        except Exception as e:      # noqa: BLE001
            out.append((f'get-raises-{type(e).__name__}', f'{what}: get({kw}) raised {type(e).__name__}: {e} for a key of the frame table'))
            break
        if got is not fr:
            other = next((k2 for k2, f2 in obj._frames.items() if f2 is got), None)
            out.append(('get-returns-another-frame', f'{what}: get(frame={k[0]}, {"side" if cube else "depth"}={k[1]!r}, mipmap={k[2]}) returns the frame stored under {other}'))
            break
    if obj._frames:
        nf, nm = 1 + max(k[0] for k in obj._frames), 1 + max(k[2] for k in obj._frames)
        side = next(iter(obj._frames))[1]
        for kw in ({'frame': nf, 'mipmap': 0}, {'frame': 0, 'mipmap': nm}):
            kw[('side' if cube else 'depth')] = side
            try:
                obj.get(**kw)
            except (KeyError, IndexError, ValueError):
                continue
            except Exception as e:      # noqa: BLE001
                out.append((f'get-raises-{type(e).__name__}', f'{what}: get({kw}) outside the frame table raised {type(e).__name__}: {e}'))
                continue
            out.append(('get-accepts-key-outside-the-frame-table', f'{what}: get({kw}) returns a frame; the table has {nf} frame(s) and {nm} level(s)'))
    return out


def _run_config(cfg: dict) -> list[tuple[str, str]]:
    """Build the VTF described by cfg, save it, read it back, and return [(violation key, description)]."""
    from srctools.vtf import VTF, ImageFormats, VTFFlags, Resource, ResourceID, SheetSequence, TexCoord
    from srctools.math import Vec
    probs: list[tuple[str, str]] = []
    rng = random.Random(cfg['seed'])
    fmt, thumb = ImageFormats[cfg['fmt']], ImageFormats[cfg['thumb']]
    flags = VTFFlags(cfg['flags'] | (0x4000 if cfg['cube'] else 0))
    sheet = {}
    if cfg['sheet']:
        for sn, s in cfg['sheet'].items():
            sheet[int(sn)] = SheetSequence([(d, *[TexCoord(*t) for t in tcs]) for d, tcs in s['frames']], s['clamp'], s['duration'])
    try:
        vtf = VTF(cfg['w'], cfg['h'], version=(7, cfg['version']), ref=Vec(*cfg['ref']), frames=cfg['frames'], bump_scale=cfg['bump'],
                  sheet_info=sheet, flags=flags, fmt=fmt, thumb_fmt=thumb, depth=cfg['depth'])
    except Exception as e:
        return [('constructor-raises', f'VTF(...) raised {type(e).__name__}: {e}')]
    vtf.first_frame_index = cfg['first_frame']
    for rid, fl, data in cfg['resources']:
        key = rid.encode('latin1')
        try:
            key = ResourceID(key)
        except ValueError:
            pass
        vtf.resources[key] = Resource(fl, data if isinstance(data, int) else bytes.fromhex(data))
    keys0 = set(vtf._frames)
    dims0 = {k: (f.width, f.height) for k, f in vtf._frames.items()}
    probs += get_probe(vtf, 'constructed object')
    n_levels = 1 + max(k[2] for k in keys0)
    for k in sorted(keys0, key=lambda k: (k[0], getattr(k[1], 'value', k[1]), k[2])):
        fr = vtf._frames[k]
        if cfg['mode'] == 'explicit' or k[2] == 0:
            fr.copy_from(_pixels(rng, fr.width * fr.height))
    if cfg['mode'] == 'explicit':
        vtf._low_res.copy_from(_pixels(rng, vtf._low_res.width * vtf._low_res.height))
    # ---- mip table of the constructed object
    for k, (fw, fh) in dims0.items():
        if (fw, fh) != (max(cfg['w'] >> k[2], 1), max(cfg['h'] >> k[2], 1)):
            probs.append(('mip-dimensions-not-halved', f'level {k[2]} of {cfg["w"]}x{cfg["h"]} is {fw}x{fh}'))
    off_by_one = vtf.mipmap_count == n_levels - 1
    if vtf.mipmap_count != n_levels:
        probs.append(('mipmap-count-off-by-one' if off_by_one else 'mipmap-count-wrong',
                      f'{cfg["w"]}x{cfg["h"]}: {n_levels} mipmap levels created, mipmap_count == {vtf.mipmap_count}'))
    # ---- save
    sv = (7, cfg['save_version']) if cfg['save_version'] is not None else None
    buf = io.BytesIO()
    try:
        vtf.save(buf, version=sv, sheet_seq_version=cfg['sheet_ver'])
    except Exception as e:
        return probs + [(f'save-raises-{type(e).__name__}', f'save raised {type(e).__name__}: {e}')]
    b1 = buf.getvalue()
    orig = {k: bytes(f._data) for k, f in vtf._frames.items() if f._data is not None}
    # a cubemap written as another version has the sides of THAT version: the sphere map is dropped when writing 7.5, and a
    # 7.5 cubemap written as 7.2-7.4 gets a blank (opaque black) sphere map; the object itself is unchanged
    if cfg['cube'] and sv is not None and (sv[1] >= 5) != (cfg['version'] >= 5):
        from srctools.vtf import CubeSide
        if keys0 != set(vtf._frames):
            probs.append(('save-changes-frame-table', 'save(version=) changed the frame table of the object'))
        if sv[1] >= 5:
            keys0 = {k for k in keys0 if k[1] is not CubeSide.SPHERE}
        else:
            for k in [k for k in keys0 if k[1] is CubeSide.FRONT]:
                ks = (k[0], CubeSide.SPHERE, k[2])
                keys0.add(ks)
                dims0[ks] = dims0[k]
                orig[ks] = bytes((0, 0, 0, 255)) * (dims0[k][0] * dims0[k][1])
    orig_low = bytes(vtf._low_res._data) if vtf._low_res._data is not None else None
    # ---- generated mipmaps are floor-averages of their parent
    if cfg['mode'] == 'generated':
        for k in sorted(orig, key=lambda k: k[2]):
            if k[2] == 0 or (k[0], k[1], k[2] - 1) not in orig or k[2] >= vtf.mipmap_count:
                continue
            pw, ph = dims0[(k[0], k[1], k[2] - 1)]
            exp = ref_downscale(orig[(k[0], k[1], k[2] - 1)], pw, ph, *dims0[k], 4)
            if orig[k] != exp:
                probs.append(('generated-mipmap-not-parent-average', f'level {k[2]} of frame {k[0]}/{k[1]} is not the floor-mean of level {k[2] - 1}'))
                break
    # ---- read back
    try:
        v2 = VTF.read(io.BytesIO(b1))
        v2.load()
    except Exception as e:
        return probs + [(f'read-raises-{type(e).__name__}', f'reading the saved file raised {type(e).__name__}: {e}')]
    probs += get_probe(v2, 'read-back object')
    exp_version = sv or (7, cfg['version'])
    meta = {
        'width': (vtf.width, v2.width), 'height': (vtf.height, v2.height), 'depth': (vtf.depth, v2.depth),
        'frame_count': (vtf.frame_count, v2.frame_count), 'first_frame_index': (vtf.first_frame_index, v2.first_frame_index),
        'mipmap_count': (vtf.mipmap_count, v2.mipmap_count), 'flags': (vtf.flags, v2.flags), 'format': (vtf.format, v2.format),
        'low_format': (vtf.low_format, v2.low_format), 'reflectivity': (tuple(vtf.reflectivity), tuple(v2.reflectivity)),
        'bumpmap_scale': (vtf.bumpmap_scale, v2.bumpmap_scale), 'version': (exp_version, v2.version),
        'low_res_size': ((vtf._low_res.width, vtf._low_res.height), (v2._low_res.width, v2._low_res.height)),
    }
    for name, (a, b) in meta.items():
        if a != b:
            probs.append((f'meta-{name}', f'{name}: saved {a!r}, read back {b!r}'))
    if exp_version[1] >= 3:
        # bit 0x02 of the flags says "the value is stored in the directory entry itself": save sets it from the type of the data
        want = [(k, Resource((r.flags | 2) if isinstance(r.data, int) else (r.flags & ~2), r.data)) for k, r in vtf.resources.items()]
        if want != list(v2.resources.items()):
            probs.append(('resources-differ', f'resources saved {vtf.resources!r}, read back {v2.resources!r}'))
        s1 = {k: (s.frames, bool(s.clamp), s.duration) for k, s in vtf.sheet_info.items()}
        s2 = {k: (s.frames, bool(s.clamp), s.duration) for k, s in v2.sheet_info.items()}
        if s1 != s2 or list(s1) != list(s2):
            probs.append(('sheet-differs', f'sheet sequences differ after the round trip (sheet version {cfg["sheet_ver"]})'))
    # ---- frame table
    keys2 = set(v2._frames)
    if keys2 != keys0:
        dropped_last = keys2 == {k for k in keys0 if k[2] < n_levels - 1}
        if off_by_one and dropped_last:
            probs.append(('mipmap-count-off-by-one',
                          f'{cfg["w"]}x{cfg["h"]}: {len(keys0)} frames ({n_levels} levels) before save, {len(keys2)} after read: the smallest level is never written'))
        else:
            probs.append(('frame-table-mismatch', f'frame keys differ: only before {sorted(map(str, keys0 - keys2))[:4]}, only after {sorted(map(str, keys2 - keys0))[:4]}'))
    # ---- pixels
    swapped = False
    for k in sorted(keys0 & keys2, key=str):
        f2 = v2._frames[k]
        if (f2.width, f2.height) != dims0[k]:
            probs.append(('frame-dimensions-differ', f'frame {k}: {dims0[k]} saved, {(f2.width, f2.height)} read'))
            continue
        exp = ref_quantise(cfg['fmt'], orig[k])
        got = bytes(f2._data)
        if got != exp:
            if cfg['fmt'] in ('RGB565', 'BGR565') and got == swap_rb(exp):
                swapped = True
                probs.append(('rgb565-rb-swap', f'{cfg["fmt"]} frame {k}: read-back pixels are the quantisation with R and B exchanged'))
            else:
                i = next(i for i in range(0, len(got), 4) if got[i:i + 4] != exp[i:i + 4])
                layout_bad = any(pk_.startswith(('meta-', 'frame-table', 'frame-dimensions', 'mipmap-count-wrong')) for pk_, _ in probs)
                other = next((k2 for k2 in sorted(orig, key=str) if k2 != k and dims0.get(k2) == dims0[k] and len(got) > 4
                              and ref_quantise(cfg['fmt'], orig[k2]) == got), None)
                if other is not None and not layout_bad:
                    probs.append(('frames-permuted', f'frame {k} reads back exactly the pixels saved for frame {other}: save and read disagree about '
                                                     f'the order of the (frame, side/depth, mipmap) blocks'))
                else:
                    probs.append(('pixels-displaced-after-layout-mismatch' if layout_bad else f'pixel-mismatch-{cfg["fmt"].lower()}', f'frame {k} pixel {i // 4}: input {tuple(orig[k][i:i + 4])} read back '
                                  f'{tuple(got[i:i + 4])}, expected {tuple(exp[i:i + 4])}'))
            break
    if cfg['thumb'] != 'NONE' and orig_low is not None and (v2._low_res.width, v2._low_res.height) == (vtf._low_res.width, vtf._low_res.height):
        exp = ref_quantise(cfg['thumb'], orig_low)
        got = bytes(v2._low_res._data)
        if got != exp:
            if cfg['thumb'] in ('RGB565', 'BGR565') and got == swap_rb(exp):
                swapped = True
                probs.append(('rgb565-rb-swap', f'{cfg["thumb"]} thumbnail: read-back pixels are the quantisation with R and B exchanged'))
            else:
                probs.append((f'thumbnail-mismatch-{cfg["thumb"].lower()}', 'thumbnail pixels are not the quantisation of what was saved'))
    # ---- the saved file read lazily and saved again WITHOUT loading it: every stored level and the thumbnail must come from
    # the file (save() regenerates "cleared" levels first; a frame that still has its file source is not cleared). This is
    # the read -> save -> read path of a tool that only edits metadata; with explicit (non-averaged) levels any regeneration shows.
    if not swapped and keys2:
        try:
            v3 = VTF.read(io.BytesIO(b1))
            buf3 = io.BytesIO()
            v3.save(buf3, sheet_seq_version=cfg['sheet_ver'])
            v4 = VTF.read(io.BytesIO(buf3.getvalue()))
            v4.load()
        except Exception as e:
            probs.append((f'lazy-resave-raises-{type(e).__name__}', f'read (lazy) -> save -> read raised {type(e).__name__}: {e}'))
        else:
            for k in sorted(keys2, key=str):
                if k not in v4._frames or bytes(v4._frames[k]._data) != bytes(v2._frames[k]._data):
                    probs.append(('lazy-resave-changes-pixels', f'frame {k}: a file read lazily and saved again without load() stores other '
                                  f'pixels than the file it was read from (mode {cfg["mode"]})'))
                    break
            else:
                if cfg['thumb'] != 'NONE' and bytes(v4._low_res._data) != bytes(v2._low_res._data):
                    probs.append(('lazy-resave-changes-thumbnail', 'a file read lazily and saved again without load() stores another thumbnail'))
                elif buf3.getvalue() != b1:
                    i = next((i for i, (x, y) in enumerate(zip(b1, buf3.getvalue())) if x != y), min(len(b1), len(buf3.getvalue())))
                    probs.append(('lazy-resave-differs', f'read (lazy) -> save gives a different file (first difference at byte {i})'))
    # ---- storing again changes nothing
    buf2 = io.BytesIO()
    try:
        v2.save(buf2, sheet_seq_version=cfg['sheet_ver'])
    except Exception as e:
        if off_by_one and not keys2:
            probs.append(('mipmap-count-off-by-one', f'{cfg["w"]}x{cfg["h"]}: the read-back VTF has no frames at all and cannot be saved again ({type(e).__name__})'))
        else:
            probs.append((f'resave-raises-{type(e).__name__}', f'saving the read-back VTF raised {type(e).__name__}: {e}'))
    else:
        b2 = buf2.getvalue()
        # The thumbnail is regenerated on every save from the level twice its size (by now quantised), so it is only
        # compared when no such level exists; everything else must be byte-identical.
        lw, lh = v2._low_res.width, v2._low_res.height
        high = sum(fmt.frame_size(f.width, f.height) for f in v2._frames.values())
        low = thumb.frame_size(lw, lh) if cfg['thumb'] != 'NONE' else 0
        ts, te = len(b1) - high - low, len(b1) - high
        regenerated = any((f.width // 2, f.height // 2) == (lw, lh) for f in v2._frames.values())
        same = len(b1) == len(b2) and b1[:ts] == b2[:ts] and b1[te:] == b2[te:] and (regenerated or b1[ts:te] == b2[ts:te])
        if not same and not swapped:
            i = next((i for i, (x, y) in enumerate(zip(b1, b2)) if x != y and not (regenerated and ts <= i < te)), min(len(b1), len(b2)))
            probs.append(('resave-differs', f'saving the read-back VTF gives a different file (first difference at byte {i}, sizes {len(b1)}/{len(b2)})'))
    return probs


def shrink_config(cfg: dict, key: str) -> dict:
    def fails(c):
        try:
            return any(k == key for k, _ in run_config(c))
        except Exception:
            return False
    cur = dict(cfg)
    for field, vals in [('resources', [[]]), ('sheet', [None]), ('save_version', [None]), ('frames', [1]), ('depth', [1]), ('cube', [False]),
                        ('flags', [0]), ('first_frame', [0]), ('thumb', ['NONE', 'RGB888']), ('fmt', ['RGBA8888']), ('mode', ['explicit']),
                        ('w', [1, 2, 4, 8]), ('h', [1, 2, 4, 8]), ('version', [5, 2])]:
        for v in vals:
            if cur[field] == v:
                break
            cand = dict(cur, **{field: v})
            if field == 'cube' and not v:
                cand['depth'] = 1
            if fails(cand):
                cur = cand
                break
    return cur


def corpus_configs() -> list[dict]:
    out = []
    d = VERIF / 'corpus' / 'C15'
    if d.is_dir():
        for p in sorted(d.glob('*.json')):
            out.append(json.loads(p.read_text()))
    return out


def search_files(ck: Ck) -> None:
    from srctools import _py_vtf_readwrite as rw
    fmts = sorted(f.name for f in rw._SAVE if f in rw._LOAD)
    ck.extra['writable_formats'] = fmts
    sizes = [(1 << a, 1 << b) for a in range(7) for b in range(7)]
    rounds = ck.budget(8, 200)
    configs = corpus_configs()
    n_corpus = len(configs)
    for r in range(rounds):
        order = list(sizes)
        ck.rng.shuffle(order)
        for (w, h) in order:
            if r > 0 and w * h > 1024 and ck.rng.random() < 0.6 and not ck.thorough:
                continue
            configs.append(gen_config(ck.rng, w, h, fmts))
    # every format as main and as thumbnail at least once on a small non-square texture
    for f in fmts:
        c = gen_config(ck.rng, 8, 4, fmts)
        c.update(fmt=f, thumb=f, cube=False, mode='explicit')
        configs.append(c)
    found: dict[str, tuple[dict, str]] = {}
    for i, cfg in enumerate(configs):
        try:
            probs = run_config(cfg)
        except Exception as e:     # the oracle itself must not hide a crash
            probs = [(f'oracle-crash-{type(e).__name__}', f'{type(e).__name__}: {e}')]
        ck.count('file_roundtrips')
        ck.hist('file_size', f'{cfg["w"]}x{cfg["h"]}')
        ck.hist('file_format', cfg['fmt'])
        ck.hist('file_thumb', cfg['thumb'])
        ck.hist('file_version', f'7.{cfg["version"]}' + ('' if cfg['save_version'] is None else f'->7.{cfg["save_version"]}'))
        ck.hist('file_shape', ('cube' if cfg['cube'] else f'depth{cfg["depth"]}') + f'/frames{cfg["frames"]}/{cfg["mode"]}')
        ck.hist('file_extras', f'res{len(cfg["resources"])}' + ('/sheet' if cfg['sheet'] else ''))
        if cfg['w'] * cfg['h'] > 1 or cfg['resources'] or cfg['sheet']:
            ck.seen(('file', json.dumps(cfg, sort_keys=True)))
        for key, what in probs:
            if key not in found:
                found[key] = (cfg, what)
    ck.sample({'file_config': {k: v for k, v in configs[n_corpus].items() if k not in ('sheet',)}, 'problems': run_config(configs[n_corpus])})
    for key, (cfg, what) in found.items():
        small = shrink_config(cfg, key)
        what2 = next((w for k, w in run_config(small) if k == key), what)
        ck.violation(key, what2, {'config': small, 'how': 'checks.c15.run_config(config) -> [(key, description)]'})
    ck.extra['file_violation_keys'] = sorted(found)



def cube_override(v0: int, v1: int, frames: int = 2, lazy: bool = False) -> str | None:
    """A cubemap of version 7.v0 saved with save(version=(7, v1)); -> description of what goes wrong, or None.
    Expected: the file has the sides of version 7.v1 (six, plus the sphere map below 7.5); every side the object has reads
    back exactly, a sphere map the object does not have reads back blank (opaque black), the object keeps its frame table.
    lazy: the object is itself a lazily read file (frames still have their file source)."""
    from srctools.vtf import VTF, ImageFormats, VTFFlags, CubeSide
    rng = random.Random(v0 * 8 + v1)
    v = VTF(4, 4, version=(7, v0), frames=frames, fmt=ImageFormats.RGBA8888, thumb_fmt=ImageFormats.NONE, flags=VTFFlags.ENVMAP)
    for f in v._frames.values():
        f.copy_from(rng.randbytes(4 * f.width * f.height))
    pixels = {k: bytes(f._data) for k, f in v._frames.items()}
    what = f'cubemap 7.{v0}' + (' (read lazily)' if lazy else '') + f', {frames} frames, saved as 7.{v1}'
    buf = io.BytesIO()
    try:
        if lazy:
            b0 = io.BytesIO()
            v.save(b0)
            v = VTF.read(io.BytesIO(b0.getvalue()))
        keys_before = set(v._frames)
        v.save(buf, version=(7, v1))
        v2 = VTF.read(io.BytesIO(buf.getvalue()))
        v2.load()
    except Exception as e:
        return f'{what}: {type(e).__name__}: {e}'
    if set(v._frames) != keys_before or v.version != (7, v0):
        return f'{what}: save(version=) changed the object (frame table or version)'
    sides = [s for s in CubeSide if s is not CubeSide.SPHERE or v1 < 5]
    want = {(fr, s, m) for fr in range(frames) for s in sides for m in range(v.mipmap_count)}
    if set(v2._frames) != want or v2.version != (7, v1):
        return f'{what}: the file has version {v2.version} and {len(v2._frames)} frames, expected {len(want)} ({len(sides)} sides)'
    for k in sorted(want, key=str):
        f = v2._frames[k]
        exp = pixels.get(k, bytes((0, 0, 0, 255)) * (f.width * f.height))
        if bytes(f._data) != exp:
            return f'{what}: side {k} reads back other pixels than were saved ({len(v._frames)} frames before, {len(v2._frames)} after)'
    return None


def search_cube_override(ck: Ck) -> None:
    for v0 in (2, 3, 4, 5):
        for v1 in (2, 3, 4, 5):
            if v0 == v1:
                continue
            for frames, lazy in ((1, False), (2, False), (3, True)):
                ck.count('cubemap_version_overrides')
                ck.seen(('cube_override', v0, v1, frames, lazy))
                what = cube_override(v0, v1, frames, lazy)
                if what is not None:
                    across = (v0 >= 5) != (v1 >= 5)
                    ck.violation('cubemap-save-version-override-across-sphere-map-boundary' if across else 'cubemap-save-version-override-differs',
                                 what, {'cube_override': [v0, v1, frames, lazy]})
                    break


def full_chain(w: int, h: int, fmt_name: str, seed: int) -> str | None:
    """A texture whose owner declares ALL the levels the constructor created (mipmap_count := number of levels - what other
    tools write, and what the known finding mipmap-count-off-by-one withholds): levels down to 1x1 have a side clamped to 1.
    Every level must be written and read back with its size max(w >> m, 1) x max(h >> m, 1) and its pixels."""
    from srctools.vtf import VTF, ImageFormats
    rng = random.Random(seed)
    v = VTF(w, h, fmt=ImageFormats[fmt_name], thumb_fmt=ImageFormats.NONE)
    levels = 1 + max(k[2] for k in v._frames)
    v.mipmap_count = levels
    pixels = {}
    for k, f in v._frames.items():
        f.copy_from(rng.randbytes(4 * f.width * f.height))
        pixels[k] = bytes(f._data)
    what = f'{w}x{h} {fmt_name} with mipmap_count set to all {levels} levels'
    try:
        buf = io.BytesIO()
        v.save(buf)
        v2 = VTF.read(io.BytesIO(buf.getvalue()))
        v2.load()
    except Exception as e:
        return f'{what}: {type(e).__name__}: {e}'
    if v2.mipmap_count != levels or set(v2._frames) != set(pixels):
        return f'{what}: read back {v2.mipmap_count} levels, frame table {len(v2._frames)} entries instead of {len(pixels)}'
    for k in sorted(pixels, key=str):
        f = v2._frames[k]
        if (f.width, f.height) != (max(w >> k[2], 1), max(h >> k[2], 1)):
            return f'{what}: level {k[2]} read back as {f.width}x{f.height}'
        if bytes(f._data) != ref_quantise(fmt_name, pixels[k]):
            return f'{what}: level {k[2]} reads back other pixels than were saved'
    return None


def search_full_chain(ck: Ck) -> None:
    for (w, h) in [(8, 2), (2, 8), (16, 1), (1, 4), (4, 4), (32, 4)]:
        for fmt_name in ('RGBA8888', 'BGR888'):
            ck.count('full_mip_chains')
            ck.seen(('full_chain', w, h, fmt_name))
            what = full_chain(w, h, fmt_name, ck.seed + w * 64 + h)
            if what is not None:
                ck.violation('full-mip-chain-not-read-back', what, {'full_chain': [w, h, fmt_name, ck.seed + w * 64 + h]})
                return


# ================================================================================================ bounds / mipmap filters / sheets
def search_bounds(ck: Ck) -> None:
    from srctools.vtf import VTF
    for (w, h) in [(1, 1), (2, 1), (1, 4), (4, 4), (8, 2), (2, 8)]:
        vtf = VTF(w, h)
        fr = vtf.get()
        data = bytes(ck.rng.randbytes(4 * w * h))
        fr.copy_from(data)
        for x in range(-3, w + 3):
            for y in range(-3, h + 3):
                inside = 0 <= x < w and 0 <= y < h
                ck.count('pixel_accesses', 2)
                if not inside:
                    ck.seen(('bounds', w, h, x, y))
                for op in ('getitem', 'setitem'):
                    before = bytes(fr._data)
                    try:
                        if op == 'getitem':
                            res = tuple(fr[x, y])
                        else:
                            fr[x, y] = (1, 2, 3, 4)
                            res = 'stored'
                        outcome = 'accepted'
                    except IndexError:
                        outcome = 'IndexError'
                    except Exception as e:
                        outcome = type(e).__name__
                    after = bytes(fr._data)
                    if inside:
                        off = 4 * (y * w + x)
                        okv = outcome == 'accepted' and (res == tuple(data[off:off + 4]) if op == 'getitem' else
                                                         after == before[:off] + bytes((1, 2, 3, 4)) + before[off + 4:])
                        if not okv:
                            ck.violation(f'frame-{op}-wrong-pixel', f'{w}x{h} frame, ({x},{y}): {outcome}, wrong pixel touched',
                                         {'bounds': [w, h, x, y, op]})
                        fr.copy_from(data)
                    elif outcome != 'IndexError':
                        side = 'negative' if (x < 0 or y < 0) else 'x==width or y==height' if (x == w or y == h) else 'beyond'
                        ck.violation(f'frame-{op}-out-of-range-not-rejected',
                                     f'{w}x{h} frame: {op} at ({x},{y}) ({side}) gives {outcome}' +
                                     (' and modifies the buffer' if after != before else '') + ' instead of IndexError',
                                     {'bounds': [w, h, x, y, op]})
                        fr.copy_from(data)



# ================================================================================================ pixel access paths (round 4)
def _slug(s: str) -> str:
    import re
    return re.sub(r'_+', '_', re.sub(r'[^A-Za-z0-9]+', '_', s)).strip('_')


def access_obligations(info: dict) -> dict[str, str]:
    """one named boolean per site of the census (Gen/VtfAccess_gen.v)"""
    obs: dict[str, str] = {}
    for i, (name, _r, _c, _k) in enumerate(info['paths']):
        obs[f'pixel_path_{_slug(name)}_has_rows_height_columns_width_4_bytes'] = f'path_ok (nth {i} gen_paths transposed_path)'
    for i, (name, _f) in enumerate(info['allocs']):
        obs[f'pixel_array_allocated_in_{_slug(name.split(":")[0])}_{i}_has_4_width_height_bytes'] = f'alloc_ok 4 (snd (nth {i} gen_allocs (EmptyString, nil)))'
    for i, (name, _a) in enumerate(info['guards']):
        obs[f'whole_array_{_slug(name)}_only_between_frames_of_equal_width_and_height'] = f'copy_guard_ok (snd (nth {i} gen_copy_guards (EmptyString, nil)))'
    for i, (name, _r) in enumerate(info.get('keys', [])):
        obs[f'frame_table_key_in_{_slug(name)}_is_frame_side_mipmap'] = f'key_ok (snd (nth {i} gen_key_sites (EmptyString, nil)))'
    obs['clear_mipmaps_erases_exactly_the_levels_with_index_above_after'] = 'clear_after_ok gen_clear_after'
    obs['every_frame_table_key_is_frame_side_mipmap'] = '(forallb (fun k => key_ok (snd k)) gen_key_sites && negb (Nat.eqb (List.length gen_key_sites) 0))%bool'
    obs['every_pixel_path_of_the_census_has_the_canonical_address_map'] = \
        '(forallb path_ok gen_paths && negb (Nat.eqb (List.length gen_paths) 0))%bool'
    obs['every_pixel_array_allocation_has_4_width_height_bytes'] = '(forallb (fun a => alloc_ok 4 (snd a)) gen_allocs && negb (Nat.eqb (List.length gen_allocs) 0))%bool'
    obs['getitem_rejects_nothing_inside_the_frame'] = 'bounds_exact getitem_reject'
    obs['setitem_rejects_nothing_inside_the_frame'] = 'bounds_exact setitem_reject'
    return obs


def _colour(x: int, y: int, salt: int) -> tuple[int, int, int, int]:
    return ((x * 16 + 3 + salt) % 256, (y * 16 + 5 + 3 * salt) % 256, (x * 7 + y * 11 + salt) % 256, (255 - x - 2 * y - salt) % 256)


class _FakeWx:
    """stand-in for wxPython (not installed): records the size each image is made with and the RGB bytes it is given"""
    BitmapBufferFormat_RGB = 1

    def __init__(self) -> None:
        self.made: list = []
        outer = self

        class Image:
            def __init__(self, w, h):
                self.size, self.buf = (w, h), bytearray(3 * w * h)
                outer.made.append(self)

            def GetDataBuffer(self):
                return self.buf

        class Bitmap:
            def __init__(self, w, h):
                self.size, self.buf = (w, h), None
                outer.made.append(self)

            def CopyFromBuffer(self, buf, fmt):
                self.buf = bytes(buf)
        self.Image, self.Bitmap = Image, Bitmap


def _with_alarm(seconds: int, fn):
    """run fn(); a call into the implementation that does not come back is a failing input, not a hung check.
    Nests: an enclosing alarm is re-armed with what is left of it."""
    import signal
    import time

    def onalarm(signum, frame):
        raise TimeoutError(f'no result after {seconds}s')
    old = signal.signal(signal.SIGALRM, onalarm)
    t0 = time.time()
    prev = signal.alarm(seconds)
    try:
        return fn()
    finally:
        signal.alarm(0)
        signal.signal(signal.SIGALRM, old)
        if prev:
            signal.alarm(max(1, prev - int(time.time() - t0)))


def _stage(ck: Ck, name: str, fn, *args, alarm: bool = True) -> None:
    """One stage that calls into srctools.  Whatever a fault makes the implementation do - raise something the stage does not
    expect, or never return - ends as a VIOLATION that names the stage, not as INTERNAL-ERROR or a hung check.  The limit is
    far above what the stage needs (a few seconds in the quick tier, a few minutes in the thorough one, on a loaded machine)."""
    import traceback
    limit = 3000
    try:
        if alarm:
            _with_alarm(limit, lambda: fn(ck, *args))
        else:
            fn(ck, *args)
    except TimeoutError as e:
        ck.violation(f'implementation-does-not-return-in-{name}',
                     f'stage {name}: a call into srctools did not return ({e}); the stage takes seconds on the unchanged tree', {'stage': name})
    except Exception as e:      # noqa: BLE001
        ck.violation(f'{name}-raises-{type(e).__name__}',
                     f'stage {name}: unexpected {type(e).__name__}: {e}\n' + traceback.format_exc()[-1500:], {'stage': name})


def _view(fr):
    """memoryview(frame): the buffer protocol reaches Frame.__buffer__ from Python 3.12 on (PEP 688); call it directly before"""
    import sys
    return memoryview(fr) if sys.version_info >= (3, 12) else fr.__buffer__(0)


def paths_case(w: int, h: int, salt: int = 0) -> list[tuple[str, str]]:
    """Every way of writing the pixels of a w x h frame, every way of reading them: all must use the address map
    byte 4*(y*w + x) + c for (x, y, c) and accept exactly [0,w) x [0,h)."""
    import sys
    from array import array
    from srctools.vtf import VTF, ImageFormats
    # optional third-party consumers: a sandbox without Pillow / Tk must not turn into an alarm (the paths are then not exercised)
    try:
        import tkinter
    except Exception:       # noqa: BLE001
        tkinter = None
    try:
        import PIL.Image    # noqa: F401
        have_pil = True
    except Exception:       # noqa: BLE001
        have_pil = False
    out: list[tuple[str, str]] = []
    size = f'{w}x{h}'
    want = {(x, y): _colour(x, y, salt) for y in range(h) for x in range(w)}
    flat = bytes(v for y in range(h) for x in range(w) for v in want[x, y])

    def new_frame():
        vtf = VTF(w, h, fmt=ImageFormats.RGBA8888, thumb_fmt=ImageFormats.RGB888)
        # known finding mipmap-count-off-by-one: a texture with a side of 1 declares 0 levels and would be saved without
        # any frame; declare the level that exists, so that the save/read path can be exercised on 1xN and Nx1 as well
        vtf.mipmap_count = max(vtf.mipmap_count, 1)
        return vtf, vtf.get()

    # ---------------------------------------------------------------- writers
    def w_setitem(fr):
        for (x, y), px in want.items():
            fr[x, y] = px

    def w_buffer(fr):
        mv = _view(fr)
        bad = []
        for (x, y), px in want.items():
            for c, v in enumerate(px):
                try:
                    mv[y, x, c] = v
                except IndexError:
                    bad.append((x, y, c))
        mv.release()
        if bad:
            out.append(('pixel-path-buffer-rejects-coordinate-inside-the-frame',
                        f'{size}: memoryview(frame)[y, x, c] = v raises IndexError for {len(bad)} of {4 * w * h} coordinates inside the frame, e.g. (x, y, c) = {bad[0]}'))

    def w_copy_bytes(fr):
        fr.copy_from(flat)

    def w_copy_frame(fr):
        _, other = new_frame()
        other._data = array('B', flat)
        fr.copy_from(other)

    def w_file(fr):
        vtf2, f2 = new_frame()
        f2._data = array('B', flat)
        bio = io.BytesIO()
        vtf2.save(bio)
        back = VTF.read(io.BytesIO(bio.getvalue()))
        fr.copy_from(back.get())        # Frame.load of a lazily read frame, then a frame-to-frame copy

    writers = {'setitem': w_setitem, 'buffer': w_buffer, 'copy_from_bytes': w_copy_bytes, 'copy_from_frame': w_copy_frame,
               'file_load': w_file}

    # ---------------------------------------------------------------- readers: -> {(x, y): tuple of 3 or 4 channels}
    def r_getitem(fr):
        return {(x, y): tuple(fr[x, y]) for (x, y) in want}

    def r_buffer(fr):
        mv = _view(fr)
        if mv.shape != (h, w, 4):
            out.append(('pixel-path-buffer-shape-is-not-height-width-4', f'{size}: memoryview(frame).shape == {mv.shape}, expected {(h, w, 4)}'))
        res, bad = {}, []
        for (x, y) in want:
            try:
                res[x, y] = tuple(mv[y, x, c] for c in range(4))
            except IndexError:
                bad.append((x, y))
        if bad:
            out.append(('pixel-path-buffer-rejects-coordinate-inside-the-frame',
                        f'{size}: memoryview(frame)[y, x, c] raises IndexError for {len(bad)} of {w * h} pixels inside the frame, e.g. (x, y) = {bad[0]}'))
        for (x, y) in ((w, 0), (0, h), (w, h - 1), (w - 1, h)):
            try:
                mv[y, x, 0]
            except IndexError:
                continue
            out.append(('pixel-path-buffer-accepts-coordinate-outside-the-frame',
                        f'{size}: memoryview(frame)[y={y}, x={x}, 0] is accepted (the frame has x < {w}, y < {h})'))
            break
        try:
            mv[0, 0, 4]
            out.append(('pixel-path-buffer-accepts-coordinate-outside-the-frame', f'{size}: memoryview(frame)[0, 0, 4] is accepted'))
        except IndexError:
            pass
        return res

    def r_buffer_bytes(fr):
        b = bytes(_view(fr))
        return {(x, y): tuple(b[4 * (y * w + x):4 * (y * w + x) + 4]) for (x, y) in want} if len(b) == 4 * w * h else {}

    def r_pil(fr):
        img = fr.to_PIL()
        if img.size != (w, h) or img.mode != 'RGBA':
            out.append(('pixel-path-to_PIL-size-is-not-width-height', f'{size}: to_PIL() gives a {img.mode} image of size {img.size}'))
        res = {}
        for (x, y) in want:
            try:
                res[x, y] = tuple(img.getpixel((x, y)))
            except IndexError:
                pass
        return res

    def r_tk(fr):
        got = {}
        orig = tkinter.PhotoImage
        try:
            tkinter.PhotoImage = lambda **kw: got.update(kw) or 'photo'       # no display here: take what would be shown
            fr.to_tkinter()
        finally:
            tkinter.PhotoImage = orig
        data = got.get('data', b'')
        head, _, raster = data.partition(b'\n')
        parts = head.split()
        if len(parts) != 4 or parts[0] != b'P6' or (int(parts[1]), int(parts[2])) != (w, h) or parts[3] != b'255' or len(raster) != 3 * w * h:
            out.append(('pixel-path-to_tkinter-ppm-size-is-not-width-height', f'{size}: to_tkinter() hands tkinter a PPM with header {head!r} and {len(raster)} raster bytes'))
            return {}
        return {(x, y): tuple(raster[3 * (y * w + x):3 * (y * w + x) + 3]) for (x, y) in want}

    def r_wx(method):
        def go(fr):
            fake = _FakeWx()
            had = sys.modules.get('wx')
            sys.modules['wx'] = fake
            try:
                getattr(fr, method)()
            finally:
                if had is None:
                    sys.modules.pop('wx', None)
                else:
                    sys.modules['wx'] = had
            if len(fake.made) != 1 or fake.made[0].size != (w, h) or fake.made[0].buf is None or len(fake.made[0].buf) != 3 * w * h:
                out.append((f'pixel-path-{method}-size-is-not-width-height',
                            f'{size}: {method}() makes wx images of size {[m.size for m in fake.made]}'))
                return {}
            b = bytes(fake.made[0].buf)
            return {(x, y): tuple(b[3 * (y * w + x):3 * (y * w + x) + 3]) for (x, y) in want}
        return go

    def r_saved(fr_vtf):
        def go(fr):
            bio = io.BytesIO()
            fr_vtf.save(bio)
            back = VTF.read(io.BytesIO(bio.getvalue()))
            bf = back.get()
            if (bf.width, bf.height) != (w, h):
                out.append(('pixel-path-saved-frame-has-other-dimensions', f'{size}: read back as {bf.width}x{bf.height}'))
                return {}
            return {(x, y): tuple(bf[x, y]) for (x, y) in want}
        return go

    def compare(name_w: str, name_r: str, got: dict, raw_ok: bool) -> None:
        wrong = [(x, y) for (x, y) in want if got.get((x, y)) != want[x, y][:len(got.get((x, y), ()) or (0, 0, 0, 0))]]
        if not wrong:
            return
        x, y = wrong[0]
        if not raw_ok:
            key, who = f'pixel-path-write-{name_w}-lands-elsewhere', f'written through {name_w}'
        else:
            key, who = f'pixel-path-read-{name_r}-reads-other-pixels', f'read through {name_r}'
        out.append((key, f'{size}: pixels written through {name_w} and read through {name_r}: {len(wrong)} of {w * h} differ ({who} is off), '
                         f'e.g. (x, y) = ({x}, {y}) gives {got.get((x, y))}, written {want[x, y]}'))

    for name_w, wfn in writers.items():
        try:
            vtf, fr = new_frame()
            _with_alarm(20, lambda: wfn(fr))
            raw = bytes(fr._data) if fr._data is not None else b''
        except Exception as e:      # noqa: BLE001 - whatever a fault makes the implementation raise is a finding
            out.append((f'pixel-path-write-{name_w}-raises-{type(e).__name__}', f'{size}: writing every pixel through {name_w}: {type(e).__name__}: {e}'))
            continue
        if len(raw) != 4 * w * h:
            out.append(('pixel-array-length-is-not-4-width-height', f'{size}: after writing through {name_w} the pixel array has {len(raw)} bytes'))
            continue
        raw_ok = raw == flat
        if not raw_ok:
            got = {(x, y): tuple(raw[4 * (y * w + x):4 * (y * w + x) + 4]) for (x, y) in want}
            compare(name_w, 'the array itself', got, False)
        readers = {'getitem': r_getitem, 'buffer': r_buffer, 'buffer_bytes': r_buffer_bytes, 'to_PIL': r_pil, 'to_tkinter': r_tk,
                   'to_wx_image': r_wx('to_wx_image'), 'to_wx_bitmap': r_wx('to_wx_bitmap'), 'save_read': r_saved(vtf)}
        if not have_pil:
            del readers['to_PIL']
        if tkinter is None:
            del readers['to_tkinter']
        for name_r, rfn in readers.items():
            try:
                got = _with_alarm(20, lambda: rfn(fr))
            except Exception as e:      # noqa: BLE001
                out.append((f'pixel-path-read-{name_r}-raises-{type(e).__name__}', f'{size}: reading every pixel through {name_r} (written through {name_w}): {type(e).__name__}: {e}'))
                continue
            if raw_ok and got:
                compare(name_w, name_r, got, True)
    # ---------------------------------------------------------------- allocation sizes and the size test of copy_from(Frame)
    for how in ('load', 'fill', 'copy_from', 'rescale_from'):
        try:
            vtf, fr = new_frame()
            fr._data = None
            if how == 'load':
                fr.load()
            elif how == 'fill':
                fr.fill(1, 2, 3, 4)
            elif how == 'copy_from':
                fr.copy_from(flat)
            else:
                big = VTF(2 * w, 2 * h).get()
                big.fill(9, 9, 9, 9)
                fr.rescale_from(big)
            if fr._data is None or len(fr._data) != 4 * w * h:
                out.append(('pixel-array-length-is-not-4-width-height', f'{size}: {how}() on a frame without pixels makes an array of {None if fr._data is None else len(fr._data)} bytes'))
        except Exception as e:      # noqa: BLE001
            out.append((f'pixel-path-{how}-raises-{type(e).__name__}', f'{size}: {how}() on a frame without pixels: {type(e).__name__}: {e}'))
    for (w2, h2) in {(h, w), (w, 2 * h), (2 * w, h), (2 * w, max(h // 2, 1)), (max(w // 2, 1), 2 * h)} - {(w, h)}:
        _, fr = new_frame()
        fr.copy_from(flat)
        other = VTF(w2, h2).get()
        other.fill(7, 7, 7, 7)
        try:
            fr.copy_from(other)
        except ValueError:
            continue
        except Exception as e:      # noqa: BLE001
            out.append((f'pixel-path-copy_from-raises-{type(e).__name__}', f'{size}: copy_from(a {w2}x{h2} frame): {type(e).__name__}: {e}'))
            continue
        out.append(('copy-from-frame-of-another-size-accepted', f'a {size} frame accepts copy_from(a {w2}x{h2} frame); its array now has {len(fr._data)} bytes'))
    return out


def dxt_case(w: int, h: int) -> list[tuple[str, str]]:
    """Block-compressed data is the one input for which the decoders use width and height separately: a w x h DXT1 image of
    solid 4x4 blocks, each of another colour, handed to copy_from() and to the lazy load() of a read frame, must come out
    as solid 4x4 squares at the blocks' places (compared by pattern: no reference decoder involved)."""
    from srctools.vtf import VTF, ImageFormats
    out: list[tuple[str, str]] = []
    cols = [0xF800, 0x07E0, 0x001F, 0xFFE0, 0xF81F, 0x07FF, 0xFFFF, 0x8410, 0x8000, 0x0400, 0x0010, 0x8400, 0x8010, 0x0410, 0xC618, 0x4208]
    bw, bh = w // 4, h // 4
    data = b''.join(struct.pack('<HHI', cols[(by * bw + bx) % len(cols)], 0, 0) for by in range(bh) for bx in range(bw))
    for how in ('copy_from', 'lazy_load'):
        try:
            fr = VTF(w, h).get()
            if how == 'copy_from':
                _with_alarm(20, lambda: fr.copy_from(data, ImageFormats.DXT1))
            else:
                fr._data = None
                fr._fileinfo = (io.BytesIO(b'\0' * 7 + data), 7, ImageFormats.DXT1)     # what VTF.read() attaches to a frame
                _with_alarm(20, fr.load)
            raw = bytes(fr._data)
        except Exception as e:      # noqa: BLE001
            out.append((f'dxt-non-square-{how}-raises-{type(e).__name__}', f'{w}x{h} DXT1 through {how}: {type(e).__name__}: {e}'))
            continue
        px = {(x, y): raw[4 * (y * w + x):4 * (y * w + x) + 4] for y in range(h) for x in range(w)}
        rep = {(bx, by): px[4 * bx, 4 * by] for by in range(bh) for bx in range(bw)}
        wrong = [(x, y) for (x, y), v in px.items() if v != rep[x // 4, y // 4]]
        if len(raw) != 4 * w * h or wrong or len(set(rep.values())) != min(len(rep), len(cols)):
            out.append((f'dxt-non-square-{how}-misplaces-blocks',
                        f'{w}x{h} DXT1 image of {bw}x{bh} solid blocks through {how}: {len(wrong)} pixels are not the colour of their block'
                        + (f', e.g. (x, y) = {wrong[0]}' if wrong else f'; {len(set(rep.values()))} distinct block colours')))
    return out


PATH_SHAPES = [(1, 1), (2, 1), (1, 2), (4, 1), (1, 4), (8, 1), (1, 8), (2, 8), (8, 2), (4, 2), (2, 4), (16, 2), (4, 4), (2, 16), (8, 4)]


def search_paths(ck: Ck) -> None:
    for mod in ('PIL.Image', 'tkinter'):
        try:
            __import__(mod)
            ck.hist('pixel_path_optional_consumers', f'{mod}: exercised')
        except Exception:       # noqa: BLE001
            ck.hist('pixel_path_optional_consumers', f'{mod}: not installed, path not exercised')
            ck.notes.append(f'{mod} is not importable here: the corresponding reader of the pixel-path oracle is skipped (the obligation about its site still holds)')
    for k, (w, h) in enumerate(PATH_SHAPES):
        salt = ck.rng.randrange(256)
        ck.count('pixel_path_cases', 5 * 8)
        ck.hist('pixel_path_shapes', 'square' if w == h else 'wide' if w > h else 'tall')
        if w != h:
            ck.seen(('paths', w, h, salt))
        if k < 3:
            ck.sample({'paths': [w, h, salt]})
        for key, what in paths_case(w, h, salt):
            ck.violation(key, what, {'paths': [w, h, salt]})
    for (w, h) in [(8, 4), (4, 8), (16, 4), (4, 16), (8, 8), (16, 8)]:
        ck.count('dxt_block_layout_cases', 2)
        if w != h:
            ck.seen(('dxt', w, h))
        for key, what in dxt_case(w, h):
            ck.violation(key, what, {'dxt': [w, h]})


def search_filters(ck: Ck) -> None:
    from srctools.vtf import VTF, FilterMode
    modes = [FilterMode.UPPER_LEFT, FilterMode.UPPER_RIGHT, FilterMode.LOWER_LEFT, FilterMode.LOWER_RIGHT, FilterMode.BILINEAR]
    for (w, h) in [(2, 2), (4, 2), (2, 8), (8, 8), (16, 4), (32, 32)]:
        for m in modes:
            try:
                vtf = VTF(w, h)
                vtf.get().copy_from(ck.rng.randbytes(4 * w * h))
                vtf.compute_mipmaps(m)
            except Exception as e:
                ck.violation(f'compute-mipmaps-raises-{type(e).__name__}', f'{w}x{h} filter {m.name}: {type(e).__name__}: {e}', {'filter': [w, h, m.value]})
                continue
            ck.count('mipmap_chains')
            ck.seen(('filter', w, h, m.name))
            levels = sorted(k[2] for k in vtf._frames)
            for lv in levels[1:]:
                par, cur = vtf._frames[0, 0, lv - 1], vtf._frames[0, 0, lv]
                if (cur.width, cur.height) != (max(par.width // 2, 1), max(par.height // 2, 1)):
                    ck.violation('mip-dimensions-not-halved', f'{w}x{h}: level {lv} is {cur.width}x{cur.height}', {'filter': [w, h, m.value]})
                if cur._data is None or par._data is None:
                    if lv < vtf.mipmap_count:
                        ck.violation('generated-mipmap-missing', f'{w}x{h}: level {lv} not generated', {'filter': [w, h, m.value]})
                    continue
                exp = ref_downscale(bytes(par._data), par.width, par.height, cur.width, cur.height, m.value)
                if bytes(cur._data) != exp:
                    ck.violation('generated-mipmap-not-parent-average' if m.value == 4 else 'generated-mipmap-wrong-corner',
                                 f'{w}x{h} filter {m.name}: level {lv} is not derived from the 2x2 blocks of level {lv - 1}',
                                 {'filter': [w, h, m.value]})




# ================================================================================================ container
GEN_F = '(cfmts_of_sites gen_version gen_header gen_depth gen_res_count gen_entry_inline (fst gen_block_len_r))'
GEN_SF = '(sfmts_of_sites gen_sheet_head gen_sheet_seq gen_sheet_dur gen_sheet_tex)'
_SITES = ['version', 'header', 'depth', 'res_count', 'entry_inline', 'sheet_head', 'sheet_seq', 'sheet_dur', 'sheet_tex']
CONT_OBS = {f'site_{n}_same_format_and_field_order_on_both_sides': f'site_ok gen_{n}' for n in _SITES}
CONT_OBS.update({
    'header_is_51_bytes_and_15_values': '(Nat.eqb (calcsize (fmt_of (w_fmt gen_header))) 51 && Nat.eqb (nvalues (fmt_of (w_fmt gen_header))) 15)%bool',
    'offset_entries_are_id_flags_then_a_deferred_4_byte_slot_like_the_reader_expects':
        '(negb (Nat.eqb (List.length gen_entry_offset_w) 0) && forallb (fun e => fmt_eqb (fmt_of (fst (fst e)) ++ fmt_of (snd e)) (fmt_of (r_fmt gen_entry_inline)) '
        '&& Nat.eqb (List.length (snd (fst e))) 2) gen_entry_offset_w)%bool',
    'data_block_length_written_and_read_with_the_same_format':
        '(negb (Nat.eqb (List.length gen_block_len_w) 0) && forallb (fun f => fmt_eqb (fmt_of f) (fmt_of (fst gen_block_len_r))) gen_block_len_w '
        '&& Z.eqb (snd gen_block_len_r) (Z.of_nat (calcsize (fmt_of (fst gen_block_len_r)))))%bool',
    'every_deferred_offset_is_filled_with_the_position_of_its_data':
        '(forallb (fun d => existsb (fun sd => String.eqb (fst sd) (fst (fst d)) && String.eqb (snd sd) "file.tell()") gen_set_data) gen_defers '
        '&& Nat.eqb (List.length gen_defers) (List.length gen_set_data) '
        '&& forallb (fun d => Bool.eqb (snd d) (negb (String.eqb (fst (fst d)) "\'header_size\'"))) gen_defers)%bool',
    'version_tests_agree_between_save_and_read':
        '(forallb (fun g => existsb (fun h => String.eqb (fst g) (fst h) && Z.eqb (snd g) (snd h)) gen_read_guards) gen_save_guards '
        '&& forallb (fun g => existsb (fun h => String.eqb (fst g) (fst h) && Z.eqb (snd g) (snd h)) gen_save_guards) gen_read_guards '
        '&& forallb (fun g => String.eqb (fst g) ">=" && (Z.eqb (snd g) 2 || Z.eqb (snd g) 3)) gen_read_guards)%bool',
    'padding_before_7_3_has_the_size_of_the_resource_count_record':
        'match gen_pads with (p :: nil) => Z.eqb p (Z.of_nat (calcsize (fmt_of (w_fmt gen_res_count)))) | _ => false end',
    'header_values_end_up_in_their_attributes':
        'forallb (fun e => existsb (fun g => String.eqb (fst g) (fst e) && strs_eqb (snd g) (snd e)) gen_read_attrs) '
        '(("width", "width" :: nil) :: ("height", "height" :: nil) :: ("frame_count", "frame_count" :: nil) :: ("first_frame_index", "first_frame_index" :: nil) '
        ':: ("mipmap_count", "mipmap_count" :: nil) :: ("flags", "VTFFlags(flags)" :: nil) :: ("reflectivity", "Vec(ref_r, ref_g, ref_b)" :: nil) '
        ':: ("bumpmap_scale", "bumpmap_scale" :: nil) :: ("format", "FORMAT_ORDER[high_format]" :: nil) '
        ':: ("version", "(version_major, version_minor)" :: nil) :: ("low_format", "FORMAT_ORDER[low_format]" :: nil) :: nil)%string',
    'out_of_line_entries_store_the_flags_with_exactly_bit_2_cleared': 'offset_flags_ok gen_flagcfg',
    'inline_entries_store_the_flags_with_exactly_bit_2_set': 'inline_flags_ok gen_flagcfg',
    'reader_fetches_a_data_block_exactly_when_bit_2_is_clear': 'read_test_ok gen_flagcfg',
    'fixed_entries_low_high_sheet_have_flags_0': '(fixed_flags_ok gen_flagcfg && Nat.leb 2 (List.length gen_flag_fixed))%bool',
    'resource_flag_configuration_ok': 'flags_ok gen_flagcfg',
    'sheet_reader_advances_by_the_record_sizes':
        'match gen_sheet_incs with (a :: b :: c :: d :: e :: nil) => (Z.eqb a (Z.of_nat (calcsize (fmt_of (r_fmt gen_sheet_head)))) '
        '&& Z.eqb b (Z.of_nat (calcsize (fmt_of (r_fmt gen_sheet_seq)))) && Z.eqb c (Z.of_nat (calcsize (fmt_of (r_fmt gen_sheet_dur)))) '
        '&& Z.eqb d (Z.of_nat (calcsize (fmt_of (r_fmt gen_sheet_tex)))) && Z.eqb e (4 * Z.of_nat (calcsize (fmt_of (r_fmt gen_sheet_tex)))))%bool | _ => false end',
    'sheet_reader_takes_the_four_coordinates_at_0_16_32_48':
        'strs_eqb gen_sheet_tex_offs ("offset" :: "offset" :: "offset + 16" :: "offset + 32" :: "offset + 48" :: nil)%string',
    'sheet_writer_emits_coordinates_a_b_c_d_in_order': 'strs_eqb gen_sheet_tex_written ("tex_a" :: "tex_b" :: "tex_c" :: "tex_d" :: nil)%string',
    # premises of the whole-file theorems (c15_whole_file_*) for the GENERATED formats and flag expressions
    'container_formats_are_well_formed_and_the_block_length_is_4_bytes': f'fmts_wf {GEN_F}',
    'container_formats_are_those_of_the_documented_layout': f'cfmts_eqb {GEN_F} std_fmts',
    'example_file_7_4_with_inline_and_data_resources_and_sheet_is_decoded_as_encoded': f'(vfile_fits {GEN_F} gen_flagcfg (ex_file 4) && ex_roundtrip_ok {GEN_F} gen_flagcfg 4)%bool',
    'example_files_7_3_and_7_2_are_decoded_as_encoded': f'(ex_roundtrip_ok {GEN_F} gen_flagcfg 3 && vfile_fits_old {GEN_F} (ex_file 2) && ex_roundtrip_ok {GEN_F} gen_flagcfg 2)%bool',
    # premises of c15_sheet_roundtrip for the GENERATED sheet formats; the example sheet through them, both versions
    'sheet_formats_are_well_formed': f'sfmts_wf {GEN_SF}',
    'example_sheet_is_read_back_in_both_sheet_versions': f'(ex_sheet_ok {GEN_SF} 1 && ex_sheet_ok {GEN_SF} 0)%bool',
    # where save() records the offsets it patches into the directory / header (order of the file-writing events)
    'save_records_the_header_size_behind_the_directory_and_before_any_data': 'header_size_ok gen_save_events',
    'save_records_each_data_block_offset_right_before_its_length_and_data':
        '(set_then_block "res" gen_save_events && set_then_block "particle" gen_save_events)%bool%string',
    'save_records_thumbnail_and_first_frame_offsets_right_before_they_are_written': 'low_high_ok gen_save_events',
    'sheet_version_tests_present_on_both_sides':
        '(existsb (String.eqb "version == 1") gen_sheet_tests && existsb (String.eqb "version == 0") gen_sheet_tests)%bool%string',
})

PRE_CONT = """Import ListNotations. Open Scope list_scope.
Definition F : cfmts := """ + GEN_F + """.
Definition SF : sfmts := """ + GEN_SF + """.
Definition zn (z : Z) : N := Z.to_N (z + 4294967296).
Definition serv (v : value) : list N := match v with VInt z => [zn z] | VFloat b => [b] | VBool b => [if b then 1 else 0]%N | VBytes l => l end.
Definition ser_res (r : list N * Z * resval) : list N :=
  let '(id, fl, x) := r in id ++ [zn fl] ++ match x with RInline v => [0; zn v]%N | RData d => [1; N.of_nat (List.length d)]%N ++ d end.
Definition ser_sheet (bs : list N) : list N :=
  match read_sheet SF bs with
  | None => [777]%N
  | Some (ver, qs) => [zn ver; N.of_nat (List.length qs)] ++ flat_map (fun q => [zn (sq_num q); (if sq_clamp q then 1 else 0)%N; sq_total q; N.of_nat (List.length (sq_frames q))]
        ++ flat_map (fun f => sf_duration f :: List.concat (sf_coords f)) (sq_frames q)) qs
  end.
Definition dec (low_size : nat) (bs : list N) : list N :=
  match decode_file F gen_flagcfg low_size bs with
  | None => [999]%N
  | Some (m, hdr, d, res, sheet, lo, hi) =>
      [zn m] ++ flat_map serv hdr ++ [zn d; N.of_nat (List.length res)] ++ flat_map ser_res res
      ++ match sheet with Some sb => 1%N :: ser_sheet sb | None => [0]%N end ++ [N.of_nat lo; N.of_nat hi]
  end.
Definition enc (v : vfile) : list N := match encode_file F gen_flagcfg v with Some bs => bs | None => [999]%N end.
Definition mk_sheet (ver : Z) (qs : list sheet_seq) : list N := match make_sheet SF ver qs with Some bs => bs | None => [999]%N end.
"""


def _fbits(x: float) -> int:
    return struct.unpack('<I', struct.pack('<f', x))[0]


def _zn(z: int) -> int:
    return z + 4294967296


def cont_config(rng: random.Random, fmts: list[str]) -> dict:
    w, h = rng.choice([(1, 1), (2, 1), (1, 4), (2, 2), (4, 2), (4, 4), (8, 2), (2, 8), (8, 8)])
    small = [f for f in fmts if 'BLUESCREEN' not in f]
    c = gen_config(rng, w, h, small)
    c['save_version'] = None
    c['mode'] = 'explicit'
    return c


def _build_vtf(cfg: dict):
    from srctools.vtf import VTF, ImageFormats, VTFFlags, Resource, ResourceID, SheetSequence, TexCoord
    from srctools.math import Vec
    rng = random.Random(cfg['seed'])
    sheet = {}
    if cfg['sheet']:
        for sn, sq in cfg['sheet'].items():
            sheet[int(sn)] = SheetSequence([(d, *[TexCoord(*t) for t in tcs]) for d, tcs in sq['frames']], sq['clamp'], sq['duration'])
    vtf = VTF(cfg['w'], cfg['h'], version=(7, cfg['version']), ref=Vec(*cfg['ref']), frames=cfg['frames'], bump_scale=cfg['bump'],
              sheet_info=sheet, flags=VTFFlags(cfg['flags'] | (0x4000 if cfg['cube'] else 0)), fmt=ImageFormats[cfg['fmt']],
              thumb_fmt=ImageFormats[cfg['thumb']], depth=cfg['depth'])
    vtf.first_frame_index = cfg['first_frame']
    for rid, fl, data in cfg['resources']:
        key = rid.encode('latin1')
        try:
            key = ResourceID(key)
        except ValueError:
            pass
        vtf.resources[key] = Resource(fl, data if isinstance(data, int) else bytes.fromhex(data))
    for fr in vtf._frames.values():
        fr.copy_from(rng.randbytes(4 * fr.width * fr.height))
    vtf._low_res.copy_from(rng.randbytes(4 * 16 * 16))
    return vtf


def _expected_meta(cfg: dict, vtf, n_extra_res: int) -> list[int]:
    """the serialisation `dec` must print, from the configuration (not from the file)"""
    ver = cfg['version']
    n_res = len(cfg['resources']) + 2 + (1 if cfg['sheet'] else 0)
    hs = 80 + 8 * n_res if ver >= 3 else 80
    out = [_zn(ver), _zn(hs), _zn(cfg['w']), _zn(cfg['h']), _zn(cfg['flags'] | (0x4000 if cfg['cube'] else 0)), _zn(cfg['frames']), _zn(cfg['first_frame'])]
    out += [_fbits(x) for x in cfg['ref']] + [_fbits(cfg['bump'])]
    out += [_zn(vtf.format.bin_value(True)), _zn(vtf.mipmap_count), _zn(vtf.low_format.bin_value(True)), _zn(16), _zn(16)]
    out += [_zn(cfg['depth'])]
    if ver >= 3:
        out.append(len(cfg['resources']))
        for rid, fl, data in cfg['resources']:
            out += list(rid.encode('latin1'))
            if isinstance(data, int):
                out += [_zn(fl | 2), 0, _zn(data)]
            else:
                d = bytes.fromhex(data)
                out += [_zn(fl & ~2), 1, len(d)] + list(d)
        if cfg['sheet']:
            out += [1, _zn(cfg['sheet_ver']), len(cfg['sheet'])]
            for sn, sq in cfg['sheet'].items():
                out += [_zn(int(sn)), 1 if sq['clamp'] else 0, _fbits(sq['duration']), len(sq['frames'])]
                for d, tcs in sq['frames']:
                    out.append(_fbits(d))
                    for t in tcs:
                        out += [_fbits(x) for x in t]
        else:
            out.append(0)
    else:
        out += [0, 0]
    return out


def _coq_sheet(cfg: dict) -> str:
    qs = []
    for sn, sq in cfg['sheet'].items():
        frs = '; '.join('{| sf_duration := %d; sf_coords := [%s] |}' % (_fbits(d), '; '.join('[' + '; '.join(str(_fbits(x)) for x in t) + ']%N' for t in tcs))
                        for d, tcs in sq['frames'])
        qs.append('{| sq_num := %d; sq_clamp := %s; sq_total := %d; sq_frames := [%s] |}' % (int(sn), 'true' if sq['clamp'] else 'false', _fbits(sq['duration']), frs))
    return f'(mk_sheet {cfg["sheet_ver"]} [{"; ".join(qs)}])'


def foreign_chain(data: bytes, w: int, h: int, n_full: int, dims: list, blocks: list) -> str | None:
    """A wxh RGBA8888 file that declares all n_full levels (smallest first in the file): what VTF.read must make of it."""
    from srctools.vtf import VTF
    what = f'{w}x{h} file declaring all {n_full} mipmap levels'
    try:
        v = VTF.read(io.BytesIO(data))
        if v.mipmap_count != n_full or set(v._frames) != {(0, 0, m) for m in range(n_full)}:
            return f'{what}: read as {v.mipmap_count} levels with frame table {sorted(v._frames)}'
        for (fw, fh), blk, m in zip(dims, blocks, reversed(range(n_full))):
            f = v._frames[0, 0, m]
            if (f.width, f.height) != (fw, fh):
                return f'{what}: level {m} read as {f.width}x{f.height} instead of {fw}x{fh}'
            off = f._fileinfo[1]
            if data[off:off + len(blk)] != blk:
                return f'{what}: level {m} is read from offset {off}, where its block is not'
        v.load()
        for (fw, fh), blk, m in zip(dims, blocks, reversed(range(n_full))):
            if bytes(v._frames[0, 0, m]._data) != blk:
                return f'{what}: level {m} loads other pixels than the file holds'
    except Exception as e:
        return f'{what}: {type(e).__name__}: {e}'
    return None


def corr_container(ck: Ck) -> None:
    """Both directions: files saved by the implementation are decoded by the Coq model (decode_file / read_sheet over the
    GENERATED formats) and compared with the configuration; files encoded by the Coq model are read by VTF.read."""
    from srctools.vtf import VTF, ImageFormats, SheetSequence
    from srctools import _py_vtf_readwrite as rw
    fmts = sorted(f.name for f in rw._SAVE if f in rw._LOAD)
    n = ck.budget(14, 60)
    cfgs = []
    forced = [dict(version=2), dict(version=3, resources=[['CRC', 0, 7], ['KVD', 0, '0102030405']]), dict(version=4, cube=True, depth=1),
              dict(version=5, cube=True, depth=1), dict(version=5, cube=False, depth=3, frames=2)]
    for i in range(n):
        c = cont_config(ck.rng, fmts)
        if i < len(forced):
            c.update(forced[i])
            if c['version'] < 3:
                c['resources'], c['sheet'] = [], None
        cfgs.append(c)
    exprs, metas = [], []
    for c in cfgs:
        try:
            vtf = _build_vtf(c)
            buf = io.BytesIO()
            vtf.save(buf, sheet_seq_version=c['sheet_ver'])
        except Exception as e:
            ck.violation(f'save-raises-{type(e).__name__}', f'save raised {type(e).__name__}: {e}', {'config': c})
            continue
        b1 = buf.getvalue()
        try:
            lazy = VTF.read(io.BytesIO(b1))
        except Exception as e:
            ck.violation(f'read-raises-{type(e).__name__}', f'reading the saved file raised {type(e).__name__}: {e}', {'config': c})
            ck.obligation('correspondence:container', False, f'a file saved by VTF.save cannot be read back: {type(e).__name__}: {e}')
            ck.tie_broken.append('correspondence container: VTF.read raises on a file written by VTF.save')
            return
        offs = [f._fileinfo[1] for f in lazy._frames.values() if f._fileinfo]
        low_fi = lazy._low_res._fileinfo
        low_size = ImageFormats[c['thumb']].frame_size(16, 16) if c['thumb'] != 'NONE' else 0
        exp = _expected_meta(c, vtf, 0)
        hi = min(offs) if offs else len(b1)
        lo = hi - low_size
        exp += [lo if (c['version'] >= 3 or True) else 0, hi]
        ck.count('container_files_decoded_by_model')
        ck.hist('container_version', f'7.{c["version"]}')
        ck.hist('container_shape', ('cube' if c['cube'] else f'depth{c["depth"]}') + f'/res{len(c["resources"])}' + ('/sheet' if c['sheet'] else ''))
        ck.seen(('cont', json.dumps(c, sort_keys=True)))
        exprs.append(f'dec (N.to_nat {low_size}%N) {common.coq_bytes(b1)}')
        metas.append(('dec', c, exp, None))
        # model -> implementation: same metadata, fresh random image blocks of the right sizes
        r = random.Random(c['seed'] + 1)
        order = [f for f in lazy._frames.values()]          # dict order of read() = order in the file
        blocks = [r.randbytes(vtf.format.frame_size(f.width, f.height)) for f in order]
        lowb = r.randbytes(low_size)
        hdr = [0, c['w'], c['h'], c['flags'] | (0x4000 if c['cube'] else 0), c['frames'], c['first_frame']]
        hv = '; '.join(f'VInt {v}' for v in hdr) + '; ' + '; '.join(f'VFloat {_fbits(x)}' for x in c['ref']) + f'; VFloat {_fbits(c["bump"])}; ' \
            + '; '.join(f'VInt ({v})' for v in [vtf.format.bin_value(True), vtf.mipmap_count, vtf.low_format.bin_value(True), 16, 16])
        res = '; '.join('(%s, %d%%Z, %s)' % (common.coq_bytes(rid.encode('latin1')), fl,
                                          f'RInline {d}%Z' if isinstance(d, int) else f'RData {common.coq_bytes(bytes.fromhex(d))}')
                        for rid, fl, d in c['resources'])
        sheet = f'Some {_coq_sheet(c)}' if c['sheet'] else 'None'
        exprs.append('enc {| v_minor := %d; v_header := [%s]; v_depth := %d; v_res := [%s]; v_sheet := %s; v_low := %s; v_high := [%s] |}'
                     % (c['version'], hv, c['depth'], res, sheet, common.coq_bytes(lowb), '; '.join(common.coq_bytes(b) for b in blocks)))
        metas.append(('enc', c, (vtf, blocks, lowb, [k for k in lazy._frames]), None))
    # files as OTHER tools write them: all levels down to 1x1 are declared (mipmap_count = log2(max side) + 1), so the small
    # levels of a non-square texture have one side clamped to 1 - srctools itself never declares them (known finding
    # mipmap-count-off-by-one), but VTF.read must give them the size max(w >> m, 1) x max(h >> m, 1) and the right blocks
    for (fw, fh) in [(8, 2), (2, 16), (4, 4)]:
        fv = VTF(fw, fh, version=(7, 4), fmt=ImageFormats.RGBA8888, thumb_fmt=ImageFormats.NONE)
        n_full = max(fw, fh).bit_length()
        r = random.Random(ck.seed + fw * 100 + fh)
        dims = [(max(fw >> m, 1), max(fh >> m, 1)) for m in reversed(range(n_full))]
        blocks = [r.randbytes(4 * a * b_) for a, b_ in dims]
        hv = '; '.join(f'VInt {v}' for v in [0, fw, fh, 0, 1, 0]) + '; VFloat 0; VFloat 0; VFloat 0; VFloat 1065353216; ' \
            + '; '.join(f'VInt ({v})' for v in [fv.format.bin_value(True), n_full, fv.low_format.bin_value(True), 16, 16])
        exprs.append('enc {| v_minor := 4; v_header := [%s]; v_depth := 1; v_res := []; v_sheet := None; v_low := []; v_high := [%s] |}'
                     % (hv, '; '.join(common.coq_bytes(b_) for b_ in blocks)))
        metas.append(('foreign', {'w': fw, 'h': fh}, (n_full, dims, blocks), None))
        ck.count('container_foreign_full_chain_files')
    vals = ck.coq_eval(IMPORTS_CONT, exprs, name='container', preamble=PRE_CONT, timeout=600) if exprs else []
    if vals is None:
        ck.obligation('correspondence:container', False, 'the container model could not be evaluated in Coq')
        ck.tie_broken.append('correspondence container: Coq evaluation failed')
        return
    bad = []
    for (kind, c, exp, _), v in zip(metas, vals):
        got = common.parse_coq_N_list(v)
        if kind == 'dec':
            if got != exp:
                i = next((i for i, (a, b) in enumerate(zip(got, exp)) if a != b), min(len(got), len(exp)))
                bad.append({'direction': 'implementation file decoded by the model', 'config': c, 'first_difference_at': i,
                            'model': got[max(0, i - 2):i + 3], 'expected': exp[max(0, i - 2):i + 3]})
            continue
        if kind == 'foreign':
            what = foreign_chain(bytes(got), c['w'], c['h'], *exp)
            if what is not None:
                bad.append({'direction': 'full-chain file (as other tools write it) encoded by the model, read by VTF.read', 'size': c, 'problem': what})
                ck.violation('foreign-full-mip-chain-misread', what, {'foreign_chain': [bytes(got).hex(), c['w'], c['h'], exp[0], exp[1], [b_.hex() for b_ in exp[2]]]})
            continue
        vtf, blocks, lowb, keys = exp
        ck.count('container_files_encoded_by_model')
        try:
            data = bytes(got)
            v2 = VTF.read(io.BytesIO(data))
            probs = []
            for a in ('width', 'height', 'depth', 'frame_count', 'first_frame_index', 'mipmap_count', 'flags', 'format', 'low_format', 'bumpmap_scale', 'version'):
                if getattr(v2, a) != getattr(vtf, a):
                    probs.append(a)
            if tuple(v2.reflectivity) != tuple(vtf.reflectivity):
                probs.append('reflectivity')
            want = [(k, (r.flags | 2) if isinstance(r.data, int) else (r.flags & ~2), r.data) for k, r in vtf.resources.items()]
            if c['version'] >= 3 and want != [(k, r.flags, r.data) for k, r in v2.resources.items()]:
                probs.append('resources')
            s1 = {k: (q.frames, bool(q.clamp), q.duration) for k, q in vtf.sheet_info.items()}
            s2 = {k: (q.frames, bool(q.clamp), q.duration) for k, q in v2.sheet_info.items()}
            if c['version'] >= 3 and (s1 != s2 or list(s1) != list(s2)):
                probs.append('sheet')
            if list(v2._frames) != keys:
                probs.append('frame keys')
            for f, blk in zip(v2._frames.values(), blocks):
                off = f._fileinfo[1]
                if data[off:off + len(blk)] != blk:
                    probs.append('frame bytes')
                    break
            if lowb and data[v2._low_res._fileinfo[1]:][:len(lowb)] != lowb:
                probs.append('thumbnail bytes')
            if probs:
                bad.append({'direction': 'model file read by VTF.read', 'config': c, 'differs': probs})
        except Exception as e:
            bad.append({'direction': 'model file read by VTF.read', 'config': c, 'raises': f'{type(e).__name__}: {e}'})
    ck.obligation('correspondence:container', not bad,
                  f'{len(exprs) // 2} configurations (versions 7.2-7.5, cubemaps with/without sphere map, depth, frames, inline and out-of-line resources, '
                  f'sheets v0/v1, float fields as bit patterns): files saved by VTF.save decode in the Coq model (generated formats) to the configuration, '
                  f'and files encoded by the model are read by VTF.read with the same metadata, resources, sheets, frame keys and frame/thumbnail bytes: '
                  f'{len(bad)} disagreements' + (f'; first: {json.dumps(bad[0], default=str)[:600]}' if bad else ''))
    if bad:
        ck.tie_broken.append('correspondence container model vs VTF.save / VTF.read')
        ck.extra['container_disagreement'] = bad[:3]


# ================================================================================================ frame life cycle
FRAME_OBS = {
    'frame_init_has_no_pixels_and_no_file_source': 'efftable_eqb gen_eff_init ideal_clear',
    'frame_load_decodes_the_file_source_once_else_keeps_or_blanks': 'efftable_eqb gen_eff_load ideal_load',
    'frame_clear_drops_pixels_and_file_source': 'efftable_eqb gen_eff_clear ideal_clear',
    'frame_fill_replaces_pixels_and_forgets_file_source': 'efftable_eqb gen_eff_fill ideal_new',
    'frame_copy_from_replaces_pixels_and_forgets_file_source': 'efftable_eqb gen_eff_copy_from ideal_new',
    'frame_rescale_from_scales_and_keeps_file_source': 'efftable_eqb gen_eff_rescale_from ideal_rescale',
    'frame_setitem_loads_then_edits': 'efftable_eqb gen_eff_setitem ideal_setitem',
    'frame_other_methods_behave_like_a_modelled_operation': 'forallb (fun p => like_a_modelled_op (snd p)) gen_eff_others',
    'frame_methods_load_a_parameter_frame_before_reading_its_pixels': 'match gen_unloaded_reads with nil => true | _ => false end',
    'frame_slots_stored_outside_class_only_by_read_attach_and_exit_detach':
        'forallb (fun e => existsb (fun a => String.eqb (fst (fst e)) (fst (fst a)) && String.eqb (snd (fst e)) (snd (fst a)) '
        '&& String.eqb (snd e) (snd a)) (("__exit__", "_fileinfo", "none") :: ("read", "_fileinfo", "attach_fresh") :: nil))%string gen_external_stores',
    'compute_mipmaps_loads_level_0_first': 'cm_loads_level0 gen_chaincfg',
    'compute_mipmaps_regenerates_only_levels_without_pixels': 'match cm_guard gen_chaincfg with GDataNone | GDataNoneAndSrcNone => true | _ => false end',
    'compute_mipmaps_scales_from_the_previous_level': 'cm_from_previous gen_chaincfg',
    'rescale_from_loads_the_larger_frame_first': 'rs_loads_parent gen_chaincfg',
    'save_calls_compute_mipmaps_before_the_frames': 'sv_computes_first gen_chaincfg',
    'save_loads_each_frame_then_encodes_then_writes': 'chain_ok {| cm_loads_level0 := true; cm_guard := GDataNone; cm_from_previous := true; '
                                                      'rs_loads_parent := true; sv_computes_first := true; sv_steps := sv_steps gen_chaincfg |}',
    'frame_chain_configuration_ok': 'chain_ok gen_chaincfg',
}

MUTATORS = ['load', 'clear', 'fill', 'copy_from', 'rescale_from', '__setitem__']


def frame_obligations(info: dict) -> dict[str, str]:
    """FRAME_OBS plus one named boolean per method of Frame in the census of exits by exception (Gen/VtfFrameSM_gen.v,
    gen_raise_tables): at every explicit raise / call that can raise, nothing the frame shows has been changed yet."""
    obs = dict(FRAME_OBS)
    names = list(MUTATORS) + [n for n in info.get('raise_tables', {}) if n not in MUTATORS]
    for n in names:
        obs[f'frame_{n.strip("_")}_has_changed_nothing_the_frame_shows_wherever_it_can_raise'] = f'method_raises_cleanly gen_raise_tables "{n}"'
    obs['vtf_methods_other_than_init_change_no_attribute_of_the_object_itself'] = 'match gen_vtf_self_stores with nil => true | _ => false end'
    obs['every_frame_method_keeps_the_file_source_and_the_pixels_until_nothing_can_raise_any_more'] = \
        '(raise_tables_ok gen_raise_tables && negb (Nat.eqb (List.length gen_raise_tables) 0))%bool'
    return obs


PRE_FRAME = """Import ListNotations. Open Scope nat_scope. Open Scope list_scope.
Inductive sym := SFile (m : nat) | SNew (k : nat) | SBlank (m : nat) | SScale (m : nat) (s : sym) | SMod (s : sym).
Fixpoint ser (s : sym) : list nat :=
  match s with SFile m => [0; m] | SNew k => [1; k] | SBlank m => [2; m] | SScale m s => 3 :: m :: ser s | SMod s => 4 :: ser s end.
Definition out (l : list (option sym)) : list nat := flat_map (fun o => match o with Some s => ser s ++ [99] | None => [98; 99] end) l.
Definition hist (n : nat) (ops : list (cop sym)) : list nat :=
  let chain := map (fun m => {| f_data := None; f_src := Some (SFile m) |}) (seq 0 n) in
  let chain' := run_cops sym sym SBlank (fun b => b) SScale gen_eff_load gen_eff_rescale_from gen_chaincfg
                         gen_eff_clear gen_eff_fill gen_eff_copy_from gen_eff_setitem chain ops in
  out (save_chain sym sym SBlank (fun b => b) (fun p => p) SScale gen_eff_load gen_eff_rescale_from gen_chaincfg chain').
"""
HIST_W, HIST_H = 32, 16


def gen_history(rng: random.Random, n: int) -> list[list]:
    ops: list[list] = []
    k = 0
    for _ in range(rng.choice([0, 1, 1, 2, 2, 3, 4, 6])):
        kind = rng.choice(['load', 'clear', 'clear', 'fill', 'copy', 'set', 'rescale', 'compute', 'exit', 'clear_after'])
        m = rng.randrange(n)
        if kind == 'rescale':
            m = rng.randrange(1, n) if n > 1 else 0
        if kind == 'exit' and rng.random() < 0.6:
            kind = 'clear'
        if kind in ('fill', 'copy'):
            ops.append([kind, m, k, rng.randrange(1 << 30)])
            k += 1
        elif kind in ('compute', 'exit'):
            ops.append([kind])
        else:
            ops.append([kind, m])
    return ops


def _hist_new_data(op: list, w: int, h: int) -> bytes:
    r = random.Random(op[3])
    if op[0] == 'fill':
        return bytes(r.randrange(256) for _ in range(4)) * (w * h)
    return r.randbytes(4 * w * h)


def _set_px(b: bytes) -> bytes:
    return bytes((1, 2, 3, 4)) + b[4:]


def history_base(seed: int) -> tuple[bytes, int, list[bytes]]:
    """A 32x16 RGBA8888 file whose stored levels are unrelated random pixels; -> (file, levels written, their pixels)."""
    from srctools.vtf import VTF, ImageFormats
    r = random.Random(seed)
    v = VTF(HIST_W, HIST_H, fmt=ImageFormats.RGBA8888, thumb_fmt=ImageFormats.NONE)
    for fr in v._frames.values():
        fr.copy_from(r.randbytes(4 * fr.width * fr.height))
    buf = io.BytesIO()
    v.save(buf)
    n = v.mipmap_count
    return buf.getvalue(), n, [bytes(v.get(mipmap=m)._data) for m in range(n)]


# ---- calls that must be REJECTED (round 5): the caller catches the exception and carries on
REJECTS = ['copy_short', 'copy_long', 'copy_rgb_without_format', 'copy_frame_of_other_size', 'copy_format_without_decoder',
           'copy_not_a_buffer', 'rescale_from_unrelated_size', 'setitem_out_of_range', 'getitem_out_of_range',
           'setitem_three_values', 'setitem_channel_out_of_range', 'setitem_channel_not_a_number', 'fill_out_of_range', 'self_copy']
VTF_REJECTS = ['save_bad_version', 'save_stream_fails', 'get_bad_key', 'volumetric_as_7_1']
ACCEPTED_NOOPS = {'self_copy'}       # not rejected, but must not change anything either


class _NotRejected(Exception):
    pass


class _FailingStream(io.BytesIO):
    """write() fails once `limit` bytes were written (disk full)"""
    def __init__(self, limit: int) -> None:
        super().__init__()
        self.limit = limit

    def write(self, b):
        if self.tell() + len(b) > self.limit:
            raise OSError(28, 'No space left on device')
        return super().write(b)


def _do_reject(v, fr, m: int, which: str) -> None:
    from srctools.vtf import VTF, ImageFormats
    w, h = fr.width, fr.height
    other = VTF(4 * w, 4 * h, fmt=ImageFormats.RGBA8888, thumb_fmt=ImageFormats.NONE).get()
    other.fill(9, 8, 7, 6)
    calls = {
        'copy_short': (lambda: fr.copy_from(bytes(4 * w * h - 4)), (ValueError, BufferError)),
        'copy_long': (lambda: fr.copy_from(bytes(4 * w * h + 4)), (ValueError, BufferError)),
        'copy_rgb_without_format': (lambda: fr.copy_from(bytes([7]) * (3 * w * h)), (ValueError, BufferError)),
        'copy_frame_of_other_size': (lambda: fr.copy_from(other), (ValueError,)),
        'copy_format_without_decoder': (lambda: fr.copy_from(bytes([7]) * (8 * w * h), ImageFormats.RGBA16161616), (NotImplementedError,)),
        'copy_not_a_buffer': (lambda: fr.copy_from(12345), (TypeError,)),
        'rescale_from_unrelated_size': (lambda: fr.rescale_from(other), (ValueError,)),
        'setitem_out_of_range': (lambda: fr.__setitem__((w, 0), (1, 2, 3, 4)), (IndexError,)),
        'getitem_out_of_range': (lambda: fr[0, h], (IndexError,)),
        'setitem_three_values': (lambda: fr.__setitem__((0, 0), (1, 2, 3)), (ValueError, TypeError)),
        'setitem_channel_out_of_range': (lambda: fr.__setitem__((1 % w, 0), (1, 2, 3, 999)), (OverflowError, ValueError)),
        'setitem_channel_not_a_number': (lambda: fr.__setitem__((0, 0), (1, 'x', 3, 4)), (TypeError, ValueError)),
        'fill_out_of_range': (lambda: fr.fill(256, 0, 0, 255), (OverflowError, ValueError)),
        'self_copy': (lambda: fr.copy_from(fr), ()),
    }
    fn, excs = calls[which]
    try:
        fn()
    except excs:
        return
    if which not in ACCEPTED_NOOPS:
        raise _NotRejected(which)


def _do_vtf_reject(v, which: str) -> None:
    try:
        if which == 'save_bad_version':
            v.save(io.BytesIO(), version=(7, 9))
        elif which == 'save_stream_fails':
            v.save(_FailingStream(200))
        elif which == 'get_bad_key':
            v.get(mipmap=99)
        elif which == 'volumetric_as_7_1':
            old = v.depth
            v.depth = 2
            try:
                v.save(io.BytesIO(), version=(7, 1))
            finally:
                v.depth = old
    except (ValueError, OSError, KeyError):
        return
    raise _NotRejected(which)


def reject_alternatives(ops: list[list]):
    """What a rejected call may amount to: nothing, or what an explicit load() of the frame does (every reading access
    does that: a cleared frame gets its blank pixels); a save() that fails half-way may have run compute_mipmaps()."""
    idx = [i for i, op in enumerate(ops) if op[0] == 'reject']
    for choice in itertools.product((0, 1), repeat=len(idx)):
        pick = dict(zip(idx, choice))
        out: list[list] = []
        for i, op in enumerate(ops):
            if op[0] != 'reject':
                out.append(op)
            elif pick[i]:
                out.append(['compute'] if op[2] in VTF_REJECTS else ['load', op[1]])
        yield out


def gen_reject_history(rng: random.Random, n: int) -> list[list]:
    """a random history without __exit__, with one or two rejected calls in it (a failing save() only as the last operation)"""
    ops = [op for op in gen_history(rng, n) if op[0] != 'exit']
    for _ in range(rng.choice([1, 1, 2])):
        which = rng.choice(REJECTS + REJECTS + VTF_REJECTS)
        if which in VTF_REJECTS:
            ops.append(['reject', 0, which])
        else:
            ops.insert(rng.randrange(len(ops) + 1), ['reject', rng.randrange(n), which])
    vt = [op for op in ops if op[0] == 'reject' and op[2] in VTF_REJECTS]
    return [op for op in ops if op not in vt] + vt


def reject_view_case(seed: int, pre: str, m: int, which: str | None) -> list[tuple[str, str]]:
    """One frame of a lazily read file in the state `pre`, one rejected call, then what the frame SHOWS."""
    from srctools.vtf import VTF
    base, n, levels = history_base(seed)
    m = min(m, n - 1)
    v = VTF.read(io.BytesIO(base))
    fr = v.get(mipmap=m)
    want = levels[m]
    if pre == 'loaded':
        fr.load()
    elif pre == 'cleared':
        fr.clear()
        want = bytes((0, 0, 0, 255)) * (fr.width * fr.height)
    elif pre == 'rescaled' and m >= 1:
        fr.rescale_from(v.get(mipmap=m - 1))
    what = f'lazy read of a {HIST_W}x{HIST_H} file, level {m} {pre}, then the rejected call {which}'
    try:
        if which is None:
            pass            # base line: the same frame without the rejected call
        elif which in VTF_REJECTS:
            _do_vtf_reject(v, which)
        else:
            _do_reject(v, fr, m, which)
    except _NotRejected:
        return [(f'call-that-must-be-rejected-is-accepted-{which}', what + ': no exception')]
    except Exception as e:     # noqa: BLE001
        return [(f'rejected-call-raises-{type(e).__name__}-{which}', what + f': unexpected {type(e).__name__}: {e}')]
    try:
        got = bytes(memoryview(fr))
    except Exception as e:     # noqa: BLE001
        return [(f'rejected-call-breaks-the-frame-{which}', what + f': the frame can no longer be read: {type(e).__name__}: {e}')]
    if pre == 'cleared' and which in ('save_stream_fails', 'volumetric_as_7_1', 'save_bad_version'):
        return []       # a save() that fails half-way may have regenerated the cleared level (compute_mipmaps), as a complete one does
    if got != want:
        black = got == bytes((0, 0, 0, 255)) * (fr.width * fr.height)
        return [(f'rejected-call-changes-the-pixels-shown-{which}', what + ': the frame shows other pixels afterwards'
                 + (' (opaque black)' if black else ''))]
    return []


META_REJECTS = ['save_version_7_9', 'save_version_8_2', 'save_stream_fails_after_40', 'save_stream_fails_after_90',
                'save_stream_fails_after_150', 'save_stream_fails_after_400', 'save_stream_fails_after_2000', 'get_mipmap_99',
                'clear_mipmaps_after_not_a_number', 'thumbnail_copy_short', 'thumbnail_copy_frame_of_other_size',
                'frame_1_copy_short', 'volumetric_as_7_1']


def reject_meta_case(seed: int, which: str | None) -> list[tuple[str, str]]:
    """A 7.4 file with flags, reflectivity, two frames, an inline and a data resource, a particle sheet and a thumbnail is read
    lazily; one call is rejected (or a save() fails half-way) and the caller carries on; the next save() must write the file
    byte for byte (a lazy re-save does, without the rejected call: checked first)."""
    from srctools.vtf import VTF, ImageFormats, Resource, ResourceID, VTFFlags, SheetSequence, TexCoord
    r = random.Random(seed)
    tc = TexCoord(0.0, 0.25, 0.5, 0.75)
    seq = SheetSequence(frames=[(1.0, tc, tc, tc, tc)], clamp=True, duration=1.0)
    v = VTF(16, 8, frames=2, version=(7, 4), fmt=ImageFormats.BGRA8888, thumb_fmt=ImageFormats.RGB888, ref=(0.25, 0.5, 0.75),
            bump_scale=2.0, flags=VTFFlags.CLAMP_S | VTFFlags.NO_MIP, sheet_info={3: seq})
    v.resources[ResourceID.LOD_SETTINGS] = Resource(0, 0x01020304)
    v.resources[b'XYZ'] = Resource(0, bytes(r.randrange(256) for _ in range(21)))
    for fr in v._frames.values():
        fr.copy_from(r.randbytes(4 * fr.width * fr.height))
    v._low_res.copy_from(r.randbytes(4 * v._low_res.width * v._low_res.height))
    b = io.BytesIO()
    v.save(b)
    data = b.getvalue()
    w = VTF.read(io.BytesIO(data))
    what = f'a 7.4 file with resources, sheet and thumbnail read lazily, then the rejected call {which}'
    try:
        try:
            if which is None:
                pass
            elif which.startswith('save_version_'):
                w.save(io.BytesIO(), version=(int(which[-3]), int(which[-1])))
            elif which.startswith('save_stream_fails_after_'):
                w.save(_FailingStream(int(which.rsplit('_', 1)[1])))
            elif which == 'get_mipmap_99':
                w.get(mipmap=99)
            elif which == 'clear_mipmaps_after_not_a_number':
                w.clear_mipmaps(after='x')
            elif which == 'thumbnail_copy_short':
                w._low_res.copy_from(bytes(5))
            elif which == 'thumbnail_copy_frame_of_other_size':
                w._low_res.copy_from(w.get(frame=1))
            elif which == 'frame_1_copy_short':
                w.get(frame=1).copy_from(bytes(5))
            elif which == 'volumetric_as_7_1':
                w.depth = 2
                try:
                    w.save(io.BytesIO(), version=(7, 1))
                finally:
                    w.depth = 1
        except (ValueError, OSError, KeyError, TypeError, BufferError):
            pass
        else:
            if which is not None:
                return [(f'call-that-must-be-rejected-is-accepted-{which}', what + ': no exception')]
        out = io.BytesIO()
        w.save(out)
    except Exception as e:     # noqa: BLE001
        return [(f'rejected-call-then-save-raises-{type(e).__name__}-{which}', what + f', then save: {type(e).__name__}: {e}')]
    if out.getvalue() != data:
        a, c = out.getvalue(), data
        i = next((k for k in range(min(len(a), len(c))) if a[k] != c[k]), min(len(a), len(c)))
        return [(f'rejected-call-changes-the-saved-file-{which}', what + f': the next save() writes {len(a)} bytes, the file has {len(c)}, first '
                 f'difference at byte {i}')]
    return []


class _FlakyStream(io.BytesIO):
    """fails exactly once, in the given way, the next time a frame is fetched"""
    mode = ''

    def seek(self, *a):
        if self.mode == 'seek':
            self.mode = ''
            raise OSError(5, 'Input/output error')
        return super().seek(*a)

    def read(self, *a):
        if self.mode == 'read':
            self.mode = ''
            raise OSError(5, 'Input/output error')
        if self.mode == 'short':
            self.mode = ''
            return super().read(*a)[:-3]
        return super().read(*a)


def failed_load_case(seed: int, mode: str, m: int, then: str) -> list[tuple[str, str]]:
    """The stream fails ONCE while level m is fetched (by load() / pixel access / save()); the caller catches the error;
    afterwards the frame must either raise again or show the file's pixels, and a save must store them."""
    from srctools.vtf import VTF
    base, n, levels = history_base(seed)
    m = min(m, n - 1)
    stream = _FlakyStream(base)
    v = VTF.read(stream)
    fr = v.get(mipmap=m)
    what = f'lazy read of a {HIST_W}x{HIST_H} file, the stream fails once ({mode}) while level {m} is fetched by {then}'
    stream.mode = mode
    try:
        if then == 'load':
            fr.load()
        elif then == 'getitem':
            fr[0, 0]
        else:
            v.save(io.BytesIO())                   # save() walks the smallest level first: the failure hits that one
    except (OSError, BufferError, ValueError):
        pass
    else:
        if stream.mode == '':
            return [(f'failed-load-not-reported-{mode}', what + ': no exception although the stream failed')]
    stream.mode = ''
    try:
        out = io.BytesIO()
        v.save(out)
        back = VTF.read(io.BytesIO(out.getvalue()))
        back.load()
        got = [bytes(back.get(mipmap=k)._data) for k in range(n)]
    except Exception as e:     # noqa: BLE001
        return [(f'failed-load-then-save-raises-{type(e).__name__}', what + f', then save: {type(e).__name__}: {e}')]
    if got != levels:
        k = next(i for i in range(n) if got[i] != levels[i])
        return [('failed-load-leaves-the-frame-without-its-file-source', what + f'; the caller catches the error; a later save() (the stream works '
                 f'again) stores other pixels than the file has for level {k}' + (' (opaque black)' if got[k] == bytes((0, 0, 0, 255)) * (len(got[k]) // 4) else ''))]
    return []


def run_history_impl(base: bytes, n: int, ops: list[list]) -> list[bytes]:
    """The implementation: lazy read, operations, save, read back; pixels of levels 0..n-1 of the new file."""
    from srctools.vtf import VTF
    v = VTF.read(io.BytesIO(base))
    for op in ops:
        kind = op[0]
        if kind == 'compute':
            v.compute_mipmaps()
            continue
        if kind == 'exit':
            v.__exit__(None, None, None)
            continue
        if kind == 'clear_after':           # VTF.clear_mipmaps(after=a): the levels BELOW level a (index > a) are cleared, level a is kept
            v.clear_mipmaps(after=op[1])
            continue
        if kind == 'reject' and op[2] in VTF_REJECTS:
            _do_vtf_reject(v, op[2])
            continue
        fr = v.get(mipmap=op[1])
        if kind == 'reject':
            _do_reject(v, fr, op[1], op[2])
            continue
        if kind == 'load':
            fr.load()
        elif kind == 'clear':
            fr.clear()
        elif kind == 'fill':
            fr.fill(*_hist_new_data(op, 1, 1))
        elif kind == 'copy':
            fr.copy_from(_hist_new_data(op, fr.width, fr.height))
        elif kind == 'set':
            fr[0, 0] = (1, 2, 3, 4)
        elif kind == 'rescale':
            if op[1] >= 1:
                fr.rescale_from(v.get(mipmap=op[1] - 1))
    out = io.BytesIO()
    v.save(out)
    v2 = VTF.read(io.BytesIO(out.getvalue()))
    v2.load()
    return [bytes(v2.get(mipmap=m)._data) for m in range(n)]


def expand_history(ops: list[list], n: int) -> list[list]:
    """clear_mipmaps(after=a) is, for the levels of one frame, clear() of every level with index > a"""
    out: list[list] = []
    for op in ops:
        if op[0] == 'clear_after':
            out += [['clear', m] for m in range(op[1] + 1, n)]
        else:
            out.append(op)
    return out


def spec_history(levels: list[bytes], ops: list[list]) -> list[tuple[str, bytes]]:
    """The property restated directly (independent of the Coq model and of the source): per level (why, pixels) that
    save() must write.  A level keeps the file's pixels until something writes to it; reading never changes anything;
    rescale_from/compute_mipmaps never replace pixels that are still only in the file; a cleared level is regenerated
    from the level above AS WRITTEN; closing the file (__exit__) loses what was not read.
    Whether compute_mipmaps()/rescale_from() happen to READ a level from the file as a side effect is not part of the
    property, but an explicit rescale_from() of such a level and __exit__ behave differently afterwards: from the first
    level where that matters on, the history is not judged ('unjudged')."""
    n = len(levels)
    ops = expand_history(ops, n)
    dims = [(HIST_W >> m, HIST_H >> m) for m in range(n)]
    blank = [bytes((0, 0, 0, 255)) * (w * h) for w, h in dims]
    src = [True] * n
    side = [False] * n          # the file source was consumed only as a side effect of another operation
    data: list[bytes | None] = [None] * n
    unjudged = n

    def view(m):
        return levels[m] if src[m] else (data[m] if data[m] is not None else blank[m])

    def load(m, by_user):
        nonlocal unjudged
        if src[m] and not by_user:
            side[m] = True
        if by_user:
            side[m] = False
        data[m] = view(m)
        src[m] = False

    def rescale(m):
        load(m - 1, False)
        data[m] = ref_downscale(data[m - 1], *dims[m - 1], *dims[m], 4)

    for op in ops:
        kind = op[0]
        if kind == 'compute':
            load(0, False)
            for m in range(1, n):
                if data[m] is None:
                    rescale(m)
        elif kind == 'exit':
            if any(side):
                unjudged = min(unjudged, side.index(True))
            src = [False] * n
        elif kind == 'load':
            load(op[1], True)
        elif kind == 'clear':
            data[op[1]], src[op[1]], side[op[1]] = None, False, False
        elif kind in ('fill', 'copy'):
            data[op[1]], src[op[1]], side[op[1]] = _hist_new_data(op, *dims[op[1]]), False, False
        elif kind == 'set':
            load(op[1], True)
            data[op[1]] = _set_px(data[op[1]])
        elif kind == 'rescale' and op[1] >= 1:
            if side[op[1]]:
                unjudged = min(unjudged, op[1])
            rescale(op[1])
    out: list[tuple[str, bytes]] = []
    for m in range(n):
        if m >= unjudged:
            out.append(('unjudged', b''))
        elif src[m]:
            out.append(('file', levels[m]))
        elif data[m] is not None:
            out.append(('pixels', data[m]))
        elif m == 0:
            out.append(('blank', blank[0]))
        else:
            out.append(('regenerated', ref_downscale(out[m - 1][1], *dims[m - 1], *dims[m], 4)))
    return out


HIST_KEYS = {'file': 'frame-history-level-with-file-source-not-written-from-the-file',
             'pixels': 'frame-history-pixels-of-a-level-not-written',
             'blank': 'frame-history-cleared-level-0-not-blank',
             'regenerated': 'frame-history-regenerated-level-not-average-of-its-written-parent'}


def _culprit(base: bytes, n: int, levels: list[bytes], ops: list[list], m: int) -> str:
    """the rejected call without which the history is fine (else the first one aimed at the level that is wrong, else the first)"""
    idx = [i for i, op in enumerate(ops) if op[0] == 'reject']
    if len(idx) > 1:
        for i in idx:
            if not check_history(base, n, levels, ops[:i] + ops[i + 1:], blame=False):
                return ops[i][2]
    return ([op[2] for op in ops if op[0] == 'reject' and op[1] == m and op[2] not in VTF_REJECTS] or [ops[idx[0]][2]])[0]


def check_history(base: bytes, n: int, levels: list[bytes], ops: list[list], blame: bool = True) -> list[tuple[str, str]]:
    rejects = [op[2] for op in ops if op[0] == 'reject']
    try:
        got = run_history_impl(base, n, ops)
    except _NotRejected as e:
        return [(f'call-that-must-be-rejected-is-accepted-{e}', f'lazy read, {ops}: the call {e} did not raise')]
    except Exception as e:
        if rejects:
            who = rejects[0]
            idx = [i for i, op in enumerate(ops) if op[0] == 'reject']
            if blame and len(idx) > 1:
                for i in idx:       # the rejected call without which the history is fine
                    if not check_history(base, n, levels, ops[:i] + ops[i + 1:], blame=False):
                        who = ops[i][2]
                        break
            return [(f'rejected-call-then-save-raises-{type(e).__name__}-{who}', f'lazy read, {ops}, save: {type(e).__name__}: {e}')]
        return [(f'frame-history-raises-{type(e).__name__}', f'lazy read, {ops}, save: {type(e).__name__}: {e}')]
    first = None
    for alt in reject_alternatives(ops):
        probs = []
        for m, ((why, exp), g) in enumerate(zip(spec_history(levels, alt), got)):
            if why == 'unjudged':
                break
            if g != exp:
                black = g == bytes((0, 0, 0, 255)) * (len(g) // 4)
                if rejects:
                    culprit = _culprit(base, n, levels, ops, m) if blame else rejects[0]
                    probs.append((f'rejected-call-changes-what-is-saved-{culprit}',
                                  f'lazy read of a {HIST_W}x{HIST_H} file, then {ops} (every "reject" is a call that raises and whose exception is '
                                  f'caught), then save: level {m} must be written from "{why}" as if the rejected calls had not been made (or had '
                                  f'only loaded the frame), but other pixels were written' + (' (opaque black)' if black else '')))
                else:
                    probs.append((HIST_KEYS[why], f'lazy read of a {HIST_W}x{HIST_H} file, then {ops}, then save: level {m} must be written from '
                                                  f'"{why}" but other pixels were written'))
                break
        if not probs:
            return []
        if first is None:
            first = probs
    return first or []


def _coq_ops(ops: list[list]) -> str:
    out = []
    for op in ops:
        kind = op[0]
        out.append({'load': lambda: f'CLoad sym {op[1]}', 'clear': lambda: f'CClear sym {op[1]}',
                    'fill': lambda: f'CFill sym {op[1]} (SNew {op[2]})', 'copy': lambda: f'CCopy sym {op[1]} (SNew {op[2]})',
                    'set': lambda: f'CSet sym {op[1]} SMod', 'rescale': lambda: f'CRescale sym {op[1]}',
                    'compute': lambda: 'CCompute sym', 'exit': lambda: 'CDetachAll sym'}[kind]())
    return '[' + '; '.join(out) + ']'


def _interp_sym(toks: list[int], levels: list[bytes], news: dict[int, bytes], dims) -> bytes | None:
    """one serialised symbolic value -> pixels"""
    def go(i):
        t = toks[i]
        if t == 98:
            return None, i + 1
        if t == 0:
            return levels[toks[i + 1]], i + 2
        if t == 1:
            return news[toks[i + 1]], i + 2
        if t == 2:
            w, h = dims[toks[i + 1]]
            return bytes((0, 0, 0, 255)) * (w * h), i + 2
        if t == 3:
            m = toks[i + 1]
            v, j = go(i + 2)
            return ref_downscale(v, *dims[m - 1], *dims[m], 4), j
        if t == 4:
            v, j = go(i + 1)
            return _set_px(v), j
        raise ValueError(toks)
    return go(0)[0]


def corr_frames(ck: Ck, frame_ok: bool) -> None:
    """Histories of Frame operations on a lazily read file: (a) the property restated in Python against the implementation
    (concrete replays), (b) the GENERATED effect tables run by Coq on symbolic pixels against the implementation."""
    base, n, levels = history_base(ck.seed)
    dims = [(HIST_W >> m, HIST_H >> m) for m in range(n)]
    fixed = [[], [['clear', n - 1]], [['clear', 1]], [['compute']], [['compute'], ['clear', n - 1]], [['rescale', 1]],
             [['load', 1], ['clear', 2 % n]], [['set', 1]], [['exit']], [['load', 0], ['exit'], ['clear', 1]],
             [['copy', 1, 0, 7], ['clear', 2 % n]], [['fill', 0, 0, 9], ['clear', 1]], [['clear', 0]],
             [['clear_after', 0]], [['clear_after', 1]], [['load', 1], ['clear_after', 1]], [['clear_after', n - 1]]]
    cases = fixed + [gen_history(ck.rng, n) for _ in range(ck.budget(140, 480))]
    found: dict[str, tuple[list, str]] = {}
    impl_out: list[list[bytes] | None] = []
    for ops in cases:
        ck.count('frame_histories')
        ck.hist('frame_history_length', len(ops))
        for op in ops:
            ck.hist('frame_history_ops', op[0])
        if ops:
            ck.seen(('hist', json.dumps(ops)))
        for key, what in check_history(base, n, levels, ops):
            found.setdefault(key, (ops, what))
        try:
            impl_out.append(run_history_impl(base, n, ops))
        except Exception:
            impl_out.append(None)
    for key, (ops, what) in found.items():
        small = list(ops)           # shrink: drop operations while the same key is reported
        i = 0
        while i < len(small):
            cand = small[:i] + small[i + 1:]
            if any(k == key for k, _ in check_history(base, n, levels, cand)):
                small = cand
            else:
                i += 1
        what2 = next((w for k, w in check_history(base, n, levels, small) if k == key), what)
        ck.violation(key, what2, {'history': small, 'seed': ck.seed, 'how': 'checks.c15.check_history(*history_base(seed), history)'})
    ck.sample({'frame_history': cases[len(fixed)], 'levels': n, 'must_be_written_from': [w for w, _ in spec_history(levels, cases[len(fixed)])]})
    if not frame_ok:
        return
    vals = ck.coq_eval(IMPORTS_FRAME, [f'hist {n} {_coq_ops(expand_history(ops, n))}' for ops in cases], name='framehist', preamble=PRE_FRAME, timeout=600)
    if vals is None:
        ck.obligation('correspondence:frame-histories', False, 'the generated effect tables could not be run in Coq')
        ck.tie_broken.append('correspondence frame histories: Coq evaluation failed')
        return
    bad = []
    for ops, v, got in zip(cases, vals, impl_out):
        toks = common.parse_coq_N_list(v)
        per_level, cur = [], []
        for t in toks:
            if t == 99:
                per_level.append(cur)
                cur = []
            else:
                cur.append(t)
        news = {op[2]: _hist_new_data(op, *dims[op[1]]) for op in ops if op[0] in ('fill', 'copy')}
        model = [_interp_sym(t, levels, news, dims) for t in per_level]
        if got is None or model != got:
            m = next((i for i, (a, b) in enumerate(zip(model, got or [])) if a != b), None)
            bad.append({'history': ops, 'level': m, 'model_says': per_level[m] if m is not None and m < len(per_level) else None})
    ck.count('coq_frame_histories', len(cases))
    ck.obligation('correspondence:frame-histories', not bad,
                  f'{len(cases)} histories (lazy read, 0-6 operations load/clear/fill/copy_from/__setitem__/rescale_from/compute_mipmaps/__exit__, save): '
                  f'the effect tables generated from vtf.py, run by vm_compute on symbolic pixels, predict the pixels the implementation writes for '
                  f'every level: {len(bad)} disagreements' + (f'; first {bad[0]}' if bad else ''))
    if bad:
        ck.tie_broken.append('correspondence frame histories vs generated effect tables')
        ck.extra['frame_history_disagreement'] = bad[:5]


REJECT_METHOD = {'copy_short': 'copy_from', 'copy_long': 'copy_from', 'copy_rgb_without_format': 'copy_from', 'copy_frame_of_other_size': 'copy_from',
                 'copy_format_without_decoder': 'copy_from', 'copy_not_a_buffer': 'copy_from', 'rescale_from_unrelated_size': 'rescale_from',
                 'setitem_out_of_range': '__setitem__', 'getitem_out_of_range': '__getitem__', 'setitem_three_values': '__setitem__',
                 'setitem_channel_out_of_range': '__setitem__', 'setitem_channel_not_a_number': '__setitem__', 'fill_out_of_range': 'fill'}


def observed_exit(seed: int, pre: str, m: int, which: str) -> tuple[str, tuple[str, bool, str]] | None:
    """The abstract state (origin of _data, texels modified, file source) in which the implementation really leaves the frame
    when the call is rejected, in the vocabulary of the raise tables; None when the call is not rejected."""
    from srctools.vtf import VTF
    base, n, levels = history_base(seed)
    m = min(m, n - 1)
    v = VTF.read(io.BytesIO(base))
    fr = v.get(mipmap=m)
    if pre == 'loaded':
        fr.load()
    elif pre == 'cleared':
        fr.clear()
    elif pre == 'rescaled':
        if m == 0:
            return None
        fr.rescale_from(v.get(mipmap=m - 1))
    d, s = fr._data is not None, fr._fileinfo is not None
    old = bytes(fr._data) if d else None
    try:
        _do_reject(v, fr, m, which)
    except Exception:     # noqa: BLE001 - not rejected / another exception: judged by reject_view_case
        return None
    blank = bytes((0, 0, 0, 255)) * (fr.width * fr.height)
    now = bytes(fr._data) if fr._data is not None else None
    if now is None:
        dd = 'None'
    elif d and now == old:
        dd = 'Keep'
    elif now == levels[m]:
        dd = 'File'
    elif now == blank:
        dd = 'Blank'
    else:
        dd = 'Other'
    mod = False
    if dd == 'Other':
        for ref, name in ((old, 'Keep'), (levels[m], 'File'), (blank, 'Blank')):
            if ref is not None and sum(1 for i in range(0, len(now), 4) if now[i:i + 4] != ref[i:i + 4]) <= 2:
                dd, mod = name, True
                break
    ss = 'None' if fr._fileinfo is None else 'Keep'
    return f'{int(d)}{int(s)}', (dd, mod, ss)


def corr_raise_tables(ck: Ck, side: dict) -> None:
    """Correspondence for the exits by exception: the state in which the implementation leaves a frame after each rejected call,
    for each of the four abstract pre-states, must be one of the exits the translator computed for that method and pre-state."""
    tables = side.get('raise_tables', {})
    bad = []
    seen = 0
    for pre in ('lazy', 'loaded', 'cleared', 'rescaled'):
        for m in (0, 1):
            for which, method in REJECT_METHOD.items():
                obs = observed_exit(ck.seed, pre, m, which)
                if obs is None:
                    continue
                row, out = obs
                seen += 1
                ck.count('raise_exit_observations')
                ck.hist('raise_exit_observed', f'{method}:{row}:{out[0]}{"*" if out[1] else ""}/{out[2]}')
                exits = [tuple(x) for x in tables.get(method, {}).get(row, [])]
                if out not in exits:
                    bad.append({'call': which, 'method': method, 'frame': pre, 'level': m, 'row': row, 'observed': list(out), 'exits_of_the_translator': [list(x) for x in exits]})
    ck.obligation('correspondence:frame-raise-exits', not bad and seen > 0,
                  f'{seen} rejected calls on frames in the four abstract states: the state in which the implementation leaves the frame is one of the '
                  f'exits by exception the translator computed for that method and pre-state: {len(bad)} disagreements' + (f'; first {bad[0]}' if bad else ''))
    if bad:
        ck.tie_broken.append('correspondence raise exits vs generated raise tables')
        ck.extra['raise_exit_disagreement'] = bad[:5]


def search_rejected(ck: Ck) -> None:
    """Error paths (round 5): calls that a Frame / VTF must reject, made on frames of a lazily read file in every state
    (still in the file, loaded, cleared, rescaled while still in the file), the exception caught, then (a) what the frame
    shows, (b) what save() stores, inside random histories of the other operations; and streams that fail once."""
    base, n, levels = history_base(ck.seed)
    reported: set[str] = set()
    for pre in ('lazy', 'loaded', 'cleared', 'rescaled'):
        for m in sorted({0, 1, n - 1}):
            if reject_view_case(ck.seed, pre, m, None):
                continue        # the frame is wrong without any rejected call: that is the business of the frame histories
            for which in REJECTS + VTF_REJECTS:
                ck.count('rejected_call_views')
                ck.hist('rejected_call', which)
                ck.hist('rejected_call_frame_state', pre)
                ck.seen(('rejview', pre, m, which))
                for key, what in reject_view_case(ck.seed, pre, m, which):
                    if key not in reported:
                        reported.add(key)
                        ck.violation(key, what, {'reject_view': [ck.seed, pre, m, which]})
    for mode in ('seek', 'read', 'short'):
        for m in (0, 1):
            for then in ('load', 'getitem', 'save'):
                ck.count('failing_stream_cases')
                ck.seen(('flaky', mode, m, then))
                for key, what in failed_load_case(ck.seed, mode, m, then):
                    if key not in reported:
                        reported.add(key)
                        ck.violation(key, what, {'failed_load': [ck.seed, mode, m, then]})
    if not reject_meta_case(ck.seed, None):        # else: the lazy re-save itself differs, reported by the file oracle
        for which in META_REJECTS:
            ck.count('rejected_call_whole_file')
            ck.hist('rejected_call', which)
            ck.seen(('rejmeta', which))
            for key, what in reject_meta_case(ck.seed, which):
                if key not in reported:
                    reported.add(key)
                    ck.violation(key, what, {'reject_meta': [ck.seed, which]})
    fixed: list[list[list]] = []
    for which in REJECTS:
        for m in (0, 1):
            fixed += [[['reject', m, which]], [['clear', m], ['reject', m, which]], [['load', m], ['reject', m, which]],
                      [['reject', m, which], ['clear', min(m + 1, n - 1)]]]
        fixed.append([['rescale', 1], ['reject', 1, which]])
    for which in VTF_REJECTS:
        fixed += [[['reject', 0, which]], [['clear', 1], ['reject', 0, which]], [['copy', 0, 0, 5], ['clear_after', 0], ['reject', 0, which]]]
    cases = fixed + [gen_reject_history(ck.rng, n) for _ in range(ck.budget(150, 600))]
    found: dict[str, tuple[list, str]] = {}
    for ops in cases:
        ck.count('rejected_call_histories')
        ck.hist('rejected_call_history_length', len(ops))
        for op in ops:
            if op[0] == 'reject':
                ck.hist('rejected_call', op[2])
        ck.seen(('rejhist', json.dumps(ops)))
        probs = check_history(base, n, levels, ops)
        if probs and check_history(base, n, levels, [op for op in ops if op[0] != 'reject']):
            continue            # wrong without the rejected calls as well: reported by the frame histories
        for key, what in probs:
            found.setdefault(key, (ops, what))
    for key, (ops, what) in found.items():
        small = list(ops)
        i = 0
        while i < len(small):
            cand = small[:i] + small[i + 1:]
            if any(k == key for k, _ in check_history(base, n, levels, cand)):
                small = cand
            else:
                i += 1
        what2 = next((w for k, w in check_history(base, n, levels, small) if k == key), what)
        ck.violation(key, what2, {'history': small, 'seed': ck.seed, 'how': 'checks.c15.check_history(*history_base(seed), history)'})
    ck.sample({'rejected_call_history': cases[len(fixed)]})


# ================================================================================================ main
class _Deferred:
    """Runs Ck.instance_obligations in a background thread against a private list of obligations; merge() appends them to
    the real Ck in the order of the calls to merge(), so the evidence is the same as for a sequential run."""

    def __init__(self, ck: Ck, imports, obs: dict[str, str], name: str) -> None:
        import threading
        self.ck, self.obligations, self.tie_broken = ck, [], []
        self.notes, self.scratch = ck.notes, ck.scratch
        self.error: BaseException | None = None

        def go():
            try:
                Ck.instance_obligations(self, imports, obs, name=name)
            except BaseException as e:      # noqa: BLE001 - re-raised in merge()
                self.error = e
        self.thread = threading.Thread(target=go, daemon=True)
        self.thread.start()

    coq_eval = Ck.coq_eval
    coq_scratch = Ck.coq_scratch
    obligation = Ck.obligation

    def merge(self) -> None:
        self.thread.join()
        if self.error is not None:
            raise self.error
        self.ck.obligations += self.obligations
        self.ck.tie_broken += self.tie_broken


def run(ck: Ck) -> None:
    _patch_known()
    ck.rule = ('codecs: every writable format; pixels = fixed corner cases + per-channel sweeps 0..255 (other channels random) + random '
               'pixels; stored values = all 2^8/2^16 values of the 1- and 2-byte formats, 4096 random ones otherwise; distinct by '
               '(format, pixel).  files: every power-of-two size 1x1..64x64 (49 shapes, square and not) at least once per round, other '
               'parameters random (frames 1-3, depth 1-4 or cubemap, version 7.2-7.5 incl. save(version=) override, main/thumbnail format '
               'over all writable formats, flags, reflectivity, bump scale, 0-4 resources inline/offset, particle sheets v0/v1, all levels '
               'given or generated from level 0); non-trivial = more than one pixel or has resources/sheets; distinct by full configuration. '
               'bounds: all (x,y) in [-3, w+3) x [-3, h+3) for six frame shapes, non-trivial = outside the frame. '
               'filters: five filter modes on six shapes. '
               'frame histories: a 32x16 RGBA8888 file with unrelated random levels is read lazily, 0-6 random operations '
               '(load/clear/fill/copy_from/__setitem__/rescale_from/compute_mipmaps/__exit__/clear_mipmaps(after=) on random levels) plus 17 fixed histories, '
               'then save; distinct by the operation list, non-trivial = at least one operation. '
               'container: small sizes, versions 7.2-7.5, cubemaps, depth, frames, 0-4 resources, sheets; distinct by configuration. '
               'cubemap save(version=) overrides: all 12 ordered pairs of versions, 1-3 frames, also on a lazily read object. '
               'full mip chains: six shapes (square and not) x two formats with mipmap_count set to the number of levels. '
               'pixel paths: 15 shapes (13 non-square: Nx1, 1xN, 2x8, 8x2, 16x2 ...), every pixel given a distinct colour (random salt), '
               'written through each of 5 paths (setitem, buffer protocol, copy_from bytes / frame, lazy load of a saved file) and read '
               'through each of 9 (getitem, buffer index by index, bytes(memoryview), raw array, to_PIL, to_tkinter PPM, two wx '
               'converters on a stand-in module, save+read), plus out-of-range probes, allocation lengths, copy_from of frames of '
               'other sizes with the same pixel count; non-trivial = non-square. DXT1 block layout: six shapes of solid 4x4 blocks '
               'through copy_from and the lazy load. '
               'rejected calls (round 5): 14 calls a Frame must reject (wrong-length / RGB / non-buffer source, frame of another size, '
               'format without decoder, rescale_from an unrelated size, index out of range, 3-tuple, channel 999 / not a number, '
               'fill(256), plus the self-copy) and 4 a VTF must reject (version 7.9, volumetric as 7.1, missing key, a stream that fails '
               'after 200 bytes) on levels 0, 1 and the last of a lazily read 32x16 file in four states (in the file, loaded, cleared, '
               'rescaled while in the file): what the frame shows; the same calls inside random histories of the other operations '
               '(1-2 rejected calls each) plus fixed ones: what save() stores; 13 rejected VTF-level calls on a 7.4 file with '
               'resources, sheet and thumbnail: the next save() byte for byte; streams that fail once (seek, read, short read) '
               'during load() / pixel access / save(); distinct by (state, level, call) resp. operation list.')
    ck.trusted.append('Fmt/VtfPixelExpr.v specification tuples spec_* / canon_* (hand-written from the docstrings; their meaning as functions '
                      'is restated by c15_spec_* theorems) and checks/c15.py ref_quantise (independent Python restatement used by the oracle)')
    ck.trusted.append('translate/c15_frame.py tables D_COQ/S_COQ and READERS, translate/c15_container.py tables SAVE_FIELD/READ_FIELD/READ_ATTR '
                      '(which source expression is which field); checks/c15.py spec_history (independent restatement of what save must write)')
    ck.trusted.append('translate/c15_norm.py: behaviour-preserving rewrites applied to vtf.py before the translators (module constants, '
                      'precompiled structs, product loops, literal-tuple loops, unused enumerate, guard clauses, helper inlining, copy '
                      'propagation of locals that name a side-effect-free expression over stable attributes or inside a call-free window); '
                      'the polynomial evaluator of scale_down in translate/c15_pixel.py')
    ck.trusted.append('translate/c15_access.py: classification of every use of <frame>._data, binding of call arguments to parameter names, the '
                      'fixed argument conventions of PIL frombuffer / memoryview.cast / wx.Image / wx.Bitmap, _role (which dimension a local '
                      'derives from); the `if` -> ETest-chain encoding of translate/c15_pixel.py (x < 128 = bit 7 clear, x == c = eight bit '
                      'tests; valid for bytes, cross-checked by the codec correspondence)')
    ck.trusted.append('translate/c15_frame.py raise_exits (round 5): which statements can be left by an exception (explicit raise, assert, import, every '
                      'call except isinstance / three-argument getattr, the middle of a multi-element store into the pixel array unless the value is an '
                      'array("B") or a slice of a pixel array), the composition with the exits of load() at self.load(); MUTATING_CALLS (container '
                      'methods that count as a store in the census of VTF methods); checks/c15.py reject_alternatives (a rejected call = nothing or load())')
    ck.assumptions += [
        'a shaped view of the pixel array (buffer protocol, PIL) is modelled for non-negative indexes; negative indexes follow the Python '
        'from-the-end convention and stay inside the array',
        'a frame is stored as the concatenation of its pixels\' stored bytes (encode_frame): the codec translator accepts only per-pixel '
        'loops / strided slice copies with offsets inside one pixel',
        'a frame is not passed to its own copy_from/rescale_from in the model (no aliasing of self and the parameter frame); '
        'frame.copy_from(frame) on frames in every state is covered by the rejected-call oracle only',
        'exits by exception: a call either raises before it has changed the frame or does not raise (the decoders and scale_down '
        'validate sizes before they write); the calls that cannot raise are isinstance(x, T) and getattr(x, name, default) only; '
        'MemoryError / KeyboardInterrupt between two statements are not modelled',
        'encode_file/decode_file and make_sheet/read_sheet are hand-written models of VTF.save/VTF.read and SheetSequence.make_data/'
        'from_resource: the whole-file and sheet theorems are about the models; their tie to the source is the regenerated sites, flag '
        'trees, side lists, loop nests and event order (instance obligations) plus the two-way container correspondence of every run',
        'pixel buffers hold bytes (array("B") / bytearray): every theorem about codecs is for components in 0..255',
        'width and height are powers of two (VTF.__init__ rejects everything else)',
        'Python int arithmetic is unbounded: the codec expressions are evaluated over N without wrap-around',
    ]
    ok1 = ck.translate('PixelCodecs_gen', c15_pixel.translate_codecs)
    ok2 = ck.translate('VtfLayout_gen', c15_pixel.translate_layout)
    ok3 = ck.translate('VtfFrameSM_gen', c15_frame.translate_frame)
    ok4 = ck.translate('VtfContainer_gen', c15_container.translate_container)
    ok5 = ck.translate('VtfAccess_gen', c15_access.translate_access)
    cod = None
    if ok1:
        cod, _ = c15_pixel.codecs_ir()
    built = ok1 and ok2 and ok3 and ok4 and ok5 and ck.build(['Props/C15.vo'])
    if built:
        # the two facts about generated FORMULAS (premises pixel_offsets_spec / scale_strides_spec of the theorems): their ring / lia
        # proofs are compiled here, one named obligation each
        ck.build(['Fmt/VtfGenPixelOffsetIs4TimesYWidthPlusX.vo'])
        ck.build(['Fmt/VtfGenScaleDownStridesSelectThe2x2ParentBlock.vo'])
        codecs_done = corr_codecs(ck, cod)     # six coqc processes in the background while the stages below run
        obs: dict[str, str] = {}
        for name in sorted(set(SPECS) | set(cod) | set(BLUESCREEN)):
            if name in BLUESCREEN:
                if name not in cod:
                    obs[f'codec_{name}_still_translated'] = 'false'
                else:
                    obs[f'{name}_stores_alpha_below_128_as_pure_blue_and_loads_pure_blue_as_transparent_black'] = f'bs_ok {BLUESCREEN[name]} codec_{name}'
                continue
            if name not in SPECS:
                obs[f'codec_{name}_has_a_specification'] = 'false'
                continue
            if name not in cod:
                obs[f'codec_{name}_still_translated'] = 'false'
                continue
            spec, canon = SPECS[name]
            kind = 'exact_on_used_channels' if name in EIGHT_BIT else 'is_documented_quantisation'
            if name in SWAP_565:
                obs[f'{name}_load_of_save_{kind}_or_known_rb_swap'] = f'orb (rt_ok codec_{name} {spec}) (rt_ok codec_{name} spec_565_rb_swapped)'
                obs[f'{name}_stored_fixpoint_or_known_rb_swap'] = f'orb (sf_ok codec_{name} ({canon})) (rt_ok codec_{name} spec_565_rb_swapped)'
            else:
                obs[f'{name}_load_of_save_{kind}'] = f'rt_ok codec_{name} {spec}'
                obs[f'{name}_stored_fixpoint'] = f'sf_ok codec_{name} ({canon})'
        obs.update({
            'every_codec_stores_at_least_one_byte_per_pixel': 'forallb (fun nc => Nat.ltb 0 (bpp (snd nc))) all_codecs',
            'mip_loop_breaks_when_a_side_is_1_and_halves': 'mip_loop_ok gen_mipcfg',
            'mipmap_count_is_number_of_levels_or_known_last_index': 'orb (mip_count_ok gen_mipcfg) (N.eqb (count_delta gen_mipcfg) 0)',
            'save_and_read_walk_frames_in_the_same_order': 'order_eqb save_order read_order',
            'frame_key_is_frame_depth_mip': 'frame_key_is_frame_depth_mip',
            'save_and_read_loop_nests_have_the_same_order_mip_frame_side': '(lorder_eqb gen_save_order gen_read_order && lorder_eqb gen_save_order good_order)%bool',
            'save_takes_the_side_list_of_the_version_it_writes': 'match sd_save gen_sidescfg with MWritten => true | MObject => false end',
            'read_takes_the_side_list_of_the_version_in_the_file': 'match sd_read gen_sidescfg with MWritten => true | MObject => false end',
            'save_writes_a_blank_frame_for_a_side_the_object_lacks': 'sd_missing_blank gen_sidescfg',
            'side_list_configuration_ok': 'sides_ok gen_sidescfg',
            'cubemaps_have_six_sides_from_7_5_and_the_sphere_map_before': 'sphere_rule_ok gen_sidescfg',
            'read_level_size_is_max_shr_1': 'read_dims_are_max_shr_1',
            'compute_mipmaps_uses_previous_level': 'compute_mipmaps_from_previous_level',
            'getitem_rejects_negative_x': 'rejects_x_low getitem_reject', 'getitem_rejects_x_ge_width': 'rejects_x_high getitem_reject',
            'getitem_rejects_negative_y': 'rejects_y_low getitem_reject', 'getitem_rejects_y_ge_height': 'rejects_y_high getitem_reject',
            'setitem_rejects_negative_x': 'rejects_x_low setitem_reject', 'setitem_rejects_x_ge_width': 'rejects_x_high setitem_reject',
            'setitem_rejects_negative_y': 'rejects_y_low setitem_reject', 'setitem_rejects_y_ge_height': 'rejects_y_high setitem_reject',
            'pixel_access_touches_4_bytes': 'andb (Z.leb getitem_span 4) (Z.leb setitem_span 4)',
            'bilinear_adds_the_four_block_texels': 'terms_eqb bilinear_terms block_terms',
            'bilinear_divides_by_4': 'Z.eqb bilinear_div 4',
            'nearest_filters_pick_block_corners': 'terms_eqb nearest_terms block_terms',
            'nearest_filters_use_the_same_texel_offsets_as_bilinear': 'nearest_offsets_same_as_bilinear',
        })
        # the four groups of instance obligations run in the background (two coqc each) while Print Assumptions runs here
        # the single premise of c15_property, per generated codec (the 565 formats are carved out by the known finding)
        whole = {f'all_premises_of_c15_property_hold_for_the_generated_objects_and_codec_{name}':
                 f'c15_generated_objects_ok codec_{name} {SPECS[name][0]} ({SPECS[name][1]})'
                 for name in sorted(SPECS) if name in cod and name not in SWAP_565}
        whole['the_premises_of_c15_property_other_than_the_codec_hold_for_the_generated_objects'] = \
            '(container_ok && lifecycle_ok && access_ok && mipmaps_ok)%bool'
        groups = [_Deferred(ck, IMPORTS_WHOLE, whole, 'inst_whole'), _Deferred(ck, IMPORTS, obs, 'inst'), _Deferred(ck, IMPORTS_FRAME, frame_obligations(ck.extra['translated']['VtfFrameSM_gen']), 'inst_frame'),
                  _Deferred(ck, IMPORTS_CONT, CONT_OBS, 'inst_cont'),
                  _Deferred(ck, IMPORTS_ACCESS, access_obligations(ck.extra['translated']['VtfAccess_gen']), 'inst_access')]
        ck.theorems('Props/C15.v')
        for g in groups:
            g.merge()
        _stage(ck, 'container-correspondence', corr_container, alarm=False)     # waits for coqc: no alarm, exceptions only
        codecs_done()
    _stage(ck, 'frame-histories', corr_frames, bool(built), alarm=False)
    if ok3:
        _stage(ck, 'raise-exit-correspondence', corr_raise_tables, ck.extra['translated']['VtfFrameSM_gen'])
    _stage(ck, 'rejected-call-search', search_rejected)
    _stage(ck, 'codec-search', search_codecs)
    _stage(ck, 'bounds-search', search_bounds)
    _stage(ck, 'pixel-path-search', search_paths)
    _stage(ck, 'filter-search', search_filters)
    _stage(ck, 'file-search', search_files)
    _stage(ck, 'cubemap-override-search', search_cube_override)
    _stage(ck, 'full-chain-search', search_full_chain)
    # which broken obligations do the concrete violations explain?  Only NEW violations count: a known finding is reported
    # on every run and explains nothing that breaks today (round 3: the known mipmap-count finding used to explain a
    # failed layout translation, so a tree on which the proof side was not checked at all could exit 0).
    known_keys = {k['key'] for k in common.load_known().get('known', []) if k.get('property') == ck.pid}
    keys = {v['key'] for v in ck.violations if v['key'] not in known_keys}
    for k in keys:
        if k.startswith(('pixel-mismatch-', 'stored-not-fixpoint-', 'thumbnail-mismatch-')):
            f = k.rsplit('-', 1)[1]
            ck.explain(f'instance:{f}_')
            ck.explain('correspondence:')
            ck.explain('translate:PixelCodecs_gen')
        if k.startswith(('sheet-differs', 'resources-differ', 'meta-', 'resave-differs')):
            ck.explain('translate:VtfContainer_gen')
            ck.explain('instance:site_')
            ck.explain('instance:sheet_')
            ck.explain('instance:header_')
            ck.explain('instance:offset_entries')
            ck.explain('instance:data_block')
            ck.explain('instance:every_deferred')
            ck.explain('instance:version_tests')
            ck.explain('instance:padding_')
            ck.explain('instance:reader_fetches')
            ck.explain('instance:out_of_line_entries')
            ck.explain('instance:inline_entries')
            ck.explain('instance:fixed_entries')
            ck.explain('instance:resource_flag')
            ck.explain('instance:save_records')
            ck.explain('instance:example_')
            ck.explain('instance:container_formats')
            ck.explain('instance:sheet_formats')
            ck.explain('correspondence:container')
        if k.startswith(('thumbnail-mismatch-', 'read-raises', 'resources-differ', 'sheet-differs', 'frames-permuted', 'pixels-displaced')):
            ck.explain('instance:save_records')
            ck.explain('instance:example_')
            ck.explain('correspondence:container')
        if k.startswith(('rejected-call-', 'call-that-must-be-rejected')) and 'copy_frame_of_other_size' in k:
            ck.explain('instance:whole_array_')      # the copy between frames of different sizes happened (in part) before it was rejected
        if k.startswith(('rejected-call-', 'failed-load-', 'call-that-must-be-rejected')):
            ck.explain('instance:vtf_methods_other_than_init')
            ck.explain('correspondence:frame-raise-exits')
            ck.explain('instance:frame_')
            ck.explain('instance:every_frame_method_keeps')
            ck.explain('translate:VtfFrameSM_gen')
            ck.explain('correspondence:frame-histories')
        if k.startswith(('frame-history-', 'lazy-resave-')):
            ck.explain('instance:frame_')
            ck.explain('instance:compute_mipmaps_')
            ck.explain('instance:clear_mipmaps_')
            ck.explain('instance:rescale_from_')
            ck.explain('instance:save_')
            ck.explain('correspondence:frame-histories')
            ck.explain('translate:VtfFrameSM_gen')
        if k.startswith(('cubemap-save-version-override', 'frame-table', 'read-raises', 'save-raises', 'pixels-displaced', 'pixel-mismatch-', 'frames-permuted', 'full-mip-chain-')):
            ck.explain('instance:save_takes_the_side_list')
            ck.explain('instance:read_takes_the_side_list')
            ck.explain('instance:save_writes_a_blank_frame')
            ck.explain('instance:side_list_configuration_ok')
            ck.explain('instance:cubemaps_have_six_sides')
            ck.explain('instance:save_and_read_loop_nests')
            ck.explain('instance:save_and_read_walk')
        if k.startswith(('get-', 'frames-permuted', 'frame-table')):
            ck.explain('instance:frame_table_key_')
            ck.explain('instance:every_frame_table_key')
        if k.startswith(('pixel-path-', 'pixel-array-', 'copy-from-frame-', 'dxt-non-square-', 'generated-mipmap', 'frame-dimensions', 'frames-permuted', 'pixels-displaced')):
            ck.explain('instance:pixel_path_')
            ck.explain('instance:pixel_array_')
            ck.explain('instance:whole_array_')
            ck.explain('instance:every_pixel_')
            ck.explain('translate:VtfAccess_gen')
        if k.startswith(('frame-getitem', 'frame-setitem', 'pixel-path-')):
            ck.explain('build:Fmt/VtfGenPixelOffset')
        if k.startswith('frame-getitem'):
            ck.explain('instance:getitem_')
            ck.explain('instance:every_pixel_path')
        if k.startswith('frame-setitem'):
            ck.explain('instance:setitem_')
            ck.explain('instance:every_pixel_path')
        if k.startswith(('generated-mipmap', 'mip-dimensions')):
            ck.explain('instance:bilinear_')
            ck.explain('instance:nearest_')
            ck.explain('translate:VtfLayout_gen')
            ck.explain('instance:compute_mipmaps')
            ck.explain('build:')
        if k.startswith(('mipmap-count', 'frame-table', 'mip-dimensions', 'save-raises', 'read-raises', 'frame-dimensions', 'compute-mipmaps-raises', 'pixels-displaced', 'full-mip-chain-', 'frames-permuted', 'foreign-full-mip-chain')):
            ck.explain('translate:VtfLayout_gen')
            ck.explain('translate:VtfContainer_gen')
            ck.explain('instance:site_')
            ck.explain('instance:header_')
            ck.explain('instance:offset_entries')
            ck.explain('instance:data_block')
            ck.explain('instance:every_deferred')
            ck.explain('instance:version_tests')
            ck.explain('instance:padding_')
            ck.explain('instance:reader_fetches')
            ck.explain('instance:out_of_line_entries')
            ck.explain('instance:inline_entries')
            ck.explain('instance:fixed_entries')
            ck.explain('instance:resource_flag')
            ck.explain('correspondence:container')
            ck.explain('instance:mip')
            ck.explain('instance:read_level')
            ck.explain('instance:save_and_read')
            ck.explain('instance:frame_key')
    # the premise of c15_property is the conjunction of premises that have their own named obligations: it is explained exactly
    # when every broken part is (a part broken without a failing input keeps the whole unexplained as well)
    whole_prefixes = ('instance:all_premises_of_c15_property', 'instance:the_premises_of_c15_property')
    parts_unexplained = [o for o in ck.obligations if not o['ok'] and not o.get('explained') and not o['name'].startswith(whole_prefixes)]
    parts_broken = [o for o in ck.obligations if not o['ok'] and not o['name'].startswith(whole_prefixes)]
    if parts_broken and not parts_unexplained:
        for pfx in whole_prefixes:
            ck.explain(pfx)


def replay(data: dict) -> int:
    r = data['replay']
    if 'config' in r:
        for k, w in run_config(r['config']):
            print(k, '::', w)
        return 0
    if 'codec' in r and 'pixel' in r:
        from srctools.vtf import ImageFormats
        f = ImageFormats[r['codec']]
        p = tuple(r['pixel'])
        st = impl_save(f, [p])
        ld = impl_load(f, st)
        print(f'{f.name}: pixel {p} stored {st[0]} loaded {ld[0]} stored again {impl_save(f, ld)[0]}; documented quantisation '
              f'{tuple(ref_quantise(f.name, bytes(p)))}')
        return 0
    if 'cube_override' in r:
        print(cube_override(*r['cube_override']))
        return 0
    if 'foreign_chain' in r:
        d, w, h, n_full, dims, blocks = r['foreign_chain']
        print(foreign_chain(bytes.fromhex(d), w, h, n_full, [tuple(x) for x in dims], [bytes.fromhex(x) for x in blocks]))
        return 0
    if 'full_chain' in r:
        print(full_chain(*r['full_chain']))
        return 0
    if 'reject_view' in r:
        for k, w in reject_view_case(*r['reject_view']):
            print(k, '::', w)
        return 0
    if 'reject_meta' in r:
        for k, w in reject_meta_case(*r['reject_meta']):
            print(k, '::', w)
        return 0
    if 'failed_load' in r:
        for k, w in failed_load_case(*r['failed_load']):
            print(k, '::', w)
        return 0
    if 'history' in r:
        base, n, levels = history_base(r['seed'])
        for k, w in check_history(base, n, levels, r['history']):
            print(k, '::', w)
        return 0
    if 'stage' in r:
        print(f"stage {r['stage']}: run the check again; the finding is about the stage as a whole: {data.get('what', '')}")
        return 0
    if 'dxt' in r:
        for k, w in dxt_case(*r['dxt']):
            print(k, '::', w)
        return 0
    if 'paths' in r:
        for k, w in paths_case(*r['paths']):
            print(k, '::', w)
        return 0
    if 'bounds' in r:
        from srctools.vtf import VTF
        w, h, x, y, op = r['bounds']
        fr = VTF(w, h).get()
        try:
            print('accepted:', tuple(fr[x, y]) if op == 'getitem' else fr.__setitem__((x, y), (1, 2, 3, 4)))
        except Exception as e:
            print(type(e).__name__, e)
        return 0
    print(r)
    return 0
