"""C14 — DMX export/parse preserves the element graph (binary v1-5, KeyValues2 nested/flat, KV1 bridge)."""
from __future__ import annotations

import io
import struct
import uuid as uuidmod
from typing import Any

from harness.common import Ck, coq_list, parse_coq_N_list
from harness import c14_util as U

COQ_TYPE = {'ELEMENT': 'TElement', 'INTEGER': 'TInt', 'FLOAT': 'TFloat', 'BOOL': 'TBool', 'STRING': 'TString',
            'BINARY': 'TBinary', 'TIME': 'TTime', 'COLOR': 'TColor', 'VEC2': 'TVec2', 'VEC3': 'TVec3', 'VEC4': 'TVec4',
            'ANGLE': 'TAngle', 'QUATERNION': 'TQuat', 'MATRIX': 'TMatrix'}


# ------------------------------------------------------------------------------------------------ spec -> Coq doc
def wire_bytes(typ: str, v: Any) -> bytes:
    """Wire form of a fixed-width value, computed independently of dmx.py (plain struct)."""
    if typ == 'INTEGER':
        return struct.pack('<i', v)
    if typ == 'FLOAT':
        return struct.pack('<f', v)
    if typ == 'BOOL':
        return struct.pack('<?', v)
    if typ == 'TIME':
        return struct.pack('<i', round(v * 10000.0))
    if typ == 'COLOR':
        return struct.pack('<4B', *v)
    if typ == 'MATRIX':
        return struct.pack('<16f', v[0], v[1], v[2], 0.0, v[3], v[4], v[5], 0.0, v[6], v[7], v[8], 0.0, 0.0, 0.0, 0.0, 1.0)
    return struct.pack(f'<{len(v)}f', *v)


def _nl(b: bytes) -> str:
    return '[' + ';'.join(str(x) for x in b) + ']'


def coq_doc(c: dict, encoding: str) -> str:
    """A canonical spec as a Coq [doc] literal; strings are pre-encoded (the model runs with the identity codec)."""
    def s(x: str) -> str:
        return _nl(x.encode(encoding))
    els = []
    for e in c['elems']:
        attrs = []
        for name, typ, is_arr, vals in e['attrs']:
            if typ == 'ELEMENT':
                items = ['RNull' if v is None else (f'(RElem {v})' if isinstance(v, int)
                         else f'(RStub {_nl(str(uuidmod.UUID(hex=v[1])).encode("ascii"))})') for v in vals]
                mk = 'VElem'
            elif typ == 'STRING':
                items, mk = [s(v) for v in vals], 'VStr'
            elif typ == 'BINARY':
                items, mk = [_nl(bytes.fromhex(v)) for v in vals], 'VBin'
            else:
                items, mk = [_nl(wire_bytes(typ, v)) for v in vals], f'VFix {COQ_TYPE[typ]}'
            shape = f'(Array {coq_list(items)})' if is_arr else f'(Scalar {items[0]})'
            attrs.append(f'{{| aname := {s(name)}; adata := {mk} {shape} |}}')
        els.append(f'{{| etype := {s(e["type"])}; ename := {s(e["name"])}; '
                   f'euuid := {_nl(uuidmod.UUID(hex=e["uuid"]).bytes_le)}; eattrs := {coq_list(attrs)} |}}')
    return coq_list(els)
