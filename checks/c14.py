"""C14 — DMX export/parse preserves the element graph (binary v1-5, KeyValues2 nested/flat, KV1 bridge)."""
from __future__ import annotations

import io
import re
import struct
import uuid as uuidmod
from typing import Any

from harness.common import Ck, coq_list, parse_coq_N_list
from harness import c14_util as U

COQ_TYPE = {'ELEMENT': 'TElement', 'INTEGER': 'TInt', 'FLOAT': 'TFloat', 'BOOL': 'TBool', 'STRING': 'TString',
            'BINARY': 'TBinary', 'TIME': 'TTime', 'COLOR': 'TColor', 'VEC2': 'TVec2', 'VEC3': 'TVec3', 'VEC4': 'TVec4',
            'ANGLE': 'TAngle', 'QUATERNION': 'TQuat', 'MATRIX': 'TMatrix'}


# ------------------------------------------------------------------------------------------------ spec -> Coq doc
def wire_bytes(typ: str, v: Any) -> bytes:
    """Wire form of a fixed-width value, computed independently of dmx.py (plain struct)."""
    if typ == 'INTEGER':
        return struct.pack('<i', v)
    if typ == 'FLOAT':
        return struct.pack('<f', v)
    if typ == 'BOOL':
        return struct.pack('<?', v)
    if typ == 'TIME':
        return struct.pack('<i', round(v * 10000.0))
    if typ == 'COLOR':
        return struct.pack('<4B', *v)
    if typ == 'MATRIX':
        return struct.pack('<16f', v[0], v[1], v[2], 0.0, v[3], v[4], v[5], 0.0, v[6], v[7], v[8], 0.0, 0.0, 0.0, 0.0, 1.0)
    return struct.pack(f'<{len(v)}f', *v)


def _nl(b) -> str:
    return '[' + ';'.join(str(x) for x in b) + ']'


def _enc(x: str, encoding: str):
    """The string as the numbers of a Coq literal: its bytes in the given codec, or its code points for 'cps'."""
    return [ord(c) for c in x] if encoding == 'cps' else x.encode(encoding)


def coq_attr(rec: list, encoding: str) -> str:
    def s(x: str) -> str:
        return _nl(_enc(x, encoding))
    name, typ, is_arr, vals = rec
    if typ == 'ELEMENT':
        items = ['RNull' if v is None else (f'(RElem {v})' if isinstance(v, int)
                 else f'(RStub {_nl(str(uuidmod.UUID(hex=v[1])).encode("ascii"))})') for v in vals]
        mk = 'VElem'
    elif typ == 'STRING':
        items, mk = [s(v) for v in vals], 'VStr'
    elif typ == 'BINARY':
        items, mk = [_nl(bytes.fromhex(v)) for v in vals], 'VBin'
    else:
        items, mk = [_nl(wire_bytes(typ, v)) for v in vals], f'VFix {COQ_TYPE[typ]}'
    shape = f'(Array {coq_list(items)})' if is_arr else f'(Scalar {items[0]})'
    return f'{{| aname := {s(name)}; adata := {mk} {shape} |}}'


def coq_doc(c: dict, encoding: str) -> str:
    """A canonical spec as a Coq [doc] literal; strings are pre-encoded (the model runs with the identity codec)."""
    def s(x: str) -> str:
        return _nl(_enc(x, encoding))
    els = []
    for e in c['elems']:
        attrs = [coq_attr(a, encoding) for a in e['attrs']]
        els.append(f'{{| etype := {s(e["type"])}; ename := {s(e["name"])}; '
                   f'euuid := {_nl(uuidmod.UUID(hex=e["uuid"]).bytes_le)}; eattrs := {coq_list(attrs)} |}}')
    return coq_list(els)


def coq_rdoc(c: dict, encoding: str) -> str:
    """The real dicts of a canonical graph (U.canon: 'members', the name member included) as a Coq [rdoc] literal."""
    def s(x: str) -> str:
        return _nl(_enc(x, encoding))
    els = []
    for e in c['elems']:
        ms = [f'({s(k)}, {coq_attr(rec, encoding)})' for k, rec in e['members']]
        els.append(f'{{| r_type := {s(e["type"])}; r_uuid := {_nl(uuidmod.UUID(hex=e["uuid"]).bytes_le)}; r_members := {coq_list(ms)} |}}')
    return coq_list(els)


MANIFEST = dict(
    technique='Rocq proof (binary DMX body round trip for versions 0-5; type-code round trip; fixed-width value codecs through the shared struct model incl. the TIME codec over exact rationals with a proved binary64 rounding model; typed binary documents; KeyValues2 on the shared tokenizer model: reference decision tables, flat layout text -> tokens -> document -> graph (fix-up pass), nested layout with the full parser recursion by mutual nested induction; value strings through C05\'s exact %.6f model; KV1 bridge; round 3: the ordered dict of members of an element of members below the binary document - attribute count = records written for every history of the mapping API, export of the real dicts = export of the document they denote; the dict the readers build is keyed by the casefolded names and is the canonical form of the exported dict; KeyValues2 at the level of the dict: what the reader builds from the records the writer wrote denotes the same element) + ast translator (normalising: helper inlining, single-use locals, else-after-return, Struct constants, loop vs comprehension, locals by role) with 74 kernel-checked instance obligations + seven vm_compute correspondences (byte-exact binary, scalar codecs, KV2 flat / nested text exact, keyword predicate, value strings, KV1 bridge) + isomorphism oracle on real graphs; round 4: the root selection of export_kv2 (use counts, threshold, keyword rule, exported element, flat) read from the source as a generated rootcfg and the graph -> tree-of-blocks step modelled and proved (every reachable element written exactly once, the writer\'s recursion total, the tree carried by the text, cull_uuid = erasure of inline ids), one statement of the whole property per encoding (c14_property_binary, c14_property_kv2), translator locals matched by the role of their binding site, a time limit around every call into the implementation; round 5: the isomorphism of the nested KeyValues2 round trip written out (renumbering by id, proved for all graphs and evaluated in the kernel on the graph the real parser returns), cull_uuid output proved independent of the ids of inline elements, parse_bin read entirely by the role of its locals and the module-level converters alpha-normalised by binding order, the codec argument of the binformat helpers (another module) read from the source, 74 instance obligations, a second-generation oracle (the parsed graph modified through the API and exported again) and an import guard in the search',
    text='Theorems in Props/C14.v (99; all closed under the global context; 73-90 from round 4 are described at the end): the attribute type byte decodes to the same (type, array?) pair; parse_bin (export_bin d) = d for every expressible document (versions 0-5); every fixed-width value representable in its wire type (int32, binary32 patterns, booleans, tick-exact times, colour bytes, vectors, angles in [0,360), quaternions, the 3x3 part of a matrix) is packed by the generated struct format into calcsize bytes and unpacked to the same value (Bin/Struct unpack_pack instantiated); round((k/S)*S) = k in binary64 for every 32-bit tick count, with |rn64 x - x| <= 2^-53 |x| proved for the executable rounding model, and int() instead of round() refuted by a computed witness; typed documents survive lower -> export_bin -> parse_bin -> lift; a KV2 reference decision table meeting its condition writes NULL / stub / root / inline exactly as the format needs and the two sites agree (dropping `or is_stub` refuted); the flat-layout text of any document re-tokenises (C02 quoted_embedding composed) and re-parses to the document, and linking UUID references gives back the graph (sharing, cycles, NULL, stubs) for pairwise distinct ids; the nested-layout text re-parses to the tree of inline blocks at any depth provided no inline element has an attribute type keyword as its type (refuted otherwise: the defect repaired in this round); FLOAT / vector component text denotes the value rounded half-even at 6 places, vector texts split into their components, int and colour texts parse back; to_kv1 (from_kv1 t) = t. All configurations (type codes, sizes, struct formats, TIME rounding function and scales, MATRIX slot layout, codec per string site, stub payload, KV2 escaping / codec per field, the two reference if-chains, the keyword-root rule, Tokenizer kwargs, ValueType keywords, _fmt_float and the vector / colour string converters, KV1 constants) are regenerated from dmx.py (tokenizer tables from tokenizer.py) on every run and the premises are kernel-checked as named obligations. The models are compared with the implementation on generated inputs on every run; generated graphs (DAGs, cycles, stubs, NULLs, all types, empty arrays, 3 unicode modes, versions 1-5, KV2 flat/nested/cull_uuid) are round-tripped through Element.parse and compared up to isomorphism. Round 3 (47-72): for every count expression / loop filters / Element.name meeting cnt_cfg_ok and every dict with pairwise distinct keys the attribute count export_binary writes equals the number of records it writes, with or without the name member; every operation of the mapping API (clear, del, pop, popitem, name setter, item assignment, setdefault) keeps the keys distinct and the dict keyed by the casefolded names, hence every history on a fresh element; export_raw on the real dicts = export_bin of the document they denote and parses back to it (versions 0-5); len(elem) - 1 and a record loop testing attr.name are refuted by computed witnesses; from_kv1 with both name tests on the casefolded name is the proved bridge, either test on the case-preserved name is refuted; the dict a reader builds from a document element is the name member followed by one member per record under its casefolded name, elem[a.name] finds every attribute, it denotes the document element, and composed with the export theorems it is the canonical form of the exported dict; a reader storing under the name as written is refuted. KeyValues2 at the level of the dict: for every dict keyed by the casefolded names whose name member is a string, either name test of the reader and every skip test of the writer that skips only the member keyed name, the dict read from the records written is the name member holding Element.name followed by every other member under its key in order, so it denotes the same element - for every API history; a name member spelled NAME keeps its spelling through KeyValues2 (computed example); a loop skipping another key is refuted. Round 4 (73-90): a root rule meeting root_rule_ok decides exactly flat / used twice or more / keyword type / exported element, so an element written inline is referred to at most once; for any root predicate every block of the tree nest_doc gives is, read back (unnest), an element of the graph with its references by id, and every element reachable from the exported one is written; with the root rule no element is written twice (blocks counted level by level below the roots; the holder of an inline element is unique), the recursion ends with fuel length g + 1, the tree meets ndoc_ok (inline blocks have no keyword type because such elements are roots), cull_uuid erases the ids of inline blocks only and no reference names an inline block; flatten (link d) = d for every document (the graph the fix-up pass builds is determined by the registered elements up to numbering); hence c14_property_kv2: for every graph with distinct ids whose elements are all reachable, the flat text parses and links back to the graph, and the nested tree exists, is parsed back from its text, holds every element once with the exported one first and is a permutation of the flat document whose references resolve to the graph; count > 2 and a missing name line for empty names are refuted by computed witnesses. c14_property_binary: the bytes written from the real dicts (any API history) whose values are the packed form of representable typed values parse to a document that unpacks to those values and gives the canonical reader dicts. Round 5 (91-99): kv2_permuted_flat_documents_are_isomorphic: two graphs (distinct ids, references in range, stub ids not element ids) whose flat documents are permutations of each other are isomorphic by the renumbering by id (by_id): injective, element by_id(i) of the one is element i of the other with every element reference j replaced by by_id(j), everything else equal; kv2_graph_iso_identity: the identity renumbering relates only equal graphs; kv2_fixup_builds_a_graph: what the fix-up pass builds meets graph_ok when no id was registered twice; c14_property_kv2_iso: under the hypotheses of c14_property_kv2 the tree of blocks is parsed back from its text and the graph the reader builds is a graph isomorphic to the exported one by by_id, which fixes the exported element; kv2_graph_iso_test_sound: the boolean graph_iso_b the check evaluates on the graph of the real parser implies graph_iso; kv2_culled_export_ignores_inline_ids / _is_erasure_of_either: the tree written with cull_uuid is the same for all graphs that differ only in the ids of inline elements and is the erasure of the unculled tree of each (the fresh UUIDs the reader gives id-less blocks are not modelled); two computed examples.',
    note='Trusted: Coq kernel + vm_compute, translate/c14_dmx.py and translate/c02_tables.py, the hand models Fmt/DmxBin.v, Fmt/DmxKv1.v, Fmt/DmxScalar.v, Fmt/DmxKv2.v, Fmt/DmxKv2Nested.v, Fmt/DmxValText.v (each tied by a differential run on every run) and the shared Bin/Struct.v, Text/Tokenizer.v, Num/Dec6.v; CPython codecs / uuid (str.encode/decode and UUID text are parameters or opaque texts); binary64 arithmetic is rn64 of the exact result (no exponent range; compared with CPython float * and / on every run); a binary32 value is its bit pattern (harness converts with struct "<f"); FrozenAngle normalisation identity on [0,360) is a hypothesis checked on sampled patterns; breadth-first numbering of the object graph is done by the harness and checked by the byte-exact comparison. Not modelled (oracle only): float(text) / str(float) / hex / bool strings, malformed KV2 input, the DMX header line and unicode flag, format name/version. Round 3: the members-level models Fmt/DmxMembers.v / Fmt/DmxMembersParse.v are tied by correspondence:binary (export_raw on the real dicts byte-exact; the dicts of the parsed elements, for ASCII names) and by the translated count expression, loop filters, Element.name, Element.__init__ and the key expression of the three member stores; Fmt/DmxMembersKv2.v is tied by the translated skip test of _export_kv2, the name test of _parse_kv2_element and correspondence:binary code 6 (keys and spellings after a flat KeyValues2 round trip, ASCII names); the dict-level KeyValues2 theorems are not composed with the text-level ones (records -> text -> records is theorems 28 / 32 on documents of name + records); the member keyed "name" is the name of the element whatever its spelling or type (an attribute assigned as \'NAME\' is that member). Round 4: Fmt/DmxKv2Graph.v (nest_doc / unnest / is_root) is tied by the translated root rule (use_count initial value, first-use value, increment, stub skip, comparison and threshold, keyword update, roots.add(self.uuid), flat branch, the writing loop and the arguments handed to _export_kv2), the id-line condition and the unconditional name line of _export_kv2, and by correspondence:kv2-nested-text codes 6-8 (nest_doc of the real object graph renders to the exported text, with and without cull_uuid; every element written once; unnest of the parsed tree = the object graph Element.parse returned); the reader-dict correspondences now run on code points with the regenerated casefold table (names outside ASCII included); the graph-level KeyValues2 theorems are on documents of name + records (the dict-level theorems 68-72 stay a separate layer); the step from the elements the reader registers to object identity (an inline block is the attribute value itself, a reference is resolved through id_to_elem) is modelled as resolution by id, which is the same thing because no id is registered twice (written_once). Print Assumptions is asked once for the conjunction of all theorems of Props/C14.v (per-theorem fallback if it is not closed). No known finding left: the round-1 finding (inline element whose type is an attribute type keyword) is repaired in the repo branch. Round 5: what remains semantic/trusted in the whole-property theorems is listed in docs/C14.md (Round 5, Hypotheses): codec pair and str_ok, UUID text, rn64 = CPython float arithmetic, FrozenAngle identity below 360, the value strings opaque in the KeyValues2 document models, reachability of every element from the exported one, the name member is the element name; parse_bin is now read by the role of its locals (a constructor-argument swap fails closed); gen_bin_strings_stored_as_read is a syntactic reading (assignments to the four string locals are read_nullstr calls or string-table entries).',
)

IMPORTS = ['Coq.NArith.NArith', 'Coq.ZArith.ZArith', 'Coq.Lists.List', 'Coq.Bool.Bool', 'SV.Fmt.DmxCodes', 'SV.Fmt.DmxBin',
           'SV.Fmt.DmxMembers', 'SV.Fmt.DmxMembersParse', 'SV.Fmt.DmxMembersKv2', 'SV.Fmt.DmxKv1', 'SV.Fmt.DmxKv1Sel', 'SV.Fmt.DmxScalar', 'SV.Text.Str', 'SV.Text.Tokenizer', 'SV.Text.TokGen', 'SV.Fmt.DmxKv2', 'SV.Fmt.DmxKv2Graph',
           'SV.Num.Dec6', 'SV.Fmt.DmxValText', 'SV.Fmt.DmxHeader', 'SV.Gen.DmxCodes_gen', 'SV.Fmt.DmxKv2Inst']
PRE_BIN = '''Import ListNotations. Open Scope N_scope.
Definition idenc (_ : enc) (s : str) : bytes := s.
Definition iddec (_ : enc) (b : bytes) : option str := Some b.
Fixpoint leqb {A} (f : A -> A -> bool) (a b : list A) : bool :=
  match a, b with [], [] => true | x :: a', y :: b' => f x y && leqb f a' b' | _, _ => false end.
Definition nl_eqb := leqb N.eqb.
Definition eref_eqb (a b : eref) := match a, b with RElem i, RElem j => i =? j | RNull, RNull => true | RStub u, RStub w => nl_eqb u w | _, _ => false end.
Definition shape_eqb {A} (f : A -> A -> bool) (a b : shape A) := match a, b with Scalar x, Scalar y => f x y | Array l, Array m => leqb f l m | _, _ => false end.
Definition aval_eqb (a b : aval) := match a, b with
  | VElem s, VElem t => shape_eqb eref_eqb s t | VStr s, VStr t => shape_eqb nl_eqb s t | VBin s, VBin t => shape_eqb nl_eqb s t
  | VFix x s, VFix y t => vtype_eqb x y && shape_eqb nl_eqb s t | _, _ => false end.
Definition attr_eqb (a b : attr) := nl_eqb (aname a) (aname b) && aval_eqb (adata a) (adata b).
Definition elem_eqb (a b : elem) := nl_eqb (etype a) (etype b) && nl_eqb (ename a) (ename b) && nl_eqb (euuid a) (euuid b) && leqb attr_eqb (eattrs a) (eattrs b).
Definition odoc_eqb (a b : option doc) := match a, b with Some x, Some y => leqb elem_eqb x y | None, None => true | _, _ => false end.
(* result code per case: 0 ok, 1 model export differs from implementation bytes, 2 model parse differs,
   3 the export of the real dicts (count expression and loop filters read from the source) differs from the bytes,
   4 the document the real dicts denote differs from the document the harness computed from the spec and its history,
   5 the dicts the reader model builds from the parsed document (key expression read from the source) differ from the
     dicts of the elements Element.parse returned *)
Definition members_eqb (a b : members) := leqb (fun x y : str * attr => nl_eqb (fst x) (fst y) && attr_eqb (snd x) (snd y)) a b.
(* codes 5 and 6 work on code points (the literals pcp / prcp / rdcp / kv hold code points, not bytes) with str.casefold as the
   per-character table regenerated from the running CPython (gen_fold): names outside ASCII included *)
Definition reader_dicts_ok (p : option doc) (pr : option rdoc) : bool :=
  match p, pr with
  | Some pd, Some prd => leqb members_eqb (map (parsed_members gen_fold (pk_bin gen_parse)) pd) (map r_members prd)
  | _, _ => true
  end.
(* 6: the same graph through KeyValues2 (flat layout): keys and spellings of the dict the model of the KV2 writer + reader
   gives for every exported dict (skip test, name test and key expression read from the source) differ from the dicts
   of the elements Element.parse returned *)
Definition shape_of (m : members) : list (str * str) := map (fun ka : str * attr => (fst ka, aname (snd ka))) m.
Definition kv2_dicts_ok (rd : rdoc) (kv : option (list (list (str * str)))) : bool :=
  match kv with
  | Some l => leqb (leqb (fun x y : str * str => nl_eqb (fst x) (fst y) && nl_eqb (snd x) (snd y)))
                (map (fun r => shape_of (kv2_read gen_fold gen_kv2_name_test (pk_kv2_attr gen_parse) [] (kv2_written gen_cnt gen_kv2_skip (r_members r)))) rd) l
  | None => true
  end.
Definition chk (c : N * doc * bytes * option doc * rdoc * option doc * option rdoc * rdoc * option (list (list (str * str)))) : N :=
  let '(v, d, b, p, rd, pcp, prcp, rdcp, kv) := c in
  if nl_eqb (export_bin idenc gen_cfg v d) b
  then (if odoc_eqb (parse_bin iddec gen_cfg v b) p
        then (if nl_eqb (export_raw idenc gen_cfg gen_cnt v rd) b
              then (if odoc_eqb (Some (map (abstract gen_cnt) rd)) (Some d)
                    then (if reader_dicts_ok pcp prcp then (if kv2_dicts_ok rdcp kv then 0 else 6) else 5) else 4) else 3)
        else 2)
  else 1.
Fixpoint bad_idx {A} (f : A -> N) (n : N) (l : list A) : list N := match l with [] => [] | x :: r => (if f x =? 0 then [] else [n * 10 + f x]) ++ bad_idx f (n + 1) r end.
'''


# ------------------------------------------------------------------------------------------------ modes
def rand_mode(rng, fmt=None) -> dict:
    fmt = fmt or rng.choice(['binary', 'binary', 'kv2'])
    uni = rng.choice(U.UNICODE_MODES)
    if fmt == 'binary':
        return {'fmt': 'binary', 'version': rng.randint(1, 5), 'unicode': uni}
    return {'fmt': 'kv2', 'flat': rng.random() < 0.5, 'cull_uuid': rng.random() < 0.3, 'unicode': uni}


FMT_NAMES = ['model', 'pcf', 'sfm_session', 'x', 'vmt-1', 'a.b', 'MixedCase', 'dmx']


def with_format_args(rng, mode: dict) -> dict:
    """The fmt_name / fmt_ver arguments of the exporters, other than their defaults (the header line carries them)."""
    return dict(mode, fmt_name=rng.choice(FMT_NAMES), fmt_ver=rng.choice([0, 1, 2, 18, 22, 100]))


def mode_tag(m: dict) -> str:
    if m['fmt'] == 'binary':
        return f'binary-v{m["version"]}-{m["unicode"]}'
    return f'kv2-{"flat" if m["flat"] else "nested"}{"-cull" if m["cull_uuid"] else ""}-{m["unicode"]}'


def fails(spec: dict, mode: dict) -> bool:
    return U.roundtrip(spec, mode)[0] is not None


def mode_class(spec: dict, mode: dict) -> str:
    """Which part of the configuration space a (shrunk) failing spec fails in: the key prefix."""
    uni_needed = not all(s.isascii() for s in _all_strings(spec))
    unis = ['format', 'silent'] if uni_needed else ['ascii']
    if mode['fmt'] == 'binary':
        bad = [v for v in range(1, 6) if (v >= 3 or not _has_time(spec)) and any(fails(spec, dict(mode, version=v, unicode=u)) for u in unis)]
        if bad == [v for v in range(1, 6) if v >= 3 or not _has_time(spec)]:
            return 'binary'
        return 'binary-v' + ''.join(map(str, bad))
    res = {fl: any(fails(spec, dict(mode, flat=fl, unicode=u)) for u in unis) for fl in (False, True)}
    if res[False] and res[True]:
        return 'kv2'
    return 'kv2-flat' if res[True] else 'kv2-nested'


def _all_strings(spec):
    for e in spec['elems']:
        yield e['type']
        yield e['name']
        for op in e.get('ops', ()):
            if op[0] == 'setname':
                yield op[1]
        for a in U.payloads(e):
            yield a[0]
            if a[1] == 'STRING':
                yield from a[3]


def _has_time(spec) -> bool:
    return any(a[1] == 'TIME' for e in spec['elems'] for a in U.payloads(e))


# ------------------------------------------------------------------------------------------------ corpus
_U = [f'{i:032x}' for i in range(1, 9)]
_M = [1.0, 0.0, 0.0, 0.0, 1.0, 0.0, 0.0, 0.0, 1.0]


def _one(attrs, etype='T', name='n', extra=()):
    return {'elems': [{'type': etype, 'name': name, 'uuid': _U[0], 'attrs': attrs}, *extra]}


CORPUS: list[tuple[str, dict, list[dict]]] = [
    ('scalar-matrix', _one([['m', 'MATRIX', False, [_M]]]), [{'fmt': 'binary', 'version': v, 'unicode': 'ascii'} for v in (1, 2, 5)]),
    ('matrix-array-and-quat', _one([['m', 'MATRIX', True, [_M, _M]], ['q', 'QUATERNION', False, [[0.0, 0.0, 0.0, 1.0]]]]),
     [{'fmt': 'binary', 'version': 5, 'unicode': 'ascii'}, {'fmt': 'kv2', 'flat': False, 'cull_uuid': False, 'unicode': 'ascii'}]),
    ('stub-scalar', _one([['s', 'ELEMENT', False, [['stub', _U[5]]]]]),
     [{'fmt': 'binary', 'version': 2, 'unicode': 'ascii'}, {'fmt': 'kv2', 'flat': False, 'cull_uuid': False, 'unicode': 'ascii'},
      {'fmt': 'kv2', 'flat': True, 'cull_uuid': True, 'unicode': 'ascii'}]),
    ('stub-null-elem-array', _one([['s', 'ELEMENT', True, [['stub', _U[5]], None, 0, ['stub', _U[5]], ['stub', _U[6]], 1]],
                                   ['after', 'INTEGER', False, [7]]],
                                  extra=[{'type': 'C', 'name': 'c', 'uuid': _U[1], 'attrs': [['back', 'ELEMENT', False, [0]]]}]),
     [{'fmt': 'binary', 'version': 4, 'unicode': 'ascii'}, {'fmt': 'kv2', 'flat': False, 'cull_uuid': False, 'unicode': 'ascii'},
      {'fmt': 'kv2', 'flat': True, 'cull_uuid': False, 'unicode': 'ascii'}]),
    ('unicode-string-array', _one([['a', 'STRING', True, ['éx', 'b', '日本']], ['s', 'STRING', False, ['ß']]]),
     [{'fmt': 'binary', 'version': v, 'unicode': u} for v in (1, 4, 5) for u in ('format', 'silent')]),
    ('unicode-element-type', _one([], etype='Té', name='é'),
     [{'fmt': 'binary', 'version': 1, 'unicode': 'format'}, {'fmt': 'binary', 'version': 3, 'unicode': 'silent'},
      {'fmt': 'kv2', 'flat': False, 'cull_uuid': False, 'unicode': 'format'}]),
    ('kv2-attr-name-escape', _one([['a"b', 'INTEGER', False, [1]], ['t\tab', 'STRING', True, ['x']], ['back\\', 'BOOL', False, [True]],
                                   ['nl\nx', 'FLOAT', False, [0.5]]]),
     [{'fmt': 'kv2', 'flat': f, 'cull_uuid': False, 'unicode': 'ascii'} for f in (False, True)] + [{'fmt': 'binary', 'version': 1, 'unicode': 'ascii'}]),
    ('name-like-attribute', {'elems': [{'type': 'T', 'name': 'n', 'uuid': _U[0], 'attrs': [['Name', 'STRING', False, ['x']], ['c', 'ELEMENT', False, [1]]]},
                                       {'type': 'T', 'name': 'm', 'uuid': _U[1], 'attrs': [['q', 'INTEGER', False, [3]]]}]},
     [{'fmt': 'binary', 'version': 1, 'unicode': 'ascii'}, {'fmt': 'binary', 'version': 5, 'unicode': 'ascii'}]),
    ('kv2-type-is-keyword', {'elems': [{'type': 'T', 'name': 'n', 'uuid': _U[0], 'attrs': [['c', 'ELEMENT', False, [1]], ['d', 'ELEMENT', True, [2]]]},
                                       {'type': 'int', 'name': 'm', 'uuid': _U[1], 'attrs': []},
                                       {'type': 'element', 'name': 'k', 'uuid': _U[2], 'attrs': []}]},
     [{'fmt': 'kv2', 'flat': f, 'cull_uuid': False, 'unicode': 'ascii'} for f in (False, True)]),
    ('cycles', {'elems': [{'type': 'A', 'name': 'a', 'uuid': _U[0], 'attrs': [['self', 'ELEMENT', False, [0]], ['kids', 'ELEMENT', True, [1, 2, 1]]]},
                          {'type': 'B', 'name': 'b', 'uuid': _U[1], 'attrs': [['peer', 'ELEMENT', False, [2]]]},
                          {'type': 'B', 'name': 'c', 'uuid': _U[2], 'attrs': [['peer', 'ELEMENT', False, [1]], ['own', 'ELEMENT', False, [3]]]},
                          {'type': 'L', 'name': 'leaf', 'uuid': _U[3], 'attrs': [['selfarr', 'ELEMENT', True, [3, None]]]}]},
     [{'fmt': 'binary', 'version': v, 'unicode': 'ascii'} for v in (1, 3, 5)] +
     [{'fmt': 'kv2', 'flat': f, 'cull_uuid': c, 'unicode': 'ascii'} for f in (False, True) for c in (False, True)]),
    # API histories: the 'name' member removed through the public mapping API, other attributes kept or added afterwards
    ('history-cleared-then-filled', {'elems': [{'type': 'T', 'name': 'n', 'uuid': _U[0], 'attrs': [['old', 'INTEGER', False, [1]]],
                                                'ops': [['clear'], ['set', 'a', 'INTEGER', False, [5]], ['set', 'kid', 'ELEMENT', False, [1]]]},
                                               {'type': 'C', 'name': 'c', 'uuid': _U[1], 'attrs': [['q', 'STRING', False, ['s']]]}]},
     [{'fmt': 'binary', 'version': v, 'unicode': 'ascii'} for v in (1, 2, 4, 5)] +
     [{'fmt': 'kv2', 'flat': f, 'cull_uuid': False, 'unicode': 'ascii'} for f in (False, True)]),
    ('history-name-deleted', {'elems': [{'type': 'T', 'name': 'root', 'uuid': _U[0], 'attrs': [['kid', 'ELEMENT', True, [1, 1]]]},
                                        {'type': 'C', 'name': 'gone', 'uuid': _U[1], 'attrs': [['x', 'FLOAT', False, [0.5]], ['y', 'STRING', True, ['p', 'q']]],
                                         'ops': [['del', 'NAME']]}]},
     [{'fmt': 'binary', 'version': v, 'unicode': 'ascii'} for v in (1, 3, 5)] + [{'fmt': 'kv2', 'flat': False, 'cull_uuid': True, 'unicode': 'ascii'}]),
    ('history-name-popped-and-readded', {'elems': [{'type': 'T', 'name': 'first', 'uuid': _U[0], 'attrs': [['a', 'INTEGER', False, [1]], ['b', 'BOOL', False, [True]]],
                                                    'ops': [['pop', 'Name'], ['pop', 'a'], ['set', 'NAME', 'STRING', False, ['again']], ['set', 'c', 'INTEGER', False, [3]]]}]},
     [{'fmt': 'binary', 'version': v, 'unicode': 'ascii'} for v in (1, 4, 5)] + [{'fmt': 'kv2', 'flat': True, 'cull_uuid': False, 'unicode': 'ascii'}]),
    ('history-popitem-to-nothing-then-setter', {'elems': [{'type': 'T', 'name': 'n', 'uuid': _U[0], 'attrs': [['a', 'INTEGER', False, [1]]],
                                                           'ops': [['popitem'], ['popitem'], ['set', 'z', 'COLOR', False, [[1, 2, 3, 4]]], ['setname', 'late']]}]},
     [{'fmt': 'binary', 'version': v, 'unicode': 'ascii'} for v in (2, 5)] + [{'fmt': 'kv2', 'flat': False, 'cull_uuid': False, 'unicode': 'ascii'}]),
    ('all-empty-arrays', _one([[f'e{i}', t, True, []] for i, t in enumerate(U.TYPES)]),
     [{'fmt': 'binary', 'version': 3, 'unicode': 'ascii'}, {'fmt': 'binary', 'version': 5, 'unicode': 'ascii'},
      {'fmt': 'kv2', 'flat': False, 'cull_uuid': False, 'unicode': 'ascii'}]),
]


# ------------------------------------------------------------------------------------------------ binary correspondence
def corr_binary(ck: Ck) -> None:
    """Model export vs export_binary (byte-exact) and model parse of the implementation's bytes vs parse_bin."""
    from srctools import dmx
    n = ck.budget(100, 1500)
    cases = []
    corpus = [(s, m) for _, s, ms in CORPUS for m in ms if m['fmt'] == 'binary']
    for i in range(n):
        U.arm()        # a limit per case: an implementation that does not return ends the stage, not the check
        if i < len(corpus):
            spec, mode = corpus[i]
        else:
            mode = rand_mode(ck.rng, 'binary')
            spec = U.gen_spec(ck.rng, mode['unicode'] != 'ascii', allow_time=mode['version'] >= 3, histories=0.25)
            if ck.rng.random() < 0.05:      # the name assigned as an attribute spelled in another case
                spec['elems'][0]['attrs'].insert(ck.rng.randint(0, len(spec['elems'][0]['attrs'])), [ck.rng.choice(['Name', 'NAME']), 'STRING', False, ['nm']])
        c = U.reachable_canon(spec)
        try:
            real = U.canon(U.build(spec)[0])
            data = U.export_bytes(spec, mode['version'], mode['unicode'])
        except Exception:
            ck.count('corr_binary_export_error')
            continue
        if any(e['members'] is None for e in real['elems']):
            continue
        for e in c['elems']:
            ck.hist('corr_binary_name_member', 'missing' if not e['has_name'] else ('first' if not e['name_pos'] else 'later'))
        cut = data.find(b'-->\n\0')
        body = data[cut + 5:]
        prl = pcl = 'None'
        try:
            got, _, _ = dmx.Element.parse(io.BytesIO(data), unicode=(mode['unicode'] == 'silent'))
            cg = U.canon(got)
            parsed = coq_doc(cg, 'utf8')
            pl = f'(Some {parsed})'
            if all(e['members'] is not None for e in cg['elems']):
                pcl = f'(Some {coq_doc(cg, "cps")})'
                prl = f'(Some {coq_rdoc(cg, "cps")})'       # the dicts of the parsed elements, keys included, as code points
                ck.count('corr_binary_reader_dicts')
                ck.hist('corr_binary_reader_dict_names', 'ascii' if all(rec[0].isascii() for e in cg['elems'] for _, rec in e['members']) else 'non-ascii')
        except Exception:
            pl = 'None'
            ck.count('corr_binary_impl_parse_error')
        kvl = 'None'
        try:      # the same graph through KeyValues2, flat layout (every element a top-level block): keys and spellings of the parsed dicts
            buf2 = io.BytesIO()
            uni2 = mode['unicode'] if all(x.isascii() for x in _all_strings(spec)) or mode['unicode'] != 'ascii' else 'format'
            U.build(spec)[0].export_kv2(buf2, flat=True, unicode=uni2)
            g2, _, _ = dmx.Element.parse(io.BytesIO(buf2.getvalue()), unicode=(uni2 == 'silent'))
            c2 = U.canon(g2)
            if len(c2['elems']) == len(real['elems']) and all(e['members'] is not None for e in c2['elems']):
                kvl = '(Some ' + coq_list(coq_list(f'({_cps(k)}, {_cps(rec[0])})' for k, rec in e['members'])
                                          for e in c2['elems']) + ')'
                ck.count('corr_binary_kv2_dicts')
        except Exception:
            ck.count('corr_binary_kv2_error')
        cases.append((mode, spec, f'({mode["version"]}, {coq_doc(c, "utf8")}, {_nl(body)}, {pl}, {coq_rdoc(real, "utf8")}, {pcl}, {prl}, '
                                  f'{coq_rdoc(real, "cps")}, {kvl})'))
        ck.count('corr_binary_cases')
        ck.hist('corr_binary_version', mode['version'])
        if len(c['elems']) > 1 or any(e['attrs'] for e in c['elems']):
            ck.seen(('cb', mode['version'], mode['unicode'], repr(c['elems'])))
    U.disarm()
    bad = []
    for lo in range(0, len(cases), 120):
        part = cases[lo:lo + 120]
        vals = ck.coq_eval(IMPORTS, [f'bad_idx chk 0 {coq_list(x[2] for x in part)}'], name='bin', preamble=PRE_BIN)
        if vals is None:
            ck.obligation('correspondence:binary', False, 'model could not be evaluated')
            ck.tie_broken.append('correspondence binary: model evaluation failed')
            return
        bad += [(lo + v // 10, v % 10) for v in parse_coq_N_list(vals[0])]
    ck.obligation('correspondence:binary', not bad,
                  f'{len(cases)} documents: Fmt/DmxBin.v export_bin vs Element.export_binary byte-exact, parse_bin of the '
                  f'implementation bytes vs Element.parse: {len(bad)} disagreements')
    if cases:
        ck.sample({'binary_correspondence_case': {'mode': cases[-1][0], 'spec': cases[-1][1]}})
    if bad:
        i, code = bad[0]
        ck.tie_broken.append('correspondence binary (Fmt/DmxBin.v vs export_binary/parse_bin)')
        ck.extra['binary_disagreement'] = {'mode': cases[i][0], 'spec': cases[i][1],
                                           'kind': {1: 'model export bytes differ', 2: 'model parse differs',
                                                    3: 'export_raw (count expression / loop filters from the source, on the real dicts) differs from the bytes',
                                                    4: 'the document the real dicts denote differs from the simulated history',
                                                    5: 'the dicts the reader model builds (key expression from the source) differ from the dicts of the parsed elements',
                                                    6: 'KeyValues2 flat round trip: keys / spellings of the dicts the writer + reader model gives differ from the parsed elements'}.get(code, code)}



# ------------------------------------------------------------------------------------------------ scalar codecs
IMPORTS_SC = ['Coq.NArith.NArith', 'Coq.ZArith.ZArith', 'Coq.QArith.QArith', 'Coq.Lists.List', 'Coq.Bool.Bool', 'Coq.Strings.String',
              'SV.Bin.Struct', 'SV.Fmt.DmxCodes', 'SV.Fmt.DmxScalar', 'SV.Gen.DmxCodes_gen']
PRE_SC = """Import ListNotations. Open Scope N_scope.
Fixpoint leqb {A} (f : A -> A -> bool) (a b : list A) : bool :=
  match a, b with [], [] => true | x :: a', y :: b' => f x y && leqb f a' b' | _, _ => false end.
Definition sval_eqb (a b : sval) : bool := match a, b with
  | SvInt x, SvInt y => (x =? y)%Z | SvFloat x, SvFloat y => x =? y | SvBool x, SvBool y => Bool.eqb x y
  | SvTime x, SvTime y => Qeq_bool x y
  | SvColor r g b a, SvColor r' g' b' a' => ((r =? r') && (g =? g') && (b =? b') && (a =? a'))%Z
  | SvVec x, SvVec y => leqb N.eqb x y | SvMat x, SvMat y => leqb N.eqb x y | _, _ => false end.
Definition obytes_eqb (a b : option (list N)) := match a, b with Some x, Some y => leqb N.eqb x y | None, None => true | _, _ => false end.
Definition osval_eqb (a b : option sval) := match a, b with Some x, Some y => sval_eqb x y | None, None => true | _, _ => false end.
(* per case: 0 ok, 1 model bytes differ from TYPE_CONVERT[t, BINARY], 2 model value differs from TYPE_CONVERT[BINARY, t] *)
Definition chks (c : vtype * sval * option (list N) * option sval) : N := let '(t, v, b, back) := c in
  if obytes_eqb (encode_sval fmul64 gen_scalar t v) b
  then (match b with
        | Some bs => if osval_eqb (decode_sval fdiv64 (fun x => x) gen_scalar t bs) back then 0 else 2
        | None => 0 end)
  else 1.
Fixpoint bad_idx {A} (f : A -> N) (n : N) (l : list A) : list N := match l with [] => [] | x :: r => (if f x =? 0 then [] else [n * 10 + f x]) ++ bad_idx f (n + 1) r end.
"""


def _f32_bits(x: float) -> int:
    return struct.unpack('<I', struct.pack('<f', x))[0]


def _f32_val(bits: int) -> float:
    return struct.unpack('<f', struct.pack('<I', bits))[0]


def _coq_q(x: float) -> str:
    n, d = float(x).as_integer_ratio()
    return f'(Qmake ({n})%Z {d}%positive)'


def _rand_f32(rng, below_360: bool = False) -> int:
    """A binary32 bit pattern: finite, no NaN (a NaN's payload need not survive float<->double conversion)."""
    if below_360:
        return rng.choice([0, 1, 0x43B3FFFF, 0x3F800000, rng.randrange(0, 0x43B40000), _f32_bits(rng.uniform(0, 359.99))])
    r = rng.random()
    if r < 0.1:
        return rng.choice([0, 0x80000000, 1, 0x80000001, 0x7F7FFFFF, 0xFF7FFFFF, 0x7F800000, 0xFF800000, 0x3F800000, 0x00800000])
    if r < 0.5:
        return _f32_bits(rng.uniform(-1000, 1000))
    b = rng.randrange(0, 1 << 32)
    return b if (b & 0x7F800000) != 0x7F800000 else b & 0x807FFFFF


def sval_of_py(typ: str, v) -> str:
    """A Python value of the given DMX type as a Coq [sval] (floats that came from binary32 as their bit pattern)."""
    if typ == 'INTEGER':
        return f'(SvInt ({int(v)})%Z)'
    if typ == 'FLOAT':
        return f'(SvFloat {_f32_bits(v)})'
    if typ == 'BOOL':
        return f'(SvBool {"true" if v else "false"})'
    if typ == 'TIME':
        return f'(SvTime {_coq_q(v.value)})'
    if typ == 'COLOR':
        return f'(SvColor ({v.r})%Z ({v.g})%Z ({v.b})%Z ({v.a})%Z)'
    if typ == 'MATRIX':
        return '(SvMat [' + ';'.join(str(_f32_bits(v[i, j])) for i in range(3) for j in range(3)) + '])'
    comps = [v.pitch, v.yaw, v.roll] if typ == 'ANGLE' else ([v.x, v.y, v.z] if typ == 'VEC3' else list(v))
    return '(SvVec [' + ';'.join(str(_f32_bits(c)) for c in comps) + '])'


def gen_scalar_value(rng, typ: str):
    """(python value, exact?) — exact means representable in the wire type."""
    from srctools import dmx
    from srctools.math import FrozenAngle, FrozenVec, Matrix
    if typ == 'INTEGER':
        return rng.choice([0, 1, -1, 2 ** 31 - 1, -2 ** 31, 2 ** 31, -2 ** 31 - 1, rng.randrange(-2 ** 31, 2 ** 31), rng.randrange(-70000, 70000)])
    if typ == 'FLOAT':
        return _f32_val(_rand_f32(rng))
    if typ == 'BOOL':
        return rng.random() < 0.5
    if typ == 'TIME':
        r = rng.random()
        if r < 0.6:       # tick-exact, incl. the int32 bounds
            k = rng.choice([rng.randrange(-2 ** 31, 2 ** 31), rng.randrange(-100000, 100000), rng.randrange(0, 100), 2 ** 31 - 1, -2 ** 31])
            return dmx.Time(k / 10000.0)
        if r < 0.8:       # halfway between ticks and other decimal fractions
            return dmx.Time(rng.choice([0.00005, 0.00015, 0.00025, -0.00005, 1.23455, 2.5e-5, rng.randrange(-10 ** 7, 10 ** 7) / 100000.0]))
        return dmx.Time(rng.uniform(-200000.0, 200000.0))
    if typ == 'COLOR':
        return dmx.Color(*[rng.choice([0, 255, rng.randrange(256)]) for _ in range(4)])
    if typ == 'ANGLE':
        return FrozenAngle(*[_f32_val(_rand_f32(rng, True)) for _ in range(3)])
    if typ == 'VEC3':
        return FrozenVec(*[_f32_val(_rand_f32(rng)) for _ in range(3)])
    if typ == 'MATRIX':
        m = Matrix()
        for i in range(3):
            for j in range(3):
                m[i, j] = _f32_val(_rand_f32(rng))
        return m.freeze()
    cls = {'VEC2': dmx.Vec2, 'VEC4': dmx.Vec4, 'QUATERNION': dmx.Quaternion}[typ]
    return cls(*[_f32_val(_rand_f32(rng)) for _ in range({'VEC2': 2, 'VEC4': 4, 'QUATERNION': 4}[typ])])


SCALAR_TYPES = ['INTEGER', 'FLOAT', 'BOOL', 'TIME', 'COLOR', 'VEC2', 'VEC3', 'VEC4', 'ANGLE', 'QUATERNION', 'MATRIX']


def corr_scalar(ck: Ck) -> None:
    """Fmt/DmxScalar.v encode_sval/decode_sval (struct model + rn64 binary64 rounding) vs TYPE_CONVERT[t, BINARY] and
    TYPE_CONVERT[BINARY, t] of the implementation, on generated values of every fixed-width type."""
    from srctools import dmx
    n = ck.budget(330, 4400)
    cases = []
    for i in range(n):
        U.arm()        # a limit per case: an implementation that does not return ends the stage, not the check
        typ = SCALAR_TYPES[i % len(SCALAR_TYPES)]
        vt = dmx.ValueType[typ]
        v = gen_scalar_value(ck.rng, typ)
        try:
            b = dmx.TYPE_CONVERT[vt, dmx.ValueType.BINARY](v)
            bl = f'(Some {_nl(b)})'
        except (struct.error, OverflowError):
            b, bl = None, 'None'
            ck.count('corr_scalar_pack_errors')
        if b is not None:
            try:
                back = dmx.TYPE_CONVERT[dmx.ValueType.BINARY, vt](b)
                kl = f'(Some {sval_of_py(typ, back)})'
            except Exception:
                kl = 'None'
        else:
            kl = 'None'
        cases.append((typ, repr(v), f'({COQ_TYPE[typ]}, {sval_of_py(typ, v)}, {bl}, {kl})'))
        ck.count('corr_scalar_cases')
        ck.hist('corr_scalar_type', typ)
        ck.seen(('sc', typ, repr(v)))
    U.disarm()
    bad = []
    for lo in range(0, len(cases), 440):
        vals = ck.coq_eval(IMPORTS_SC, [f'bad_idx chks 0 {coq_list(x[2] for x in cases[lo:lo + 440])}'], name='scalar', preamble=PRE_SC)
        if vals is None:
            ck.obligation('correspondence:scalar-codecs', False, 'model could not be evaluated')
            ck.tie_broken.append('correspondence scalar codecs: model evaluation failed')
            return
        bad += [(lo + v // 10, v % 10) for v in parse_coq_N_list(vals[0])]
    ck.obligation('correspondence:scalar-codecs', not bad,
                  f'{len(cases)} values of the 11 fixed-width types: Fmt/DmxScalar.v encode_sval/decode_sval (Bin/Struct.v pack/unpack, '
                  f'rn64 binary64 rounding for TIME) vs TYPE_CONVERT[t, BINARY] / TYPE_CONVERT[BINARY, t]: {len(bad)} disagreements')
    ck.sample({'scalar_codec_case': cases[-1][:2]})
    if bad:
        i, code = bad[0]
        ck.tie_broken.append('correspondence scalar codecs (Fmt/DmxScalar.v vs TYPE_CONVERT binary conversions)')
        ck.extra['scalar_disagreement'] = {'type': cases[i][0], 'value': cases[i][1],
                                           'kind': {1: 'model bytes differ', 2: 'model decoded value differs'}.get(code, code)}


def angle_norm_identity(ck: Ck) -> None:
    """The hypothesis of scalar_codec_roundtrip about FrozenAngle: a component that is a binary32 value in [0, 360) is
    unchanged by the constructor.  Checked on the boundaries and on sampled patterns."""
    from srctools.math import FrozenAngle
    pats = [0, 1, 0x00800000, 0x3F800000, 0x43B3FFFF, 0x43B3FFFE, 0x43340000] + [ck.rng.randrange(0, 0x43B40000) for _ in range(ck.budget(2000, 20000))]
    bad = []
    for p_ in pats:
        x = _f32_val(p_)
        a = FrozenAngle(x, x, x)
        if not (_f32_bits(a.pitch) == p_ and a.pitch == x and a.yaw == x and a.roll == x):
            bad.append(p_)
    ck.count('angle_norm_patterns', len(pats))
    ck.obligation('angle-normalisation-identity-below-360', not bad,
                  f'FrozenAngle(x, x, x) keeps x for {len(pats)} binary32 patterns in [0, 360) (boundaries + sample): {len(bad)} changed {bad[:3]}')



# ------------------------------------------------------------------------------------------------ KeyValues2 text
IMPORTS_KV2 = ['Coq.NArith.NArith', 'Coq.Lists.List', 'Coq.Bool.Bool', 'SV.Text.Str', 'SV.Text.Tokenizer', 'SV.Text.TokGen',
               'SV.Fmt.DmxKv2', 'SV.Gen.DmxCodes_gen', 'SV.Fmt.DmxKv2Inst']
PRE_KV2 = """Import ListNotations. Open Scope N_scope.
Fixpoint leqb {A} (f : A -> A -> bool) (a b : list A) : bool :=
  match a, b with [], [] => true | x :: a', y :: b' => f x y && leqb f a' b' | _, _ => false end.
Definition kitem_eqb (a b : kitem) := match a, b with KStr x, KStr y => str_eqb x y | KNull, KNull => true | KRef x, KRef y => str_eqb x y | _, _ => false end.
Definition kattr_eqb (a b : kattr) := str_eqb (ka_name a) (ka_name b) && str_eqb (ka_type a) (ka_type b) && Bool.eqb (ka_arr a) (ka_arr b) && leqb kitem_eqb (ka_items a) (ka_items b).
Definition ostr_eqb (a b : option str) := match a, b with Some x, Some y => str_eqb x y | None, None => true | _, _ => false end.
Definition kelem_eqb (a b : kelem) := str_eqb (ke_type a) (ke_type b) && ostr_eqb (ke_id a) (ke_id b) && str_eqb (ke_name a) (ke_name b) && leqb kattr_eqb (ke_attrs a) (ke_attrs b).
Definition okdoc_eqb (a b : option kdoc) := match a, b with Some x, Some y => leqb kelem_eqb x y | None, None => true | _, _ => false end.
Definition gref_eqb (a b : gref) := match a, b with GElem i, GElem j => Nat.eqb i j | GNull, GNull => true | GStub x, GStub y => str_eqb x y | _, _ => false end.
Definition gitem_eqb (a b : gitem) := match a, b with GStr x, GStr y => str_eqb x y | GRef x, GRef y => gref_eqb x y | _, _ => false end.
Definition gattr_eqb (a b : gattr) := str_eqb (ga_name a) (ga_name b) && str_eqb (ga_type a) (ga_type b) && Bool.eqb (ga_arr a) (ga_arr b) && leqb gitem_eqb (ga_items a) (ga_items b).
Definition gelem_eqb (a b : gelem) := str_eqb (ge_type a) (ge_type b) && str_eqb (ge_id a) (ge_id b) && str_eqb (ge_name a) (ge_name b) && leqb gattr_eqb (ge_attrs a) (ge_attrs b).
Definition ogdoc_eqb (a b : option gdoc) := match a, b with Some x, Some y => leqb gelem_eqb x y | None, None => true | _, _ => false end.
(* per case: 0 ok, 1 model text differs from export_kv2(flat=True), 2 model parse of that text differs from parse_kv2,
   3 the document is outside doc_ok (generator bug), 4 the linked graph (fix-up pass) differs from the parsed object graph,
   5 model parse of the re-formatted text (other line ends / indentation, comments, trailing commas) differs from parse_kv2 *)
(* 6: graph level, flat layout: nest_doc of the exported object graph with the root rule read from the source (flat = every
   element a root) does not render to the exported text, or it is not the flat document of the graph *)
Definition flat_graph_ok (g : gdoc) (text : str) : bool :=
  match nest_doc g (is_root gen_fold gen_vtnames gen_rootcfg true g) false with
  | Some dn => str_eqb (rendern_doc gen_tables dn) text && leqb kelem_eqb (unnest dn) (flatten g)
  | None => false
  end.
Definition chk2 (c : kdoc * str * option kdoc * option gdoc * str * option kdoc * gdoc) : N := let '(d, text, back, gback, text2, back2, g) := c in
  if negb (doc_ok gen_tables gen_vtnames d) then 3
  else if str_eqb (gen_render_doc d) text
       then (if okdoc_eqb (gen_parse_text text) back
             then (if ogdoc_eqb (match gen_parse_text text with Some x => link x | None => None end) gback
                   then (if okdoc_eqb (gen_parse_text text2) back2 then (if flat_graph_ok g text then 0 else 6) else 5) else 4)
             else 2)
       else 1.
Fixpoint bad_idx {A} (f : A -> N) (n : N) (l : list A) : list N := match l with [] => [] | x :: r => (if f x =? 0 then [] else [n * 10 + f x]) ++ bad_idx f (n + 1) r end.
"""


def _cps(x: str) -> str:
    return '[' + ';'.join(str(ord(c)) for c in x) + ']'


def kdoc_of(root, conv_strings: bool = True) -> list:
    """The string-level document of a real element graph, elements in the order export_kv2 lists them (breadth first in
    attribute order, stubs and NULL are not elements): [(type, uuid text, name, [(attr name, type keyword, is_array,
    [item])])], item = ('S', text) | ('N',) | ('R', uuid text).  Value strings come from TYPE_CONVERT[t, STRING]."""
    from srctools import dmx
    order, seen = [root], {id(root)}
    out = []
    for el in order:
        attrs = []
        for key, attr in el._members.items():
            if attr.name == 'name':
                continue
            raw = attr._value if attr.is_array else [attr._value]
            items = []
            for v in raw:
                if attr.type is dmx.ValueType.ELEMENT:
                    if v.is_null:
                        items.append(('N',))
                    else:
                        items.append(('R', str(v.uuid)))
                        if not v.is_stub and id(v) not in seen:
                            seen.add(id(v))
                            order.append(v)
                else:
                    items.append(('S', dmx.TYPE_CONVERT[attr.type, dmx.ValueType.STRING](v)))
            attrs.append((attr.name, attr.type.value, bool(attr.is_array), items))
        out.append((el.type, str(el.uuid), el.name, attrs))
    return out


def gdoc_of(root) -> list:
    """The object graph of a real element tree at the string level: like kdoc_of, but an element reference is the
    index of the element (by object identity, breadth first), a stub keeps its UUID text."""
    from srctools import dmx
    order, idx = [root], {id(root): 0}
    out = []
    for el in order:
        attrs = []
        for key, attr in el._members.items():
            if attr.name == 'name':
                continue
            raw = attr._value if attr.is_array else [attr._value]
            items = []
            for v in raw:
                if attr.type is dmx.ValueType.ELEMENT:
                    if v.is_null:
                        items.append(('N',))
                    elif v.is_stub:
                        items.append(('T', str(v.uuid)))
                    else:
                        if id(v) not in idx:
                            idx[id(v)] = len(order)
                            order.append(v)
                        items.append(('E', idx[id(v)]))
                else:
                    items.append(('S', dmx.TYPE_CONVERT[attr.type, dmx.ValueType.STRING](v)))
            attrs.append((attr.name, attr.type.value, bool(attr.is_array), items))
        out.append((el.type, str(el.uuid), el.name, attrs))
    return out


def coq_gdoc(g: list) -> str:
    def item(i):
        return {'N': lambda: '(GRef GNull)', 'S': lambda: f'(GStr {_cps(i[1])})', 'E': lambda: f'(GRef (GElem {i[1]}))',
                'T': lambda: f'(GRef (GStub {_cps(i[1])}))'}[i[0]]()
    els = []
    for typ, uid, name, attrs in g:
        al = [f'{{| ga_name := {_cps(n)}; ga_type := {_cps(t)}; ga_arr := {"true" if arr else "false"}; ga_items := {coq_list(item(i) for i in its)} |}}'
              for n, t, arr, its in attrs]
        els.append(f'{{| ge_type := {_cps(typ)}; ge_id := {_cps(uid)}; ge_name := {_cps(name)}; ge_attrs := {coq_list(al)} |}}')
    return coq_list(els)


def coq_kdoc(d: list) -> str:
    def item(i):
        return 'KNull' if i[0] == 'N' else (f'(KStr {_cps(i[1])})' if i[0] == 'S' else f'(KRef {_cps(i[1])})')
    els = []
    for typ, uid, name, attrs in d:
        al = [f'{{| ka_name := {_cps(n)}; ka_type := {_cps(t)}; ka_arr := {"true" if arr else "false"}; ka_items := {coq_list(item(i) for i in its)} |}}'
              for n, t, arr, its in attrs]
        els.append(f'{{| ke_type := {_cps(typ)}; ke_id := Some {_cps(uid)}; ke_name := {_cps(name)}; ke_attrs := {coq_list(al)} |}}')
    return coq_list(els)


KEYWORD_PROBES = ['int', 'Int', 'INT', 'element', 'Element', 'elementid', 'ElementID', 'elementid_array', 'int_array', 'INT_ARRAY',
                  'Float_Array', '_array', 'int_array_array', 'string', 'vmatrix', 'qangle_array', 'DmElement', 'T', '', 'integer',
                  'vector5', 'boolean', 'time ', ' int', 'İnt', 'ınt', 'ſtring', 'ELEMENTİD', 'bınary', 'color_Array', 'color_arraY',
                  'x_array', 'element_arrays', 'quaternion', 'Vector2', 'VECTOR4_ARRAY', 'elementid ', 'ﬂoat']


def corr_keyword_predicate(ck: Ck) -> None:
    """Fmt/DmxKv2.v type_is_keyword (the tests the KV2 parser makes on a type token) vs dmx._kv2_type_is_keyword."""
    from srctools import dmx
    fn = getattr(dmx, '_kv2_type_is_keyword', None)
    if fn is None:
        ck.notes.append('dmx._kv2_type_is_keyword does not exist: predicate correspondence skipped (obligation kv2_keyword_typed_elements_written_at_root decides)')
        return
    probes = list(KEYWORD_PROBES)
    for _ in range(ck.budget(60, 600)):
        base = ck.rng.choice([v.value for v in dmx.ValueType] + ['elementid', 'foo', 'Dm'])
        s_ = ''.join(ck.rng.choice([c.upper(), c, c]) for c in base) + ck.rng.choice(['', '', '_array', '_ARRAY', '_arrays', ' '])
        probes.append(s_)
    want = [bool(fn(s_)) for s_ in probes]
    vals = ck.coq_eval(IMPORTS_KV2, ['map (type_is_keyword gen_fold gen_vtnames) ' + coq_list(_cps(s_) for s_ in probes)], name='kwpred',
                       preamble='Import ListNotations. Open Scope N_scope.')
    got = None if vals is None else [x.strip() == 'true' for x in vals[0].strip('[] ').split(';')]
    ok = got == want
    ck.count('keyword_predicate_probes', len(probes))
    ck.obligation('correspondence:kv2-keyword-predicate', ok,
                  f'{len(probes)} type names: Fmt/DmxKv2.v type_is_keyword vs dmx._kv2_type_is_keyword'
                  + ('' if ok else f': first difference {next((p_ for p_, a, b_ in zip(probes, got or [], want) if a != b_), None)!r}'))
    if not ok:
        ck.tie_broken.append('correspondence KV2 keyword predicate')


def reformat_kv2(rng, text: str) -> str:
    """The same KeyValues2 document in another layout: LF or CR LF per line, other indentation, blank lines, // comment
    lines, a comma after the last array item.  Safe line by line: escape_text leaves no raw line break inside quotes."""
    lines = text.split('\r\n')
    out = []
    for i, ln in enumerate(lines):
        body = ln.lstrip('\t')
        depth = len(ln) - len(body)
        if body:
            body = rng.choice(['\t' * depth, ' ' * depth, '', '  \t' * depth]) + body
        nxt = lines[i + 1].lstrip('\t') if i + 1 < len(lines) else ''
        if nxt == ']' and body.rstrip().endswith(('"', '}')) and rng.random() < 0.5:
            body += ','
        out.append(body)
        if rng.random() < 0.12:
            out.append(rng.choice(['', '   ', '// a comment "with" { brackets ] and \\ backslash', '\t//', '//"id" "elementid" "x"']))
    return ''.join(ln + rng.choice(['\n', '\r\n', '\n']) for ln in out)


def corr_kv2(ck: Ck) -> None:
    """Fmt/DmxKv2.v writer and parser (on the regenerated tokenizer tables) vs export_kv2(flat=True) and parse_kv2:
    the model's text equals the exported text after the header line, and the model's parse of that text equals the
    string-level document of what Element.parse returns."""
    from srctools import dmx
    n = ck.budget(20, 300)
    cases = []
    corpus = [s for _, s, ms in CORPUS if any(m['fmt'] == 'kv2' for m in ms)]
    for i in range(n):
        U.arm()        # a limit per case: an implementation that does not return ends the stage, not the check
        uni = ck.rng.choice(['ascii', 'format', 'silent'])
        spec = corpus[i] if i < len(corpus) else U.gen_spec(ck.rng, uni != 'ascii')
        elems = U.build(spec)
        if any(a.name.casefold() == 'name' and a.name != 'name' for e in elems for a in e._members.values()):
            continue
        buf = io.BytesIO()
        try:
            elems[0].export_kv2(buf, flat=True, unicode=uni)
        except Exception:
            ck.count('corr_kv2_export_error')
            continue
        data = buf.getvalue()
        head, _, body = data.partition(b'\r\n')
        text = body.decode('utf8' if uni != 'ascii' else 'ascii')
        d = kdoc_of(elems[0])
        try:
            got, _, _ = dmx.Element.parse(io.BytesIO(data), unicode=(uni == 'silent'))
            back = f'(Some {coq_kdoc(kdoc_of(got))})'
            gback = f'(Some {coq_gdoc(gdoc_of(got))})'
        except Exception:
            back = gback = 'None'
            ck.count('corr_kv2_impl_parse_error')
        text2 = reformat_kv2(ck.rng, text)
        try:
            got2, _, _ = dmx.Element.parse(io.BytesIO(head + b'\r\n' + text2.encode('utf8' if uni != 'ascii' else 'ascii')), unicode=(uni == 'silent'))
            back2 = f'(Some {coq_kdoc(kdoc_of(got2))})'
        except Exception:
            back2 = 'None'
            ck.count('corr_kv2_impl_reformat_parse_error')
        cases.append((spec, uni, f'({coq_kdoc(d)}, {_cps(text)}, {back}, {gback}, {_cps(text2)}, {back2}, {coq_gdoc(gdoc_of(elems[0]))})'))
        ck.count('corr_kv2_cases')
        ck.hist('corr_kv2_text_chars', len(text) // 500 * 500)
        if len(d) > 1 or d[0][3]:
            ck.seen(('k2', uni, repr(d)))
    U.disarm()
    bad = []
    for lo in range(0, len(cases), 45):
        vals = ck.coq_eval(IMPORTS_KV2 + ['SV.Fmt.DmxKv2Nested', 'SV.Fmt.DmxKv2Graph'], [f'bad_idx chk2 0 {coq_list(x[2] for x in cases[lo:lo + 45])}'], name='kv2', preamble=PRE_KV2)
        if vals is None:
            ck.obligation('correspondence:kv2-flat-text', False, 'model could not be evaluated')
            ck.tie_broken.append('correspondence KV2 flat text: model evaluation failed')
            return
        bad += [(lo + v // 10, v % 10) for v in parse_coq_N_list(vals[0])]
    ck.obligation('correspondence:kv2-flat-text', not bad,
                  f'{len(cases)} documents: Fmt/DmxKv2.v render_doc vs export_kv2(flat=True) text (exact), parse_text of that text vs '
                  f'the string-level document of Element.parse, link (fix-up pass) vs the parsed object graph; graph level: nest_doc of the '
                  f'object graph with the flat branch of the generated root rule renders to the same text: {len(bad)} disagreements')
    if cases:
        ck.sample({'kv2_flat_case': {'unicode': cases[-1][1], 'spec': cases[-1][0]}})
    if bad:
        i, code = bad[0]
        ck.tie_broken.append('correspondence KV2 flat text (Fmt/DmxKv2.v vs export_kv2/parse_kv2)')
        ck.extra['kv2_disagreement'] = {'spec': cases[i][0], 'unicode': cases[i][1],
                                        'kind': {1: 'model text differs from export_kv2', 2: 'model parse differs from parse_kv2',
                                                 3: 'generated document outside doc_ok',
                                                 4: 'model link (fix-up pass) differs from the parsed object graph',
                                                 5: 'model parse of the re-formatted text differs from parse_kv2',
                                                 6: 'graph level: nest_doc with every element a root (flat branch of the root rule) does not give the exported text / the flat document'}.get(code, code)}



# ------------------------------------------------------------------------------------------------ KeyValues2, nested layout
IMPORTS_KV2N = IMPORTS_KV2 + ['SV.Fmt.DmxKv2Nested', 'SV.Fmt.DmxKv2Graph', 'SV.Fmt.DmxKv2GraphIso']
PRE_KV2N = """Import ListNotations. Open Scope N_scope.
Fixpoint leqb {A} (f : A -> A -> bool) (a b : list A) : bool :=
  match a, b with [], [] => true | x :: a', y :: b' => f x y && leqb f a' b' | _, _ => false end.
Definition ostr_eqb (a b : option str) := match a, b with Some x, Some y => str_eqb x y | None, None => true | _, _ => false end.
Fixpoint nelem_eqb (a b : nelem) {struct a} : bool :=
  match a, b with NElem t i n l, NElem t' i' n' l' =>
    str_eqb t t' && ostr_eqb i i' && str_eqb n n' &&
    (fix go (x y : list nattr) : bool := match x, y with [], [] => true | p :: x', q :: y' => nattr_eqb p q && go x' y' | _, _ => false end) l l' end
with nattr_eqb (a b : nattr) {struct a} : bool :=
  match a, b with NAttr n t r l, NAttr n' t' r' l' =>
    str_eqb n n' && str_eqb t t' && Bool.eqb r r' &&
    (fix go (x y : list nitem) : bool := match x, y with [], [] => true | p :: x', q :: y' => nitem_eqb p q && go x' y' | _, _ => false end) l l' end
with nitem_eqb (a b : nitem) {struct a} : bool :=
  match a, b with NStr x, NStr y => str_eqb x y | NNull, NNull => true | NRef x, NRef y => str_eqb x y
                | NInline x, NInline y => nelem_eqb x y | _, _ => false end.
Definition ondoc_eqb (a b : option ndoc) := match a, b with Some x, Some y => leqb nelem_eqb x y | None, None => true | _, _ => false end.
Definition kitem_eqb (a b : kitem) := match a, b with KStr x, KStr y => str_eqb x y | KNull, KNull => true | KRef x, KRef y => str_eqb x y | _, _ => false end.
Definition kattr_eqb (a b : kattr) := str_eqb (ka_name a) (ka_name b) && str_eqb (ka_type a) (ka_type b) && Bool.eqb (ka_arr a) (ka_arr b) && leqb kitem_eqb (ka_items a) (ka_items b).
Definition kelem_eqb (a b : kelem) := str_eqb (ke_type a) (ke_type b) && ostr_eqb (ke_id a) (ke_id b) && str_eqb (ke_name a) (ke_name b) && leqb kattr_eqb (ke_attrs a) (ke_attrs b).
Definition in_k (k : kelem) (l : kdoc) : bool := existsb (kelem_eqb k) l.
(* the same elements, the same number of them, the same first one *)
Definition perm_k (a b : kdoc) : bool :=
  Nat.eqb (length a) (length b) && forallb (fun k => in_k k b) a && forallb (fun k => in_k k a) b &&
  match a, b with x :: _, y :: _ => kelem_eqb x y | _, _ => false end.
Definition gen_isroot (g : gdoc) : nat -> bool := is_root gen_fold gen_vtnames gen_rootcfg false g.
(* per case: 0 ok, 1 model text differs from export_kv2(flat=False), 2 model parse differs from parse_kv2, 3 outside ndoc_ok,
   5 model parse of the re-formatted text differs,
   6 graph level: nest_doc of the exported object graph with the root rule read from the source fails or does not render to the exported text,
   7 an element is written more than once (written_once of the tree of blocks),
   8 the elements the reader model registers (unnest of the parsed tree) are not those of the object graph Element.parse returned
     (same elements with references by id, same number, the returned element first; cases with every id written),
   9 the object graph Element.parse returned is not isomorphic to the exported object graph by the renumbering by id
     (graph_iso_b, proved sound in Fmt/DmxKv2GraphIso.v: element by element equal up to the renumbering of references) *)
Definition chk3 (c : ndoc * str * option ndoc * str * option ndoc * gdoc * bool * option gdoc) : N := let '(d, text, back, text2, back2, g, cull, gback) := c in
  if negb (ndoc_ok gen_tables gen_fold gen_vtnames d) then 3
  else if str_eqb (rendern_doc gen_tables d) text
       then (let p := parsen_text gen_tables gen_kv2_opts gen_fold gen_vtnames text in
             if ondoc_eqb p back
             then (if ondoc_eqb (parsen_text gen_tables gen_kv2_opts gen_fold gen_vtnames text2) back2
                   then (match nest_doc g (gen_isroot g) cull with
                         | Some dn =>
                             if negb (str_eqb (rendern_doc gen_tables dn) text) then 6
                             else if negb (match nest_doc g (gen_isroot g) false with Some d0 => written_once d0 | None => false end) then 7
                             else match cull, gback, p with
                                  | false, Some gb, Some dp => if perm_k (unnest dp) (flatten gb) then (if graph_iso_b (by_id g gb) g gb then 0 else 9) else 8
                                  | false, Some _, None => 8
                                  | _, _, _ => 0
                                  end
                         | None => 6
                         end)
                   else 5)
             else 2)
       else 1.
Fixpoint bad_idx {A} (f : A -> N) (n : N) (l : list A) : list N := match l with [] => [] | x :: r => (if f x =? 0 then [] else [n * 10 + f x]) ++ bad_idx f (n + 1) r end.
"""


def _is_keyword_type(t: str) -> bool:
    """Harness copy of the rule: would the KV2 parser read this element type as an attribute type keyword?"""
    f = t.casefold()
    if f == 'elementid':
        return True
    if f.endswith('_array'):
        f = f[:-6]
    return f in U.VALUE_TYPE_NAMES


def ntree_of(root, cull: bool) -> list:
    """The nested-layout document of a real element graph: which elements are roots is recomputed here (used more than
    once, keyword type, or the root itself — independent of export_kv2), the others are inline where they are used.
    Element = (type, uuid text or None, name, [(attr name, type keyword, is_array, [item])]),
    item = ('S', text) | ('N',) | ('R', uuid text) | ('I', element)."""
    from srctools import dmx
    elements, use = [root], {root.uuid: 1}
    for el in elements:
        for attr in el.values():
            if attr.type is not dmx.ValueType.ELEMENT:
                continue
            for sub in (attr._value if attr.is_array else [attr._value]):
                if isinstance(sub, dmx.StubElement):
                    continue
                if sub.uuid not in use:
                    use[sub.uuid] = 1
                    elements.append(sub)
                else:
                    use[sub.uuid] += 1
    roots = {u for u, c in use.items() if c > 1} | {e.uuid for e in elements if _is_keyword_type(e.type)} | {root.uuid}

    def mk(el):
        attrs = []
        for attr in el.values():
            if attr.name == 'name':
                continue
            items = []
            for v in (attr._value if attr.is_array else [attr._value]):
                if attr.type is dmx.ValueType.ELEMENT:
                    if v.is_null:
                        items.append(('N',))
                    elif v.is_stub or v.uuid in roots:
                        items.append(('R', str(v.uuid)))
                    else:
                        items.append(('I', mk(v)))
                else:
                    items.append(('S', dmx.TYPE_CONVERT[attr.type, dmx.ValueType.STRING](v)))
            attrs.append((attr.name, attr.type.value, bool(attr.is_array), items))
        return (el.type, str(el.uuid) if (not cull or el.uuid in roots) else None, el.name, attrs)
    return [mk(e) for e in elements if e.uuid in roots]


def coq_nelem(e) -> str:
    def item(i):
        if i[0] == 'N':
            return 'NNull'
        if i[0] == 'S':
            return f'(NStr {_cps(i[1])})'
        if i[0] == 'R':
            return f'(NRef {_cps(i[1])})'
        return f'(NInline {coq_nelem(i[1])})'
    typ, uid, name, attrs = e
    al = [f'(NAttr {_cps(n)} {_cps(t)} {"true" if arr else "false"} {coq_list(item(i) for i in its)})' for n, t, arr, its in attrs]
    return f'(NElem {_cps(typ)} {"None" if uid is None else "(Some " + _cps(uid) + ")"} {_cps(name)} {coq_list(al)})'


def corr_kv2_nested(ck: Ck) -> None:
    """Fmt/DmxKv2Nested.v writer and parser vs export_kv2(flat=False, cull_uuid) and parse_kv2: exact text, and the
    parsed tree of blocks (inline elements where they were written)."""
    from srctools import dmx
    n = ck.budget(24, 300)
    cases = []
    corpus = [s for _, s, ms in CORPUS if any(m['fmt'] == 'kv2' for m in ms)]
    for i in range(n):
        U.arm()        # a limit per case: an implementation that does not return ends the stage, not the check
        uni = ck.rng.choice(['ascii', 'format', 'silent'])
        cull = ck.rng.random() < 0.35
        spec = corpus[i] if i < len(corpus) else U.gen_spec(ck.rng, uni != 'ascii')
        if i >= len(corpus) and ck.rng.random() < 0.15:
            spec['elems'][-1]['type'] = ck.rng.choice(U.KV2_AMBIGUOUS_TYPES)
        elems = U.build(spec)
        if any(a.name.casefold() == 'name' and a.name != 'name' for e in elems for a in e._members.values()):
            continue
        buf = io.BytesIO()
        try:
            elems[0].export_kv2(buf, flat=False, cull_uuid=cull, unicode=uni)
        except Exception:
            ck.count('corr_kv2n_export_error')
            continue
        data = buf.getvalue()
        head = data.partition(b'\r\n')[0]
        text = data.partition(b'\r\n')[2].decode('utf8' if uni != 'ascii' else 'ascii')
        d = ntree_of(elems[0], cull)
        try:
            got, _, _ = dmx.Element.parse(io.BytesIO(data), unicode=(uni == 'silent'))
            back = f'(Some {coq_list(coq_nelem(e) for e in ntree_of(got, cull))})'
            gback = f'(Some {coq_gdoc(gdoc_of(got))})'
        except Exception:
            back = gback = 'None'
            ck.count('corr_kv2n_impl_parse_error')
        text2 = reformat_kv2(ck.rng, text)
        try:
            got2, _, _ = dmx.Element.parse(io.BytesIO(head + b'\r\n' + text2.encode('utf8' if uni != 'ascii' else 'ascii')), unicode=(uni == 'silent'))
            back2 = f'(Some {coq_list(coq_nelem(e) for e in ntree_of(got2, cull))})'
        except Exception:
            back2 = 'None'
            ck.count('corr_kv2n_impl_reformat_parse_error')
        cases.append((spec, {'unicode': uni, 'cull_uuid': cull},
                      f'({coq_list(coq_nelem(e) for e in d)}, {_cps(text)}, {back}, {_cps(text2)}, {back2}, '
                      f'{coq_gdoc(gdoc_of(elems[0]))}, {"true" if cull else "false"}, {gback})'))
        ck.hist('corr_kv2n_graph_compared', 'tree-and-parsed-graph' if (gback != 'None' and not cull) else 'tree-only')
        ck.count('corr_kv2n_cases')
        depth = text.count('\t\t\t\t')
        ck.hist('corr_kv2n_has_depth3', bool(depth))
        if len(d) > 1 or d[0][3]:
            ck.seen(('k2n', uni, cull, repr(d)))
    U.disarm()
    bad = []
    for lo in range(0, len(cases), 45):
        vals = ck.coq_eval(IMPORTS_KV2N, [f'bad_idx chk3 0 {coq_list(x[2] for x in cases[lo:lo + 45])}'], name='kv2n', preamble=PRE_KV2N)
        if vals is None:
            ck.obligation('correspondence:kv2-nested-text', False, 'model could not be evaluated')
            ck.tie_broken.append('correspondence KV2 nested text: model evaluation failed')
            return
        bad += [(lo + v // 10, v % 10) for v in parse_coq_N_list(vals[0])]
    ck.obligation('correspondence:kv2-nested-text', not bad,
                  f'{len(cases)} documents: Fmt/DmxKv2Nested.v rendern_doc vs export_kv2(flat=False, cull_uuid) text (exact, roots '
                  f'recomputed by the harness), parsen_text of that text vs the block tree of Element.parse; graph level: '
                  f'Fmt/DmxKv2Graph.v nest_doc of the object graph with the generated root rule renders to the same text, every '
                  f'element written once, unnest of the parsed tree = the parsed object graph, the parsed object graph isomorphic to the '
                  f'exported one by the renumbering by id (graph_iso_b): {len(bad)} disagreements')
    if cases:
        ck.sample({'kv2_nested_case': {'mode': cases[-1][1], 'spec': cases[-1][0]}})
    if bad:
        i, code = bad[0]
        ck.tie_broken.append('correspondence KV2 nested text (Fmt/DmxKv2Nested.v vs export_kv2/parse_kv2)')
        ck.extra['kv2_nested_disagreement'] = {'spec': cases[i][0], 'mode': cases[i][1],
                                               'kind': {1: 'model text differs from export_kv2', 2: 'model parse differs from parse_kv2',
                                                        3: 'generated document outside ndoc_ok',
                                                        5: 'model parse of the re-formatted text differs from parse_kv2',
                                                        6: 'graph level: nest_doc with the root rule read from the source does not give the exported text',
                                                        7: 'an element is written more than once',
                                                        8: 'unnest of the parsed tree is not the object graph Element.parse returned',
                                                        9: 'the object graph Element.parse returned is not isomorphic to the exported one by the renumbering by id'}.get(code, code)}



# ------------------------------------------------------------------------------------------------ value strings
IMPORTS_VT = ['Coq.NArith.NArith', 'Coq.ZArith.ZArith', 'Coq.Lists.List', 'Coq.Bool.Bool', 'Coq.Strings.String', 'SV.Num.Dec6',
              'SV.Fmt.DmxCodes', 'SV.Fmt.DmxValText', 'SV.Gen.DmxCodes_gen']
PRE_VT = """Import ListNotations. Open Scope N_scope.
Fixpoint leqb {A} (f : A -> A -> bool) (a b : list A) : bool :=
  match a, b with [], [] => true | x :: a', y :: b' => f x y && leqb f a' b' | _, _ => false end.
Definition s_eqb := leqb N.eqb.
Definition oparts_eqb (a b : option (list (list N))) := match a, b with Some x, Some y => leqb s_eqb x y | None, None => true | _, _ => false end.
Definition oz_eqb (a b : option Z) := match a, b with Some x, Some y => (x =? y)%Z | None, None => true | _, _ => false end.
Definition ocol_eqb (a b : option (Z * Z * Z * Z)) := match a, b with
  | Some (r, g, b0, a0), Some (r', g', b', a') => ((r =? r') && (g =? g') && (b0 =? b') && (a0 =? a'))%Z | None, None => true | _, _ => false end.
Inductive vcase :=
| CFloat (x : dyadic) (text : list N)                                  (* _fmt_float(x) *)
| CVec (xs : list dyadic) (text : list N)                              (* TYPE_CONVERT[vector type, STRING] *)
| CSplit (n : nat) (text : list N) (parts : option (list (list N)))    (* text.split() with the count check of parse_vector *)
| CInt (z : Z) (text : list N)                                         (* str(z) *)
| CIntParse (text : list N) (z : option Z)                             (* int(text) on plain decimals *)
| CColor (r g b a : N) (text : list N)                                 (* TYPE_CONVERT[COLOR, STRING] *)
| CColorParse (text : list N) (c : option (Z * Z * Z * Z))             (* _conv_string_to_color *)
| CHex (bs : list N) (text : list N)                                   (* TYPE_CONVERT[BINARY, STRING] *)
| CHexParse (text : list N) (bs : option (list N)).                    (* bytes.fromhex *)
Definition obytes_eqb (a b : option (list N)) := match a, b with Some x, Some y => s_eqb x y | None, None => true | _, _ => false end.
Definition chkv (c : vcase) : N := match c with
  | CFloat x t => if s_eqb (float_text gen_float_fmt x) t then 0 else 1
  | CVec xs t => if s_eqb (vec_text gen_float_fmt xs) t then 0 else 2
  | CSplit n t p => if oparts_eqb (parse_parts py_space n t) p then 0 else 3
  | CInt z t => if s_eqb (int_text z) t then 0 else 4
  | CIntParse t z => if oz_eqb (parse_int t) z then 0 else 5
  | CColor r g b a t => if s_eqb (color_text r g b a) t then 0 else 6
  | CColorParse t c => if ocol_eqb (parse_color py_space t) c then 0 else 7
  | CHex bs t => if s_eqb (hex_text bs) t then 0 else 8
  | CHexParse t bs => if obytes_eqb (parse_hex ascii_space t) bs then 0 else 9
  end.
Fixpoint bad_idx {A} (f : A -> N) (n : N) (l : list A) : list N := match l with [] => [] | x :: r => (if f x =? 0 then [] else [n * 10 + f x]) ++ bad_idx f (n + 1) r end.
"""


def _dyadic(x: float) -> str:
    import math
    n, d = abs(x).as_integer_ratio()
    e = -(d.bit_length() - 1)
    return f'{{| dneg := {"true" if math.copysign(1.0, x) < 0 else "false"}; dm := {n}; de := ({e})%Z |}}'


def _rand_double(rng) -> float:
    r = rng.random()
    if r < 0.25:
        return _f32_val(_rand_f32(rng) & 0xBFFFFFFF if rng.random() < 0.5 else _f32_bits(rng.uniform(-400, 400)))
    if r < 0.45:
        return rng.choice([0.0, -0.0, 0.5, -0.5, 5e-7, -5e-7, 4.9999999e-7, 1.5e-6, 2.5e-6, 0.9999995, 0.9999994999, 123456.7890125,
                           1e-7, -1e-7, 359.9999996, 1e15, -1e15, 0.1, 0.2 + 0.1, 1 / 3, 2 ** -30, 1e21, 123456789012345680.0])
    if r < 0.75:
        return round(rng.uniform(-1000, 1000), rng.choice([0, 1, 3, 6, 7]))
    return rng.uniform(-1e6, 1e6) * 10 ** rng.randint(-8, 2)


def corr_value_text(ck: Ck) -> None:
    """Fmt/DmxValText.v (C05's exact '%.6f' model for FLOAT and the float vectors, decimal integers, colours, split)
    vs dmx._fmt_float, TYPE_CONVERT[t, STRING], str.split / parse_vector's count check, int(), _conv_string_to_color."""
    from srctools import dmx
    from srctools.math import FrozenAngle, FrozenVec
    n = ck.budget(300, 3000)
    cases = []
    S = dmx.ValueType.STRING
    for i in range(n):
        U.arm()        # a limit per case: an implementation that does not return ends the stage, not the check
        k = i % 9
        if k == 7:
            bs = bytes(ck.rng.choice([0, 255, 10, 171, ck.rng.randrange(256)]) for _ in range(ck.rng.choice([0, 1, 2, 5])))
            cases.append(('hex', bs.hex(), f'(CHex {_nl(bs)} {_cps(dmx.TYPE_CONVERT[dmx.ValueType.BINARY, S](bs))})'))
        elif k == 8:
            text = ck.rng.choice(['', ' ', 'AB', 'ab cD', 'A B', '0', 'GG', '00\t11\n22', ' 0a0B ', '0a 0', '12  34', bytes(ck.rng.randrange(256) for _ in range(3)).hex(' ')])
            try:
                hl = f'(Some {_nl(dmx.TYPE_CONVERT[S, dmx.ValueType.BINARY](text))})'
            except ValueError:
                hl = 'None'
            cases.append(('hex-parse', text, f'(CHexParse {_cps(text)} {hl})'))
        elif k == 0:
            x = _rand_double(ck.rng)
            cases.append(('float', x, f'(CFloat {_dyadic(x)} {_cps(dmx._fmt_float(x))})'))
        elif k == 1:
            typ = ck.rng.choice(['VEC2', 'VEC3', 'VEC4', 'QUATERNION', 'ANGLE'])
            cnt = {'VEC2': 2, 'VEC3': 3, 'VEC4': 4, 'QUATERNION': 4, 'ANGLE': 3}[typ]
            xs = [abs(_rand_double(ck.rng)) % 360.0 if typ == 'ANGLE' else _rand_double(ck.rng) for _ in range(cnt)]
            v = {'VEC2': dmx.Vec2, 'VEC3': FrozenVec, 'VEC4': dmx.Vec4, 'QUATERNION': dmx.Quaternion, 'ANGLE': FrozenAngle}[typ](*xs)
            comps = [v.pitch, v.yaw, v.roll] if typ == 'ANGLE' else ([v.x, v.y, v.z] if typ == 'VEC3' else list(v))
            text = dmx.TYPE_CONVERT[dmx.ValueType[typ], S](v)
            cases.append((typ, xs, f'(CVec {coq_list(_dyadic(c) for c in comps)} {_cps(text)})'))
        elif k == 2:
            words = [ck.rng.choice(['1', '-0.5', '12.25', '0', '7e3', 'x']) for _ in range(ck.rng.randint(0, 5))]
            text = ck.rng.choice(['', ' ', '\t']) + ck.rng.choice([' ', '  ', '\n', '\t ', '\x0b', ' ', ' ']).join(words) + ck.rng.choice(['', ' ', '\r\n'])
            cnt = ck.rng.choice([len(words), len(words), 2, 3])
            parts = text.split()
            pl = f'(Some {coq_list(_cps(p_) for p_ in parts)})' if len(parts) == cnt else 'None'
            cases.append(('split', text, f'(CSplit {cnt} {_cps(text)} {pl})'))
        elif k == 3:
            z = ck.rng.choice([0, 1, -1, 10, -10, 255, 2 ** 31 - 1, -2 ** 31, ck.rng.randrange(-10 ** 12, 10 ** 12), ck.rng.randrange(-1000, 1000)])
            cases.append(('int', z, f'(CInt ({z})%Z {_cps(dmx.TYPE_CONVERT[dmx.ValueType.INTEGER, S](z))})'))
        elif k == 4:
            text = ck.rng.choice(['0', '-0', '7', '-12', '007', '123456789012', '-', '', '1x', '--1', '1-', '-00', str(ck.rng.randrange(-10 ** 9, 10 ** 9))])
            try:
                zl = f'(Some ({dmx.TYPE_CONVERT[S, dmx.ValueType.INTEGER](text)})%Z)'
            except ValueError:
                zl = 'None'
            cases.append(('int-parse', text, f'(CIntParse {_cps(text)} {zl})'))
        elif k == 5:
            c = [ck.rng.choice([0, 255, 7, 10, 100, ck.rng.randrange(256)]) for _ in range(4)]
            text = dmx.TYPE_CONVERT[dmx.ValueType.COLOR, S](dmx.Color(*c))
            cases.append(('color', c, f'(CColor {c[0]} {c[1]} {c[2]} {c[3]} {_cps(text)})'))
        else:
            words = [str(ck.rng.choice([0, 5, 255, 300, -4, ck.rng.randrange(256)])) for _ in range(ck.rng.choice([3, 4, 4, 2, 5]))]
            if ck.rng.random() < 0.1:
                words[0] = 'r'
            text = ck.rng.choice([' ', '  ', '\t']).join(words)
            try:
                # before clamping: the arguments handed to Color(...)
                parts = text.split()
                if len(parts) == 3:
                    want = (int(parts[0]), int(parts[1]), int(parts[2]), 255)
                elif len(parts) == 4:
                    want = tuple(int(p_) for p_ in parts)
                else:
                    raise ValueError
                got = dmx.TYPE_CONVERT[S, dmx.ValueType.COLOR](text)
                clamp = tuple(max(0, min(255, v_)) for v_ in want)
                if (got.r, got.g, got.b, got.a) != clamp:
                    want = None
                cl = 'None' if want is None else f'(Some (({want[0]})%Z, ({want[1]})%Z, ({want[2]})%Z, ({want[3]})%Z))'
                if want is None:
                    cl = '(Some (0%Z, 0%Z, 0%Z, (-1)%Z))'      # forces a disagreement: the implementation did not clamp int(parts)
            except ValueError:
                try:
                    dmx.TYPE_CONVERT[S, dmx.ValueType.COLOR](text)
                    cl = '(Some (0%Z, 0%Z, 0%Z, (-1)%Z))'      # the implementation accepted what int()/the count rule rejects
                except ValueError:
                    cl = 'None'
            cases.append(('color-parse', text, f'(CColorParse {_cps(text)} {cl})'))
        ck.count('corr_value_text_cases')
        ck.hist('corr_value_text_kind', cases[-1][0])
        ck.seen(('vt', cases[-1][0], repr(cases[-1][1])))
    U.disarm()
    bad = []
    for lo in range(0, len(cases), 600):
        vals = ck.coq_eval(IMPORTS_VT, [f'bad_idx chkv 0 {coq_list(x[2] for x in cases[lo:lo + 600])}'], name='valtext', preamble=PRE_VT)
        if vals is None:
            ck.obligation('correspondence:kv2-value-text', False, 'model could not be evaluated')
            ck.tie_broken.append('correspondence KV2 value text: model evaluation failed')
            return
        bad += [(lo + v // 10, v % 10) for v in parse_coq_N_list(vals[0])]
    ck.obligation('correspondence:kv2-value-text', not bad,
                  f'{len(cases)} cases: Fmt/DmxValText.v float_text / vec_text (exact %.6f model) vs _fmt_float and TYPE_CONVERT[vector, STRING], '
                  f'parse_parts vs str.split + count check, int_text / parse_int vs str / int, color_text / parse_color vs the colour converters, hex_text / parse_hex vs bytes.hex / fromhex: '
                  f'{len(bad)} disagreements')
    if bad:
        i, code = bad[0]
        ck.tie_broken.append('correspondence KV2 value text (Fmt/DmxValText.v vs the string converters of dmx.py)')
        ck.extra['value_text_disagreement'] = {'kind': cases[i][0], 'input': repr(cases[i][1]), 'code': code}


# ------------------------------------------------------------------------------------------------ KV1 bridge
KV_NAMES = ['a', 'b', 'A', 'key', 'Key', 'name', 'Name', 'NAME', 'subkeys', 'SubKeys', 'value', 'Value', 'id', '', 'x y', 'q"t', 'c']
KV_NAMES_UNI = ['ß', 'ss', 'SS', 'İ', 'é', 'É', 'ǆ', 'ǅ', 'ſubkeys', 'ﬁ', 'fi']


def gen_kv(rng, depth: int, uni: bool, top: bool = True, nested_roots: bool = False):
    """('L', name, value) | ('B', name or None, [children]).  A nameless root only at the top, unless nested_roots
    (used by the correspondence: Keyvalues.append merges a nested root into its parent, which the model mirrors)."""
    pool = KV_NAMES + (KV_NAMES_UNI if uni else [])
    if depth == 0 or rng.random() < 0.45:
        return ('L', rng.choice(pool), rng.choice(U.ASCII_STRS[:20] + (U.UNI_STRS[:4] if uni else [])))
    kind = rng.random()
    n = rng.choice([0, 1, 2, 3, 5])
    if kind < 0.3:          # leaves only, mostly distinct
        ch = [('L', rng.choice(pool), rng.choice(['1', 'v', ''])) for _ in range(n)]
    elif kind < 0.5:        # blocks only
        ch = [gen_kv(rng, depth - 1, uni, False, nested_roots) for _ in range(n)]
        ch = [c if c[0] == 'B' else ('B', c[1], []) for c in ch]
    else:
        ch = [gen_kv(rng, depth - 1, uni, False, nested_roots) for _ in range(n)]
    root = rng.random() < (0.25 if top else 0.08) and (top or nested_roots)
    return ('B', None if root else rng.choice(pool), ch)


def build_kv(t):
    from srctools.keyvalues import Keyvalues
    if t[0] == 'L':
        return Keyvalues(t[1], t[2])
    kids = [build_kv(c) for c in t[2]]
    return Keyvalues.root(*kids) if t[1] is None else Keyvalues(t[1], kids)


def read_kv(kv):
    if not kv.has_children():
        return ('L', kv._real_name, kv._value)
    return ('B', kv._real_name, [read_kv(c) for c in kv._value])


def coq_kv(t) -> str:
    s = lambda x: '[' + ';'.join(str(ord(c)) for c in x) + ']'
    if t[0] == 'L':
        return f'(KLeaf {s(t[1])} {s(t[2])})'
    return f'(KBlock {"None" if t[1] is None else "(Some " + s(t[1]) + ")"} {coq_list(coq_kv(c) for c in t[2])})'


def coq_el(e) -> str:
    from srctools import dmx
    s = lambda x: '[' + ';'.join(str(ord(c)) for c in x) + ']'
    ms = []
    for key, attr in e._members.items():
        if attr.type is dmx.ValueType.STRING and not attr.is_array:
            v = f'inl {s(attr._value)}'
        elif attr.type is dmx.ValueType.ELEMENT and attr.is_array:
            v = f'inr {coq_list(coq_el(x) for x in attr._value)}'
        else:
            raise ValueError(f'unexpected attribute {attr!r} from from_kv1')
        ms.append(f'({s(key)}, ({s(attr.name)}, {v}))')
    return f'(El {s(e.type)} {coq_list(ms)})'


PRE_KV1 = '''Import ListNotations. Open Scope N_scope.
Definition lower (s : kstr) : kstr := map (fun c => if (65 <=? c) && (c <=? 90) then c + 32 else c) s.
Fixpoint kv_eqb (a b : kv) : bool := match a, b with
  | KLeaf n v, KLeaf n' v' => kstr_eqb n n' && kstr_eqb v v'
  | KBlock on ch, KBlock on' ch' =>
      (match on, on' with Some x, Some y => kstr_eqb x y | None, None => true | _, _ => false end) &&
      (fix go (l l' : list kv) : bool := match l, l' with [], [] => true | x :: r, y :: r' => kv_eqb x y && go r r' | _, _ => false end) ch ch'
  | _, _ => false end.
Fixpoint el_eqb (a b : el) : bool := match a, b with El t ms, El t' ms' => kstr_eqb t t' &&
  (fix go (l l' : list member) : bool := match l, l' with
     | [], [] => true
     | (k, (n, v)) :: r, (k', (n', v')) :: r' => kstr_eqb k k' && kstr_eqb n n' &&
         (match v, v' with
          | inl s, inl s' => kstr_eqb s s'
          | inr es, inr es' => (fix ge (x y : list el) : bool := match x, y with [], [] => true | e :: x', e' :: y' => el_eqb e e' && ge x' y' | _, _ => false end) es es'
          | _, _ => false end) && go r r'
     | _, _ => false end) ms ms' end.
Definition okv_eqb (a b : option kv) := match a, b with Some x, Some y => kv_eqb x y | None, None => true | _, _ => false end.
Definition chk1 (c : kv * el * option kv) : N := let '(t, e, back) := c in
  if el_eqb (from_kv1_sel lower gen_kv1 gen_kv1_reserved_sel gen_kv1_dup_sel t) e then (if okv_eqb (to_kv1 lower gen_kv1 e) back then 0 else 2) else 1.
Fixpoint bad_idx {A} (f : A -> N) (n : N) (l : list A) : list N := match l with [] => [] | x :: r => (if f x =? 0 then [] else [n * 10 + f x]) ++ bad_idx f (n + 1) r end.
'''


def _ascii_lower(s: str) -> str:
    return ''.join(chr(ord(c) + 32) if 'A' <= c <= 'Z' else c for c in s)


def corr_kv1(ck: Ck) -> None:
    """Fmt/DmxKv1.v from_kv1/to_kv1 vs Element.from_kv1/to_kv1 (names restricted to those on which str.casefold is
    ASCII lower-casing, which the Coq side uses for [fold])."""
    import warnings
    from srctools import dmx
    n = ck.budget(150, 2000)
    cases = []
    with warnings.catch_warnings():
        warnings.simplefilter('ignore')
        for _ in range(n):
            U.arm()        # a limit per case: an implementation that does not return ends the stage, not the check
            t = gen_kv(ck.rng, 3, False, nested_roots=True)
            e = dmx.Element.from_kv1(build_kv(t))
            try:
                back = read_kv(e.to_kv1())
                bl = f'(Some {coq_kv(back)})'
            except Exception:
                bl = 'None'
            cases.append((t, f'({coq_kv(t)}, {coq_el(e)}, {bl})'))
            ck.count('corr_kv1_cases')
            if t[0] == 'B' and t[2]:
                ck.seen(('k1', repr(t)))
    U.disarm()
    bad = []
    for lo in range(0, len(cases), 300):
        vals = ck.coq_eval(IMPORTS, [f'bad_idx chk1 0 {coq_list(x[1] for x in cases[lo:lo + 300])}'], name='kv1', preamble=PRE_KV1)
        if vals is None:
            ck.obligation('correspondence:kv1-bridge', False, 'model could not be evaluated')
            ck.tie_broken.append('correspondence KV1 bridge: model evaluation failed')
            return
        bad += [(lo + v // 10, v % 10) for v in parse_coq_N_list(vals[0])]
    ck.obligation('correspondence:kv1-bridge', not bad,
                  f'{len(cases)} Keyvalues trees: Fmt/DmxKv1.v from_kv1/to_kv1 vs Element.from_kv1/to_kv1 (element structure incl. '
                  f'member order, keys and real names): {len(bad)} disagreements')
    ck.sample({'kv1_tree': cases[-1][0]})
    if bad:
        ck.tie_broken.append('correspondence KV1 bridge (Fmt/DmxKv1.v vs Element.from_kv1/to_kv1)')
        ck.extra['kv1_disagreement'] = {'tree': cases[bad[0][0]][0], 'kind': {1: 'from_kv1 differs', 2: 'to_kv1 differs'}[bad[0][1]]}


def kv1_roundtrip(t, via: str | None = None):
    """to_kv1(from_kv1(t)) == t structurally (real names, values, order); optionally through a file."""
    import warnings
    from srctools import dmx
    with warnings.catch_warnings(), U.time_limit():
        warnings.simplefilter('ignore')
        e = dmx.Element.from_kv1(build_kv(t))
        if via is not None:
            buf = io.BytesIO()
            if via == 'kv2':
                e.export_kv2(buf, unicode='format')
            else:
                e.export_binary(buf, version=int(via[1:]), unicode='format')
            e = dmx.Element.parse(io.BytesIO(buf.getvalue()))[0]
        back = read_kv(e.to_kv1())
    return None if back == t else f'{back!r}'


def _kv_variants(t):
    if t[0] == 'B':
        for i in range(len(t[2])):
            yield ('B', t[1], t[2][:i] + t[2][i + 1:])
            if t[2][i][0] == 'B':
                yield t[2][i]
            for v in _kv_variants(t[2][i]):
                yield ('B', t[1], t[2][:i] + [v] + t[2][i + 1:])
    elif t[2] != '':
        yield ('L', t[1], '')


def kv_classify(t) -> str:
    feats = set()

    def walk(x):
        if x[0] == 'B':
            names = [c[1].casefold() for c in x[2] if c[0] == 'L']
            if len(set(names)) != len(names):
                feats.add('duplicate-leaf-names')
            if {c[0] for c in x[2]} == {'L', 'B'}:
                feats.add('mixed-leaves-and-blocks')
            if any(c[0] == 'L' and c[1].casefold() in ('name', 'subkeys') for c in x[2]):
                feats.add('reserved-leaf-name')
            if x[1] is None:
                feats.add('root-block')
            for c in x[2]:
                walk(c)
    walk(t)
    if t[0] == 'L':
        feats.add('single-leaf')
    return '|'.join(sorted(feats)) or 'plain-tree'


def search_kv1(ck: Ck) -> None:
    n = ck.budget(1500, 20000)
    found = {}
    kv_hangs = 0
    for i in range(n):
        via = ck.rng.choice([None, None, None, 'kv2', 'v1', 'v5', 'v2'])
        t = gen_kv(ck.rng, 3, True)
        ck.count('kv1_roundtrips')
        ck.hist('kv1_via', via or 'memory')
        if t[0] == 'B' and len(t[2]) > 1:
            ck.seen(('kv1', via, repr(t)))
        try:
            p = kv1_roundtrip(t, via)
        except (Exception, U.HangTimeout) as e:
            p = f'{type(e).__name__}: {e}'
        if p is None:
            continue
        if 'HangTimeout' in p:
            key = f'kv1-bridge{"-via-file" if via else ""}:does-not-terminate'
            found.setdefault(key, (t, via, p))
            kv_hangs += 1
            if kv_hangs > 3:
                break
            continue

        def pred(x, via=via):
            try:
                return kv1_roundtrip(x, via) is not None
            except (Exception, U.HangTimeout):
                return True
        cur, progress = t, True
        while progress:
            progress = False
            for cand in _kv_variants(cur):
                if pred(cand):
                    cur, progress = cand, True
                    break
        key = f'kv1-bridge{"-via-file" if via else ""}:{kv_classify(cur)}'
        if key not in found:
            found[key] = (cur, via, p)
    for key, (t, via, p) in found.items():
        ck.violation(key, f'to_kv1(from_kv1(tree)) differs from the tree: got {p[:300]}',
                     {'kind': 'kv1', 'tree': t, 'via': via, 'how': 'checks.c14.kv1_roundtrip(tree, via)'})


# ------------------------------------------------------------------------------------------------ search
def report_failure(ck: Ck, found: dict, spec: dict, mode: dict, problem0: str = '') -> None:
    if 'HangTimeout' in problem0:      # every shrinking step would wait for the time limit again: report the input as it is
        key = f'{mode["fmt"]}:does-not-terminate'
        if key not in found:
            found[key] = (spec, mode, f'hang: {problem0}', 10 ** 9)
        return
    small = U.shrink(spec, lambda s: fails(s, mode), 1500)
    problem, stage = U.roundtrip(small, mode)
    if problem is None:
        small = spec
        problem, stage = U.roundtrip(small, mode)
    cls = U.classify(small)
    m = re.match(r"elem\[(\d+)\]\.attr\[(.+?)\](?:\[\d+\])? (value|type|length|array-ness)", problem or '')
    if stage == 'compare' and m:
        # the comparison names the attribute that differs: classify that attribute alone
        try:
            import ast as _ast
            nm = _ast.literal_eval(m.group(2))
            a = next(a for a in U.reachable_canon(small)['elems'][int(m.group(1))]['attrs'] if a[0] == nm)
            vals = [0 if isinstance(v, int) and not isinstance(v, bool) and a[1] == 'ELEMENT' else v for v in a[3]]
            cls = U.classify({'elems': [{'type': 'T', 'name': 'n', 'uuid': _U[0], 'attrs': [['a', a[1], a[2], vals]]}]})
        except Exception:
            pass
    if stage == 'header':
        cls = 'format-name-or-version-not-returned'
    if stage == 'second':
        cls = 'parsed-graph-modified-and-exported-again'
    if stage == 'compare' and ' key: stored under ' in (problem or ''):
        cls = 'attribute-not-found-under-its-name'       # same records, but the parsed dict is keyed inconsistently
    key = f'{mode_class(small, mode)}:{cls}'
    size = sum(len(e['attrs']) + 1 for e in small['elems'])
    if key not in found or size < found[key][3]:
        found[key] = (small, mode, f'{stage}: {problem}', size)


def search_graphs(ck: Ck) -> None:
    n = ck.budget(2500, 40000)
    found: dict = {}
    shrunk: dict = {}
    hangs = 0
    cases = [(s, m) for _, s, ms in CORPUS for m in ms]
    for i in range(n):
        if i < len(cases):
            spec, mode = cases[i]
        else:
            mode = rand_mode(ck.rng)
            spec = U.gen_spec(ck.rng, mode['unicode'] != 'ascii',
                              allow_time=not (mode['fmt'] == 'binary' and mode['version'] < 3), histories=0.12)
            if ck.rng.random() < 0.03:      # element types that collide with KV2 keywords
                spec['elems'][-1]['type'] = ck.rng.choice(U.KV2_AMBIGUOUS_TYPES)
            if ck.rng.random() < 0.02:      # a differently-cased spelling of the reserved name attribute
                spec['elems'][0]['attrs'].insert(0, ['Name', 'STRING', False, ['nm']])
            if ck.rng.random() < 0.08:      # the format name / version arguments
                mode = with_format_args(ck.rng, mode)
                ck.count('graph_roundtrips_with_format_args')
        ck.count('graph_roundtrips')
        ck.hist('mode', mode_tag(mode))
        for k, v in U.features(spec).items():
            ck.hist('features', k, v)
        c = U.reachable_canon(spec)
        if len(c['elems']) > 1 or c['elems'][0]['attrs']:
            ck.seen(('g', mode_tag(mode), repr(c['elems'])))
        problem, stage = U.roundtrip(spec, mode)
        if problem is not None:
            # do not shrink the same class hundreds of times
            quick_key = f'{mode["fmt"]}:{stage}:' + re.sub(r'[0-9]+', '#', problem)[:28]
            ck.count('graph_roundtrip_failures')
            if 'HangTimeout' in problem:
                hangs += 1
                if hangs > 3:              # each costs the whole time limit: three are enough
                    break
            if shrunk.get(quick_key, 0) >= 2 or sum(shrunk.values()) >= 60:
                continue
            shrunk[quick_key] = shrunk.get(quick_key, 0) + 1
            report_failure(ck, found, spec, mode, problem)
    ck.sample({'graph_case': {'mode': cases[9][1], 'spec': cases[9][0]}})
    for key, (spec, mode, what, _) in found.items():
        ck.violation(key, what, {'kind': 'graph', 'mode': mode, 'spec': spec,
                                 'how': 'harness.c14_util.roundtrip(spec, mode): build graph, export, Element.parse, compare canonical forms'})
    ck.extra['graph_violation_keys'] = sorted(found)


# ------------------------------------------------------------------------------------------------ main
OBLIGATIONS = {
    'type_codes_total': 'code_total gen_cfg',
    'type_codes_invertible': 'code_invertible gen_cfg',
    'scalar_codes_not_taken_for_arrays': 'scalar_codes_not_split gen_cfg',
    'array_codes_taken_for_arrays': 'array_codes_split gen_cfg',
    'type_codes_fit_a_byte': 'codes_fit_byte gen_cfg',
    'codec_agrees_string_table': 'site_enc_agrees gen_cfg SiteTable',
    'codec_agrees_element_type': 'site_enc_agrees gen_cfg SiteElType',
    'codec_agrees_element_name': 'site_enc_agrees gen_cfg SiteElName',
    'codec_agrees_attribute_name': 'site_enc_agrees gen_cfg SiteAttrName',
    'codec_agrees_scalar_string': 'site_enc_agrees gen_cfg SiteScalarStr',
    'codec_agrees_string_array': 'site_enc_agrees gen_cfg SiteArrayStr',
    'fixed_width_types_have_sizes': 'sizes_ok gen_cfg',
    'stub_uuid_written_after_index': 'stub_ok gen_cfg',
    'struct_formats_parse': 'formats_known gen_scalar',
    'struct_formats_are_the_wire_layout': 'formats_match_wire_layout gen_scalar',
    'sizes_are_calcsize_of_formats': 'sizes_match_formats gen_scalar gen_cfg',
    'multi_field_types_are_splatted': 'splat_ok gen_scalar',
    'vector_types_rebuilt_with_their_class': 'ctor_classes_ok gen_ctor_classes',
    'time_rounds_to_nearest_tick': 'time_rounds_to_nearest gen_scalar',
    'time_scale_written_is_scale_read': 'time_scales_agree gen_scalar',
    'matrix_pack_has_16_slots': 'mat_slots_16 gen_scalar',
    'matrix_cells_read_where_written': 'mat_cells_read_where_written gen_scalar',
    'matrix_cells_in_range': 'mat_cells_in_range gen_scalar',
    'kv2_type_escaped': 'kv2_type_escaped', 'kv2_name_escaped': 'kv2_name_escaped',
    'kv2_attribute_name_escaped': 'kv2_attrname_escaped', 'kv2_array_value_escaped': 'kv2_array_value_escaped',
    'kv2_scalar_value_escaped': 'kv2_scalar_value_escaped',
    'kv2_type_uses_file_codec': 'kv2_type_uses_file_codec', 'kv2_name_uses_file_codec': 'kv2_name_uses_file_codec',
    'kv2_attribute_name_uses_file_codec': 'kv2_attrname_uses_file_codec',
    'kv2_array_value_uses_file_codec': 'kv2_array_value_uses_file_codec',
    'kv2_scalar_value_uses_file_codec': 'kv2_scalar_value_uses_file_codec',
    'kv2_stub_keeps_uuid': 'kv2_stub_keeps_uuid',
    'kv2_scalar_reference_table_ok': 'rtable_ok gen_ref_scalar',
    'kv2_array_reference_table_ok': 'rtable_ok gen_ref_array',
    'kv2_reference_tables_agree': 'rtables_agree gen_ref_scalar gen_ref_array',
    'kv2_stubs_written_by_reference': 'stub_by_reference gen_ref_scalar && stub_by_reference gen_ref_array',
    'kv2_keyword_typed_elements_written_at_root': 'kv2_keyword_types_at_root',
    'kv2_tokenizer_tables_ok': 'kv2_tables_ok gen_tables',
    'kv2_tokenizer_options_ok': 'kv2_opts_ok gen_kv2_opts',
    'kv2_type_keywords_stable': 'kv2_type_keywords_stable',
    'kv2_element_and_string_are_types': 'kv2_element_and_string_are_types',
    'kv2_literals_need_no_escape': 'kv2_literals_need_no_escape',
    'kv2_text_premises': 'vtnames_ok gen_tables gen_fold gen_vtnames',
    'unicode_modes_binary_reader_codec_is_writer_codec': 'hdr_bin_ok gen_hdr',
    'unicode_modes_kv2_reader_codec_is_writer_codec': 'hdr_kv2_ok gen_hdr',
    'unicode_modes_marked_mode_self_describing_ascii_stays_ascii': 'hdr_modes_ok gen_hdr',
    'kv2_float_text_six_places_stripped': 'float_text_cfg_ok gen_float_fmt',
    'kv2_vector_text_components_in_order': 'vec_text_components_ok gen_vec_text_written gen_vec_text_read',
    'kv2_color_text_components': 'color_text_ok gen_color_text_written gen_color_text_read',
    'kv2_scalar_text_functions': 'scalar_text_funcs_ok gen_int_text_funcs gen_float_text_funcs',
    'kv2_binary_text_is_spaced_upper_hex': 'hex_text_ok gen_hex_sep gen_hex_group gen_hex_upper',
    'attr_count_is_number_of_records': 'count_expr_ok gen_cnt',
    'attr_record_loop_skips_the_name_key': 'write_filter_ok gen_cnt',
    'collecting_loop_skips_what_the_record_loop_skips': 'collect_filter_ok gen_cnt',
    'element_name_reads_the_name_member': 'name_getter_ok gen_cnt',
    'binary_reader_stores_attributes_under_casefolded_name': 'keyfn_folded (pk_bin gen_parse)',
    'kv2_reader_stores_typed_attributes_under_casefolded_name': 'keyfn_folded (pk_kv2_attr gen_parse)',
    'kv2_reader_stores_inline_elements_under_casefolded_name': 'keyfn_folded (pk_kv2_inline gen_parse)',
    'new_element_starts_with_the_name_member': 'init_member_ok gen_parse',
    'kv2_record_loop_skips_only_the_name_member': 'kv2_filter_ok gen_kv2_skip',
    'kv2_roots_are_exported_or_used_twice_or_keyword_typed': 'root_rule_ok gen_rootcfg',
    'binary_reader_keeps_strings_as_read': 'gen_bin_strings_stored_as_read',
    'binformat_helpers_decode_with_the_codec_given': 'gen_bf_nullstr_decodes_with_codec && gen_bf_array_passes_codec_on',
    'kv2_name_line_written_for_every_element': 'gen_kv2_name_line_always',
    'kv2_id_line_left_out_only_for_culled_inline_blocks': 'id_written_ok gen_kv2_id_written',
    'property_binary_premises_hold_today': 'bin_cfg_ok gen_cfg && scalar_cfg_ok gen_scalar && sizes_match_formats gen_scalar gen_cfg && cnt_cfg_ok gen_cnt',
    'property_kv2_premises_hold_today': 'kv2_tables_ok gen_tables && kv2_opts_ok gen_kv2_opts && vtnames_ok gen_tables gen_fold gen_vtnames && root_rule_ok gen_rootcfg',
    'kv1_element_types_distinct': 'kv1_types_distinct gen_kv1',
    'kv1_keys_written_are_keys_read': 'kv1_keys_agree gen_kv1',
    'kv1_reserved_names_cover_name_and_subkeys': 'kv1_reserved_covers gen_kv1',
    'kv1_reserved_test_reads_the_casefolded_name': 'sel_is_folded gen_kv1_reserved_sel',
    'kv1_duplicate_test_reads_the_casefolded_name': 'sel_is_folded gen_kv1_dup_sel',
}
# which concrete violation keys explain which failed obligation (substring of the key)
EXPLAIN = {
    'instance:binary_reader_keeps_strings_as_read': ['binary', ''],
    'instance:binformat_helpers_decode_with_the_codec_given': ['binary', 'nonascii'],
    'instance:scalar_codes_not_taken_for_arrays': ['binary', 'matrix-scalar'],
    'instance:stub_uuid_written_after_index': ['binary', 'stub'],
    'instance:codec_agrees_string_array': ['binary', 'string-array-nonascii'],
    'instance:codec_agrees_element_type': ['binary', 'nonascii-element-type'],
    'instance:kv2_attribute_name_escaped': ['kv2', 'attr-name-needs-escape'],
    'instance:kv2_type_uses_file_codec': ['kv2', 'nonascii-element-type'],
    'instance:kv2_stub_keeps_uuid': ['kv2', 'stub'],
    'instance:kv2_array_reference_table_ok': ['kv2', 'stub'],
    'instance:kv2_scalar_reference_table_ok': ['kv2', 'stub'],
    'instance:kv2_reference_tables_agree': ['kv2', 'stub'],
    'instance:kv2_stubs_written_by_reference': ['kv2', 'stub'],
    'correspondence:kv2-flat-text': ['kv2', ''],
    'correspondence:kv2-nested-text': ['kv2', ''],
    'correspondence:kv2-value-text': ['kv2', ''],
    'instance:unicode_modes_binary_reader_codec_is_writer_codec': ['binary', 'nonascii'],
    'instance:unicode_modes_kv2_reader_codec_is_writer_codec': ['kv2', 'nonascii'],
    'instance:unicode_modes_marked_mode_self_describing_ascii_stays_ascii': ['', 'nonascii'],
    'instance:kv2_float_text_six_places_stripped': ['kv2', 'float'],
    'instance:kv2_vector_text_components_in_order': ['kv2', ''],
    'instance:kv2_color_text_components': ['kv2', 'color'],
    'instance:kv2_keyword_typed_elements_written_at_root': ['kv2', 'element-type-is-value-type-name'],
    'instance:time_rounds_to_nearest_tick': ['binary', 'time'],
    'instance:time_scale_written_is_scale_read': ['binary', 'time'],
    'instance:matrix_cells_read_where_written': ['binary', 'matrix'],
    'instance:matrix_pack_has_16_slots': ['binary', 'matrix'],
    'instance:attr_count_is_number_of_records': ['binary', ''],       # a wrong count misaligns the stream: elements without a name member or all others
    'instance:attr_record_loop_skips_the_name_key': ['binary', ''],
    'instance:collecting_loop_skips_what_the_record_loop_skips': ['binary', ''],
    'instance:element_name_reads_the_name_member': ['', 'element-without-name-member'],
    'instance:binary_reader_stores_attributes_under_casefolded_name': ['binary', 'attribute-not-found-under-its-name'],
    'instance:kv2_reader_stores_typed_attributes_under_casefolded_name': ['kv2', 'attribute-not-found-under-its-name'],
    'instance:kv2_reader_stores_inline_elements_under_casefolded_name': ['kv2', 'attribute-not-found-under-its-name'],
    'instance:kv2_record_loop_skips_only_the_name_member': ['kv2', ''],
    'instance:kv2_roots_are_exported_or_used_twice_or_keyword_typed': ['kv2', ''],
    'instance:kv2_name_line_written_for_every_element': ['kv2', ''],
    'instance:kv2_id_line_left_out_only_for_culled_inline_blocks': ['kv2', ''],
    'instance:property_binary_premises_hold_today': ['binary', ''],
    'instance:property_kv2_premises_hold_today': ['kv2', ''],
    'instance:kv1_reserved_test_reads_the_casefolded_name': ['kv1-bridge', 'reserved-leaf-name'],
    'instance:kv1_duplicate_test_reads_the_casefolded_name': ['kv1-bridge', 'duplicate-leaf-names'],
    'instance:kv1_reserved_names_cover_name_and_subkeys': ['kv1-bridge', 'reserved-leaf-name'],
    'correspondence:kv1-bridge': ['kv1-bridge', ''],
    'correspondence:scalar-codecs': ['binary', ''],
    'correspondence:binary': ['binary', ''],
}


def runtime_agreement(ck: Ck, side: dict) -> None:
    """The translator's reading of the tables against the imported module's values, and the casefold facts the KV1
    theorem assumes."""
    from srctools import dmx
    rev = {v: k for k, v in COQ_TYPE.items()}
    tab = {dmx.ValueType[rev[c]]: i for c, i in side.get('table', [])}
    ok = tab == dict(dmx.VAL_TYPE_TO_IND) and side.get('offset') == dmx.ARRAY_OFFSET
    sz = {dmx.ValueType[rev[c]]: n for c, n in side.get('sizes', [])}
    ok2 = sz == dict(dmx.SIZES)
    ok3 = dict(dmx.IND_TO_VALTYPE) == {i: t for t, i in dmx.VAL_TYPE_TO_IND.items()}
    ck.obligation('translator-agrees-with-runtime', ok and ok2 and ok3,
                  f'VAL_TYPE_TO_IND/ARRAY_OFFSET {ok}, SIZES {ok2}, IND_TO_VALTYPE inverse {ok3}')
    if not (ok and ok2 and ok3):
        ck.tie_broken.append('translator output differs from the imported module values')
    k = side.get('kv1', {})
    f_ok = ('name'.casefold() == 'name' and k.get('k_subkeys_w', '').casefold() == k.get('k_subkeys_w')
            and k.get('k_value_w', 'value').casefold() != 'name')
    ck.obligation('casefold-fixes-reserved-names', f_ok, "fold_ok for str.casefold: 'name', 'subkeys' fixed, 'value' not folded to 'name'")


def theorems_bundled(ck: Ck, props_file: str) -> None:
    """ck.theorems(props_file) at a fraction of the cost: one `Print Assumptions` on the conjunction of all theorems of the
    file instead of one command per theorem (each command walks the environment again: 87 commands take 30-45 s of CPU).
    The assumptions of the conjunction are the union of the assumptions of its parts, so "Closed under the global
    context" for the bundle is that answer for every theorem.  Anything else (an axiom somewhere, a failure, unexpected
    output) falls back to the per-theorem path of the harness, which attributes and reports it."""
    from harness import common as C
    txt = (C.ROCQ / props_file).read_text()
    names = re.findall(r"^\s*(?:Theorem|Lemma|Corollary)\s+([A-Za-z0-9_']+)", txt, re.M)
    mod = 'SV.' + props_file[:-2].replace('/', '.')
    ok = False
    if names:
        term = names[-1]
        for n in reversed(names[:-1]):
            term = f'(conj {n} {term})'
        body = f'Require Import {mod}.\nDefinition all_theorems_of_the_file := {term}.\nPrint Assumptions all_theorems_of_the_file.\n'
        rc, out = ck.coq_scratch(body, 'assumptions')
        ok = rc == 0 and C._split_assumptions(out, 1) == [[]] and out.count('Closed under the global context') == 1
    if not ok:
        ck.theorems(props_file)
        return
    for n in names:
        ck.axioms[n] = []
        ck.obligation(f'theorem:{n}', True, 'Qed; axioms: none (closed under the global context)')


def run(ck: Ck) -> None:
    from translate import c14_dmx
    ck.rule = ('graphs: random element graphs (1-6 elements; references to random elements incl. self, NULL, shared stubs; all 14 value '
               'types scalar/array/empty; names, types and strings from pools with escapes, spaces, unicode; 12 % (25 % in the binary '
               'correspondence) with a history of mapping-API calls per element: clear / del / pop / popitem / name setter / item '
               'assignment incl. NAME in another case / setdefault, so elements without a name member or with it not first) x (binary v1-5 | KV2 '
               'flat/nested/cull_uuid) x 3 unicode modes, non-trivial = more than one element or at least one attribute, distinct by '
               'canonical graph + mode; KV1: random Keyvalues trees (depth <= 3, reserved/duplicate/case-variant names, nested roots), '
               'in memory and through binary/KV2 files, non-trivial = block with >= 2 children; correspondence cases likewise; '
               'scalar codecs: values of the 11 fixed-width types (int32 bounds and beyond, binary32 patterns incl. +-0, subnormals, '
               'infinities, tick-exact / half-tick / arbitrary times, colour bytes, matrices), distinct by type + value; KV2 text: the same '
               'graph generator exported flat / nested (15 % with a keyword-typed element, 35 % cull_uuid), distinct by string-level document; '
               'value strings: doubles as exact dyadics incl. sixth-place ties, vectors, blank-separated texts, decimal and malformed '
               'integers, colour and hex texts, distinct by kind + input')
    ck.trusted.append('hand-written models Fmt/DmxBin.v, Fmt/DmxKv1.v, Fmt/DmxScalar.v, Fmt/DmxKv2.v, Fmt/DmxKv2Nested.v, Fmt/DmxValText.v '
                      '(each tied by a byte-/text-exact or structural differential run on every run); shared models Bin/Struct.v, '
                      'Text/Tokenizer.v (C02), Num/Dec6.v (C05)')
    ck.trusted.append('harness/c14_util.py effective(): independent simulation of the ordered casefold-keyed dict under API histories (compared '
                      'with the real object before every searched round trip); hand-written models Fmt/DmxMembers.v, Fmt/DmxMembersParse.v, '
                      'Fmt/DmxKv1Sel.v (tied through correspondence:binary codes 3-5 and correspondence:kv1-bridge)')
    ck.trusted.append('harness/c14_util.py canon(): breadth-first numbering of the object graph; checks/c14.py wire_bytes (plain struct, for the '
                      'binary body correspondence), ntree_of (root selection of the nested layout recomputed for the text comparison), '
                      'float <-> binary32 pattern conversion with struct "<f" when writing Coq literals')
    ck.assumptions += [
        'Python str.encode/bytes.decode are inverse on the strings used and produce no NUL for NUL-free text (str_ok is a premise per string)',
        'uuid.UUID(str(u)) == u and str(u) is injective (the KV2 models compare UUID texts)',
        'binary64 * and / are rn64 of the exact result at the operands of the TIME codec (no overflow / subnormals there); compared with '
        'CPython on every run (correspondence:scalar-codecs), |rn64 x - x| <= 2^-53 |x| is proved',
        'FrozenAngle(x, y, z) keeps components that are binary32 values in [0, 360) (run-time obligation on sampled patterns)',
        'attribute names of one element are distinct after casefold: proved for every history of the mapping API on a fresh element and for '
        'every dict a reader builds (keyed_by_fold, keys_nodup); the member keyed "name" is taken for the element name whatever its spelling',
        'str.casefold is the per-character table of the running CPython (regenerated); it fixes "name", "subkeys" and the type keywords',
        'float(text) is the correctly rounded value of the decimal (CPython strtod); str(float) round-trips (TIME / MATRIX text): oracle only',
    ]
    from translate import c02_tables
    ok_t = ck.translate('EscTables_gen', c02_tables.translate) and ck.translate('DmxCodes_gen', c14_dmx.translate)
    side = ck.extra.get('translated', {}).get('DmxCodes_gen', {})
    built = ok_t and ck.build(['Gen/DmxCodes_gen.vo', 'Props/C14.vo'])
    import os
    import time as _time
    t0 = [_time.time()]
    stage_s: dict = {}
    stage_failed: list = []

    def stage(name: str, fn, *a) -> None:
        # a stage that calls into the implementation must not end the check when the implementation raises or hangs where
        # no handler expects it: the stage is a broken tie, the searches below still run and produce the failing input
        try:
            fn(*a)
        except (Exception, U.HangTimeout) as e:
            stage_failed.append(name)
            ck.obligation(f'stage:{name}', False, f'the stage could not be completed: {type(e).__name__}: {str(e)[:300]}')
            ck.tie_broken.append(f'stage {name} raised {type(e).__name__}')
        finally:
            U.disarm()      # the per-case limits of the correspondence loops (U.arm) end with the stage
        t1 = _time.time()
        stage_s[name] = round(t1 - t0[0], 1)
        t0[0] = t1
    # a tree whose srctools.dmx cannot even be imported loses every graph: one violation with that as its replay, and no
    # stage that calls the implementation (each call would import - compile - the module again: hours, not seconds)
    importable = True
    try:
        with U.time_limit(60):
            import importlib
            for m_ in ('srctools.dmx', 'srctools.keyvalues', 'srctools.binformat', 'srctools.tokenizer'):
                importlib.import_module(m_)
    except (BaseException) as e:
        if isinstance(e, (KeyboardInterrupt, SystemExit)):
            raise
        importable = False
        ck.violation('import:srctools-dmx-cannot-be-imported', f'importing the implementation raised {type(e).__name__}: {str(e)[:300]}',
                     {'kind': 'import', 'how': 'import srctools.dmx, srctools.keyvalues, srctools.binformat, srctools.tokenizer'})
        ck.obligation('stage:import', False, f'the implementation cannot be imported: {type(e).__name__}: {str(e)[:300]}')
        ck.explain('stage:import')
        ck.explain('translate:')       # a translator that compares with the running module cannot succeed either
        ck.tie_broken.append('the implementation cannot be imported')
    if built:
        stage('print_assumptions', theorems_bundled, ck, 'Props/C14.v')
        stage('instance_obligations', ck.instance_obligations, IMPORTS, OBLIGATIONS)
    if not importable:
        return
    if built:
        stage('runtime', lambda: (runtime_agreement(ck, side), angle_norm_identity(ck)))
        stage('corr_scalar', corr_scalar, ck)
        stage('corr_binary', corr_binary, ck)
        stage('corr_kv2', corr_kv2, ck)
        stage('corr_keyword_predicate', corr_keyword_predicate, ck)
        stage('corr_kv2_nested', corr_kv2_nested, ck)
        stage('corr_value_text', corr_value_text, ck)
        stage('corr_kv1', corr_kv1, ck)
    stage('search_graphs', search_graphs, ck)
    stage('search_kv1', search_kv1, ck)
    if os.environ.get('C14_TIMING'):
        print('stage seconds:', stage_s)
    keys = [v['key'] for v in ck.violations]
    for ob, (pfx, part) in EXPLAIN.items():
        if any(k.startswith(pfx) and part in k for k in keys):
            ck.explain(ob)
    # a stage that could not be completed (the implementation raised or did not return inside it) is explained by a
    # failing input of the format the stage exercises
    stage_fmt = {'corr_binary': ('binary', 'kv2'), 'corr_scalar': ('binary',), 'corr_kv2': ('kv2',), 'corr_kv2_nested': ('kv2',),
                 'corr_keyword_predicate': ('kv2',), 'corr_value_text': ('kv2',), 'corr_kv1': ('kv1-bridge',)}
    for st, pfxs in stage_fmt.items():
        if st in stage_failed and any(k.startswith(pfxs) for k in keys):
            ck.explain(f'stage:{st}')
    # the translator failed closed on a method: explained by a failing input of the format that method belongs to
    for o in ck.obligations:
        if o['name'] == 'translate:DmxCodes_gen' and not o['ok']:
            det = str(o.get('detail', ''))
            fmts = [pf for words, pf in ((('export_kv2', 'parse_kv2', '_kv2_'), 'kv2'), (('export_binary', 'parse_bin'), 'binary'),
                                        (('from_kv1', 'to_kv1'), 'kv1-bridge'),
                                        # the element class itself: every format goes through it
                                        (('Element.__init__', 'Element.name', 'Element.__len__'), 'binary'),
                                        (('Element.__init__', 'Element.name', 'Element.__len__'), 'kv2')) if any(w in det for w in words)]
            if fmts and any(k.startswith(tuple(fmts)) for k in keys):
                ck.explain('translate:DmxCodes_gen')


def replay(data: dict) -> int:
    r = data['replay']
    if isinstance(r, dict) and r.get('kind') == 'graph':
        p, stage = U.roundtrip(r['spec'], r['mode'])
        print('mode:', r['mode'])
        print('spec:', r['spec'])
        print('result:', stage, p)
        return 1 if p else 0
    if isinstance(r, dict) and r.get('kind') == 'kv1':
        def tup(x):
            return ('L', x[1], x[2]) if x[0] == 'L' else ('B', x[1], [tup(c) for c in x[2]])
        try:
            p = kv1_roundtrip(tup(r['tree']), r.get('via'))
        except (Exception, U.HangTimeout) as e:
            p = f'{type(e).__name__}: {e}'
        print('tree:', r['tree'], 'via:', r.get('via'))
        print('result:', p)
        return 1 if p else 0
    if isinstance(r, dict) and r.get('kind') == 'import':
        try:
            import importlib
            for m_ in ('srctools.dmx', 'srctools.keyvalues', 'srctools.binformat', 'srctools.tokenizer'):
                importlib.import_module(m_)
            print('result: the implementation imports')
            return 0
        except Exception as e:
            print('result:', type(e).__name__, e)
            return 1
    print(r)
    return 0
