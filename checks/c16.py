"""C16 — FGD definitions survive text export, the binary database, and lazy loading."""
from __future__ import annotations

import contextlib
import io
import os
import random
import sys
import threading
import time
from typing import Any, Callable, Iterable, Optional

from harness.common import Ck, coq_bool, coq_list, coq_str, parse_coq_N_list, parse_coq_nested
from translate import c16_fgd

MANIFEST = dict(
    technique='Rocq proof (long-string writer/reader for all strings; token-level writers/parsers of the entity header (bases / aliasof, '
              'helpers, class name, description), of keyvalue, spawnflag, choices, I/O lines and @resources blocks for every split of long '
              'strings, joined to the character level and composed into a whole entity definition; the type text between the parentheses '
              'as programs read off KVDef._parse / IODef._parse and PROVED equal to the hand model on all inputs; the entity keyword and the '
              'top-level dispatch of FGD.parse_file; codec tables, bit packings, whole binary records, blocks, file header and block '
              'positions; the block builder of serialise(): every entity in exactly one block; lazy database = eager database for all '
              'query orders including what stored base names are replaced by; a LIST of databases: first-hit look-up = first-wins merge '
              'for all histories; the helper argument list as a configuration read off EntityDef.parse and proved equal to the model; '
              'what EntityDef.__deepcopy__ shares with the cached definition, as a copy plan read off the source with a theorem over all '
              'shapes, copy expressions and heaps; one composed statement c16_property over the generated objects) + '
              'fail-closed ast translator that normalises before matching (constants, escape table, decisive writer branches read off '
              'all paths, I/O skeletons of the (un)serialisers, shape of get_ent/_parse_block/get_fgd, shape of the engine_def loop and '
              'of the engine_dbase merge, symbolic execution of the type-text part of the line parsers, VALUE_TYPE_LOOKUP, the dispatch '
              'chain of parse_file, shape of build_blocks and of the two loops of serialise) + vm_compute correspondence (byte-exact for '
              'binary records and blocks of the shipped file; token-exact for text lines and entity headers; type texts, kind keywords, '
              'block grouping; histories over several hand-built databases) + export/parse/export, binary and lazy-loading oracles on '
              'the bundled database, generated FGDs (custom value types included), hand-written FGD texts, hand-built databases and '
              'added databases',
    text='Theorems in Props/C16.v. Text: for every text, indent and line tail the reader (_handle_string and the "+" continuation of '
         '_read_colon_list) returns exactly what _write_longstring wrote, the writer never writes nothing, keeps every section within LIMIT '
         'and never cuts between a backslash and its symbol (extended syntax: all texts; plain syntax: texts without ", \\ and CR); at the '
         'token level every keyvalue line (tags, readonly/report, display name, default present or not, description present or not), '
         'every spawnflag item (generated [n] label removed again) and choices item, every input/output line and every @resources '
         'block (undefined / defined-empty / non-empty) that the writers emit is parsed back to the same field values, for every split '
         'of the long strings into "+" sections, and with display name and description produced by _write_longstring the parser returns '
         'exactly the two texts; the entity header (base()/aliasof() with any number of bases, any list of helpers with or without '
         'arguments, class name, description) is read back as the same bases, alias flag, helper objects, name and description, and '
         'header + body compose into the round trip of a whole entity definition; the single-colon and only-non-empty-resources writer '
         'variants are refuted. Type text: every program read off KVDef._parse / IODef._parse that passes the named obligations equals '
         'the hand model on all token texts (strip, a leading * = report, case-insensitive look-up in VALUE_TYPE_LOOKUP, unknown names kept '
         'as written); export then parse is the identity on custom type names, parse then export is idempotent on known ones; casefold '
         'before the fall-back is refuted. Kind keyword: every member of EntityTypes is written as a keyword that the dispatch chain of '
         'FGD.parse_file reads back as that member (never as a directive); comparing without casefold is refuted. Binary: VALUE_TYPE_ORDER/'
         'FILE_TYPE_ORDER indexes, "index|128" bytes, EntFlags, spawnflag powers, BinStrDict indexes, 16-bit indexes, separator-joined '
         'lists; composed into ent_unserialise(ent_serialise(e) ++ rest) = (e, rest) for whole definitions and whole blocks with the '
         'block dictionary, the file header and the block positions; build_blocks: for every configuration that keeps the first overflow '
         'block in the list until it is filled - whatever the size tests, sizes, pair order and set iteration order - every entity is in '
         'exactly one block and no empty block is written; dropping the empty overflow block early is refuted. Lazy: for every query '
         'sequence on a fresh database the answers '
         '(definition AND what every stored base name was replaced by, alias chains across blocks included) equal those of the fully '
         'loaded database; base look-ups terminate; the ent_map-look-up variant is refuted. Several databases (add_engine_database): '
         'for every list of files and every history of EntityDef.engine_def() look-ups the answers equal FGD.engine_dbase() when the '
         'merge keeps the first definition of a class, both are the content of the first file that defines it, and the overwriting '
         'merge (dict.update) is refuted on every class whose first and last definitions differ. Helper arguments: every argument '
         'list whose arguments are stripped and comma-free - BLANK arguments at any position included - is read back from what '
         '", ".join wrote, except the sole blank argument (helper() is no argument, stated exactly); every configuration (separator, '
         'strip, filter, sole-blank special case) of today\'s shape computes the model on all inputs; a filter in the comprehension is '
         'refuted. State between calls: for every shape of an attribute, every copy expression that the decision procedure `isolates` '
         'accepts and every value of that shape, no object of the copy is an object of the original, so no in-place change through '
         'what engine_def()/engine_dbase() returned reaches the cached database; sharing the IODef objects and sharing the resources '
         'list are refuted. c16_property states text, type text, helper arguments, copy isolation, '
         'kind keyword, block grouping and lazy loading at the generated objects under the conjunction of the named booleans, which is '
         'itself an instance obligation of every run. The objects the theorems quantify over are '
         'regenerated from the source on every run and kernel-checked as named instance obligations; all hand models are compared with the '
         'implementation on generated and shipped data; the whole bundled database and generated FGDs are exported, parsed and exported '
         'again, serialised to the binary format and back (also as small databases that exercise the overflow blocks), queried lazily in '
         'random orders, queried with an added database in front of the bundled one, and asked again after the caller changed the answers.',
    note='Still search only: @include, @mapsize, @MaterialExclusion, @AutoVisgroup and @snippet bodies, autovis() helpers, '
         'FGD.sorted_ents, and the character-level lexing of everything except quoted strings (bare words, punctuation, comments; the one exception is the bare-word rule for a keyvalue '
         'default written without quotes, hand model Fmt/FgdBare.v with the test of KVDef.export as a generated object, tied by the near-number search only): '
         'the line and header models work on the token stream of the real Tokenizer and are tied to the exporters/parsers by token-exact '
         'correspondence (also on mutated token lists), not by a translator-generated core (the type text, the kind keyword and the block '
         'builder configuration ARE generated). Helper objects, tags and numbers '
         'are abstract in the theorems; their premises are checked on the real tables / generated helpers (data obligations). str.casefold is '
         'modelled as ASCII lower-casing (the three laws the type-text proof needs are proved for it). Block decoding '
         'in the lazy model is a parameter (a function of the block bytes), lzma is outside the model, compute_ent_strings (which strings a '
         'block needs) and the final stable sort of the blocks by length are not modelled; copy.deepcopy itself (on bases and helpers), '
         'the generic deepcopy of the FGD object in engine_dbase and FGD.apply_bases after the merge are outside the model; the shapes '
         'of the attributes come from the annotations (a value may be immutable where the annotation allows a container; Sequence counts '
         'as a mutable container). The translator assumes that attribute loads are plain field reads and '
         'that the str methods it inlines have no effects. Accepted normalisations of the text form: I/O types decay (VALUE_TO_IO_DECAY), empty BOOL '
         'default = "0", yes/no = 1/0, kv_order is compared as effective order, newlines in choice/flag names become spaces, '
         'custom_syntax=False drops tags/resources/extension helpers/aliasof and cannot represent ", \\ or CR in texts; a custom type name '
         'must be stripped, must not start with * and must not be a spelling of a known type. Quick tier runs the '
         'bundled database under 2 of the 4 option sets (all 4 in the thorough tier and whenever a tie is broken). Stages run in forked '
         'worker processes with wall limits: a search stage that does not return or raises unexpectedly is reported as a violation whose '
         'replay re-runs the stage; a tie stage that times out is an internal error. Trusted: Coq kernel + '
         'vm_compute, translate/c16_fgd.py, hand models Fmt/LongString.v, Fmt/FgdBin.v, Fmt/FgdBinEnt.v, Fmt/FgdLine.v, Fmt/FgdBody.v, '
         'Fmt/FgdHead.v, SM/LazyDb.v, SM/LazyDbMulti.v (tied by correspondence), SM/FgdCopyShare.v (the heap model of copies: objects with an '
         'address over immutable leaves; tied by the isolation searches), the real Tokenizer as lexer of the line correspondences, CPython.',
)

IMPORTS = ['Coq.NArith.NArith', 'Coq.Lists.List', 'Coq.Strings.String', 'Coq.Bool.Bool', 'Coq.Arith.Arith', 'SV.Fmt.LongString', 'SV.Fmt.FgdBin', 'SV.Fmt.FgdBinEnt', 'SV.Fmt.FgdLine', 'SV.Fmt.FgdBody', 'SV.Fmt.FgdHead', 'SV.Fmt.FgdBare', 'SV.Fmt.FgdEntity', 'SV.SM.LazyDb', 'SV.SM.LazyDbMulti',
           'SV.Gen.FgdConsts_gen', 'SV.Props.C16']
PRE = '''Import ListNotations. Open Scope bool_scope. Open Scope N_scope. Open Scope list_scope.
Fixpoint bad_idx {A} (f : A -> bool) (n : N) (l : list A) : list N :=
  match l with [] => [] | x :: r => (if f x then [] else [n]) ++ bad_idx f (n + 1) r end.
Definition opt_eqb (a b : option (list N)) : bool :=
  match a, b with Some x, Some y => nlist_eqb x y | None, None => true | _, _ => false end.
'''

OPTS = [dict(custom_syntax=True, label_spawnflags=True), dict(custom_syntax=True, label_spawnflags=False),
        dict(custom_syntax=False, label_spawnflags=True), dict(custom_syntax=False, label_spawnflags=False)]


def opt_name(o: dict) -> str:
    return ('custom' if o['custom_syntax'] else 'plain') + ('+labels' if o['label_spawnflags'] else '')


# =============================================================================================== texts
SPECIAL = ['"', '\\', '\n', '\t', "'", '\r', '/', '?', '\\n', '\\\\', 'n', ' ', 'é', '☃', '+', ':', '[', ']']
WORDS = ['the', 'door', 'opens', 'when', 'triggered', 'by', 'a', 'player', 'Speed', '(units/s)', 'models/props/x.mdl',
         'Don\'t', '100%', 'on/off', 'A-B', 'x=1;', '<none>', '!activator']


def std_safe(s: str) -> bool:
    return not any(c in s for c in '"\\\r')


def gen_text(rng: random.Random, kind: str, safe: bool = False) -> str:
    """kind: empty | short | special | long | nospace | cut (escape exactly at a multiple of 1000)."""
    if kind == 'empty':
        return ''
    if kind == 'short':
        s = ' '.join(rng.choice(WORDS) for _ in range(rng.randint(1, 6)))
    elif kind == 'special':
        s = ''.join(rng.choice(SPECIAL) if rng.random() < 0.4 else rng.choice('abc XYZ09') for _ in range(rng.randint(1, 30)))
    elif kind == 'long':
        parts = []
        n = rng.choice([900, 1005, 1990, 2600, 3100])
        while sum(map(len, parts)) + len(parts) < n:
            parts.append(rng.choice(WORDS) if rng.random() < 0.9 else rng.choice(SPECIAL))
        s = ' '.join(parts)
        if rng.random() < 0.4:   # newlines are the preferred split points
            s = s.replace(' the ', '\nthe ')
    elif kind == 'nospace':
        n = rng.choice([999, 1000, 1001, 1002, 1999, 2001, 2500])
        s = ''.join(rng.choice(SPECIAL[:8]) if rng.random() < 0.02 else rng.choice('abcdefgh') for _ in range(n))
        s = s.replace(' ', '_')
    elif kind == 'cut':
        # a run without spaces whose ESCAPED form has an escape straddling position LIMIT*k (or near it)
        k = rng.choice([1, 1, 2])
        pre = rng.choice(['', 'intro words here ', 'x\n'])
        off = rng.choice([-2, -1, -1, 0, 1])
        esc = rng.choice(['"', '\\', '\n', '\t', '\\\\', '"""', "'", '\\n'])
        run = 1000 * k - len(pre.replace('\n', '\\n')) + off
        s = pre + 'q' * max(run, 0) + esc + 'z' * rng.choice([0, 1, 40, 1200])
    else:
        raise ValueError(kind)
    if safe:
        s = s.replace('"', "'").replace('\\', '/').replace('\r', ' ')
    return s


TEXT_KINDS = ['empty', 'short', 'short', 'special', 'special', 'long', 'nospace', 'cut', 'cut']


# =============================================================================================== implementation access
def impl_write(ext: bool, text: str, indent: str) -> str:
    import srctools.fgd as F
    b = io.StringIO()
    F._write_longstring(b, ext, text, indent=indent)
    return b.getvalue()


def impl_read(src: str) -> Optional[str]:
    """Tokenize `src` the way FGD.parse_file does and read one colon list; returns its first string, None on error."""
    import srctools.fgd as F
    from srctools.tokenizer import Tokenizer, TokenSyntaxError
    tok = Tokenizer(src, 'c16', error=F.FGDParseError, string_bracket=False, colon_operator=True, plus_operator=True)
    try:
        vals = F._read_colon_list(tok, True)
    except TokenSyntaxError:
        return None
    return vals[0] if vals else None


def longstring_case(ext: bool, text: str, indent: str = '\t', tail: str = '\n') -> tuple[bool, str, Optional[str]]:
    out = impl_write(ext, text, indent)
    back = impl_read(out + tail)
    return back == text, out, back


def classify_longstring(ext: bool, text: str, out: str, indent: str) -> str:
    if text == '':
        return 'longstring:empty-text-writes-nothing'
    secs = out.split(' +\n' + indent)
    for s in secs:
        body = s[1:-1] if len(s) >= 2 else s
        if (len(body) - len(body.rstrip('\\'))) % 2 == 1:
            return 'longstring:cut-strands-backslash'
    if any(len(s) > 1002 for s in secs):
        return 'longstring:section-over-limit'
    return 'longstring:other-' + ('extended' if ext else 'plain')


def shrink_text(pred: Callable[[str], bool], s: str, budget: int = 400) -> str:
    """Delta debugging on characters; pred(s) is True while s still fails."""
    n = 2
    calls = 0
    while len(s) >= 2 and calls < budget:
        chunk = max(1, len(s) // n)
        reduced = False
        for i in range(0, len(s), chunk):
            cand = s[:i] + s[i + chunk:]
            calls += 1
            if cand != s and pred(cand):
                s, n, reduced = cand, max(n - 1, 2), True
                break
            if calls >= budget:
                break
        if not reduced:
            if chunk == 1:
                break
            n = min(len(s), n * 2)
    return s


# =============================================================================================== correspondence
def corr_writer_reader(ck: Ck) -> None:
    rng = ck.rng
    n_long, n_short = ck.budget(8, 100), ck.budget(110, 1200)
    corpus = [(True, '\t', ''), (False, '\t', ''), (True, '\t', 'q' * 999 + '"zz'), (False, '\t\t', 'q' * 999 + '\nzz'),
              (True, '\t', 'q' * 998 + '\\' + 'z'), (True, '', 'a b ' * 300), (True, '\t', ('w' * 130 + '\n') * 9),
              (False, '\t', 'x' * 1001), (True, '\t', 'x' * 1000), (True, '\t', ' ' + 'y' * 1500)]
    cases: list[tuple[bool, str, str]] = list(corpus)
    for _ in range(n_long):
        cases.append((rng.random() < 0.6, rng.choice(['\t', '\t\t', '', ' \t']), gen_text(rng, rng.choice(['long', 'nospace', 'cut', 'cut']))))
    for _ in range(n_short):
        cases.append((rng.random() < 0.6, rng.choice(['\t', '\t\t']), gen_text(rng, rng.choice(['empty', 'short', 'special', 'special']))))
    tails = ['\n', ' : 1\n', ' : "x"\n', ' =\n', '', '\n\n+ "more"\n', ' + "k"\n']
    rows = []
    relaxed = 0
    for ext, indent, text in cases:
        out = impl_write(ext, text, indent)
        tail = rng.choice(tails)
        back = impl_read(out + tail)
        rows.append((ext, indent, text, out, tail, back))
        ck.count('corr_longstring')
        ck.hist('corr_text_len', min(len(text) // 500 * 500, 3000))
        ck.hist('corr_syntax', 'extended' if ext else 'plain')
        if len(out) > len(text) + 2 or ' +\n' in out:
            ck.seen(('lsw', ext, indent, text))
    ck.sample({'writer_case': {'extended': rows[12][0], 'text_len': len(rows[12][2]), 'sections': rows[12][3].count(' +\n') + 1}})
    bad_w: list[int] = []
    bad_r: list[int] = []
    lo = 0
    while lo < len(rows):
        # keep each Coq literal below ~250k characters of payload
        hi, size = lo, 0
        while hi < len(rows) and hi - lo < 500 and size < 120_000:
            size += 2 * len(rows[hi][2]) + 20
            hi += 1
        part = rows[lo:hi]
        lit = coq_list('((%s, %s), (%s, %s), (%s, %s))' % (
            coq_bool(ext), coq_str(indent), coq_str(text), coq_str(out), coq_str(tail),
            'None' if back is None else ('Some [1114112]%N' if back == text else f'Some {coq_str(back)}'))
            for ext, indent, text, out, tail, back in part)
        # one pass per case: 1 = writer disagrees, 2 = reader disagrees (exact agreement, except that when the
        # implementation raises the model may have stopped early: 4 = such a case, counted, not compared)
        vals = ck.coq_eval(IMPORTS, [
            'map (fun c : (bool * list N) * (list N * list N) * (list N * option (list N)) => '
            'let \'((ext, ind), (text, out), (tail, back)) := c in '
            '(if nlist_eqb (write_longstring esc_pairs esc_excluded gen_cfg ext ind text) out then 0 else 1) + '
            'match out with [] => 0 | _ => let r := read_joined esc_pairs (out ++ tail) in match back with '
            '| Some bk => if opt_eqb r (Some (if nlist_eqb bk [1114112] then text else bk)) then 0 else 2 '
            '| None => match r with None => 0 | Some _ => 4 end end end) cases',
        ], name='longstring', preamble=PRE + f'Definition cases := {lit}.\n', timeout=900)
        if vals is None:
            ck.obligation('correspondence:write_longstring', False, 'model could not be evaluated')
            ck.tie_broken.append('correspondence _write_longstring: model evaluation failed')
            return
        codes = parse_coq_N_list(vals[0])
        bad_w += [lo + i for i, c in enumerate(codes) if c & 1]
        bad_r += [lo + i for i, c in enumerate(codes) if c & 2]
        relaxed += sum(1 for c in codes if c & 4)
        lo = hi
    ck.obligation('correspondence:write_longstring', not bad_w,
                  f'{len(rows)} texts (around multiples of LIMIT, long runs without spaces, escapes at the cut): '
                  f'model write_longstring vs fgd._write_longstring, {len(bad_w)} disagreements')
    ck.obligation('correspondence:read_joined', not bad_r,
                  f'{len(rows)} writer outputs + line tails: model read_joined vs Tokenizer+_read_colon_list, '
                  f'{len(bad_r)} disagreements; {relaxed} cases where the implementation raised later on the line '
                  f'and the model had already stopped (not compared)')
    if bad_w:
        r = rows[bad_w[0]]
        ck.tie_broken.append('correspondence _write_longstring (Fmt/LongString.v vs fgd._write_longstring)')
        ck.extra['write_longstring_disagreement'] = {'extended': r[0], 'indent': r[1], 'text': r[2], 'impl_output': r[3]}
    if bad_r:
        r = rows[bad_r[0]]
        ck.tie_broken.append('correspondence read_joined (Fmt/LongString.v vs Tokenizer._handle_string/_read_colon_list)')
        ck.extra['read_joined_disagreement'] = {'source': r[3] + r[4], 'impl_value': r[5]}


def corr_bits(ck: Ck) -> None:
    """Exhaustive: value type x readonly, entity kind x alias, spawnflag power x default, resource type x has-tags.
    Each row holds the byte the implementation writes AND what the implementation reads back from it."""
    from srctools import _engine_db as E
    from srctools.const import FileType
    from srctools.fgd import EntityDef, EntityTypes, KVDef, Resource, ValueTypes
    table = ['k', 'd', '', 'n', 'f', 'x', 'T', 'spawnflags']

    def enc(s: str) -> bytes:
        if s not in table:
            table.append(s)
        return E._fmt_16bit.pack(table.index(s))

    def kv_back(raw: bytes):
        f = io.BytesIO(raw)
        return E.kv_unserialise(f, E._py_make_lookup(f, table))

    def ent_back(raw: bytes):
        f = io.BytesIO(raw)
        return E.ent_unserialise(f, 'x', E._py_make_lookup(f, table))
    rows_kv, rows_ent, rows_flag, rows_res = [], [], [], []
    for vt in ValueTypes:
        if vt in (ValueTypes.CHOICES, ValueTypes.SPAWNFLAGS):
            continue
        for ro in (False, True):
            b = io.BytesIO()
            E.kv_serialise(KVDef('k', vt, 'd', readonly=ro), b, enc)
            back = kv_back(b.getvalue())
            rows_kv.append((vt.name, ro, b.getvalue()[4], back.type.name, back.readonly))
            ck.count('corr_bits')
    for kind in EntityTypes:
        for al in (False, True):
            b = io.BytesIO()
            E.ent_serialise(EntityDef(kind, 'x', is_alias=al), b, enc)
            back = ent_back(b.getvalue())
            rows_ent.append((kind.name, al, b.getvalue()[0], back.type.name, back.is_alias))
            ck.count('corr_bits')
    for p in range(0, 31):
        for d in (False, True):
            b = io.BytesIO()
            E.kv_serialise(KVDef('spawnflags', ValueTypes.SPAWNFLAGS, 'f', val_list=[(1 << p, 'n', d, frozenset())]), b, enc)
            back = kv_back(b.getvalue())
            rows_flag.append((p, d, b.getvalue()[6], back.val_list[0][0], back.val_list[0][2]))
            ck.count('corr_bits')
    for ft in FileType:
        for tg in (False, True):
            b = io.BytesIO()
            E.ent_serialise(EntityDef(EntityTypes.POINT, 'x', resources=[Resource('f', ft, frozenset({'T'}) if tg else frozenset())]), b, enc)
            back = ent_back(b.getvalue())
            rows_res.append((ft.name, tg, b.getvalue()[6], back.resources[0].type.name, bool(back.resources[0].tags)))
            ck.count('corr_bits')
    ck.seen(('bits', len(rows_kv), len(rows_ent), len(rows_flag), len(rows_res)))
    q = lambda s: '"%s"%%string' % s   # noqa: E731
    exprs = [
        'bad_idx (fun c : string * bool * N * (string * bool) => let \'(n, ro, b, (bn, bro)) := c in match encode_type value_type_order n with '
        'Some i => (pack_flag7 (N.of_nat i) ro =? b) && match unpack_flag7 b with (j, r) => Bool.eqb r bro && '
        'match decode_type value_type_order (N.to_nat j) with Some m => String.eqb m bn | None => false end end | None => false end) 0 '
        + coq_list(f'({q(n)}, {coq_bool(ro)}, {b}, ({q(bn)}, {coq_bool(bro)}))' for n, ro, b, bn, bro in rows_kv),
        'bad_idx (fun c : string * bool * N * (string * bool) => let \'(n, al, b, (bn, bal)) := c in '
        'let ty := flag_value (String.append "TYPE_"%string n) in '
        '(pack_entflags ty (flag_value "IS_ALIAS"%string) al =? b) && '
        'match unpack_entflags (flag_value "MASK_TYPE"%string) (flag_value "IS_ALIAS"%string) b with (t, a) => '
        '(t =? flag_value (String.append "TYPE_"%string bn)) && Bool.eqb a bal end) 0 '
        + coq_list(f'({q(n)}, {coq_bool(al)}, {b}, ({q(bn)}, {coq_bool(bal)}))' for n, al, b, bn, bal in rows_ent),
        'bad_idx (fun c : N * bool * N * (N * bool) => let \'(p, d, b, (bm, bd)) := c in (pack_spawnflag (2 ^ p) d =? b) && '
        'match unpack_spawnflag b with (m, dd) => (m =? bm) && Bool.eqb dd bd end) 0 '
        + coq_list(f'({p}, {coq_bool(d)}, {b}, ({bm}, {coq_bool(bd)}))' for p, d, b, bm, bd in rows_flag),
        'bad_idx (fun c : string * bool * N * (string * bool) => let \'(n, tg, b, (bn, btg)) := c in match encode_type file_type_order n with '
        'Some i => (pack_flag7 (N.of_nat i) tg =? b) && match unpack_flag7 b with (j, r) => Bool.eqb r btg && '
        'match decode_type file_type_order (N.to_nat j) with Some m => String.eqb m bn | None => false end end | None => false end) 0 '
        + coq_list(f'({q(n)}, {coq_bool(tg)}, {b}, ({q(bn)}, {coq_bool(btg)}))' for n, tg, b, bn, btg in rows_res),
    ]
    vals = ck.coq_eval(IMPORTS, exprs, name='bits', preamble=PRE)
    if vals is None:
        ck.obligation('correspondence:bit_packings', False, 'model could not be evaluated')
        ck.tie_broken.append('correspondence bit packings: model evaluation failed')
        return
    bad = [parse_coq_N_list(v) for v in vals]
    nbad = sum(map(len, bad))
    ck.obligation('correspondence:bit_packings', nbad == 0,
                  f'exhaustive: {len(rows_kv)} value-type bytes, {len(rows_ent)} entity-flag bytes, {len(rows_flag)} spawnflag bytes, '
                  f'{len(rows_res)} resource-type bytes written by kv_serialise/ent_serialise and read back by kv_unserialise/'
                  f'ent_unserialise vs pack/unpack of Fmt/FgdBin.v: {nbad} disagreements')
    if nbad:
        ck.tie_broken.append('correspondence bit packings (Fmt/FgdBin.v vs _engine_db kv/ent (un)serialise)')
        ck.extra['bit_packing_disagreement'] = {'kv': [rows_kv[i] for i in bad[0][:3]], 'ent': [rows_ent[i] for i in bad[1][:3]],
                                                'flag': [rows_flag[i] for i in bad[2][:3]], 'res': [rows_res[i] for i in bad[3][:3]]}


def corr_strdict(ck: Ck) -> None:
    """BinStrDict.__call__ / unserialise+lookup on random dictionaries (strings = small integers as text)."""
    from srctools import _engine_db as E
    rng = ck.rng
    rows = []
    for _ in range(ck.budget(60, 400)):
        nb = rng.choice([0, 1, 3, 8, E.SHARED_STRINGS, E.SHARED_STRINGS])
        base_set = rng.sample(range(1000, 1000 + 2 * max(nb, 4)), nb)
        own_set = rng.sample(range(5000, 5040), rng.randint(0, 12))
        if rng.random() < 0.2 and base_set and own_set:
            own_set[0] = base_set[0]      # a string present in both: the shared index wins
        base = E.BinStrDict([str(x) for x in base_set], None)
        own = E.BinStrDict([str(x) for x in own_set], base)
        bf, of = io.BytesIO(), io.BytesIO()
        base.serialise(bf)
        own.serialise(of)
        bf.seek(0)
        base_list, _ = E.BinStrDict.unserialise(bf, [])
        of.seek(0)
        inv_list, _ = E.BinStrDict.unserialise(of, base_list)
        probes = (base_set[:3] + own_set[:4])
        for s in probes:
            enc = own(str(s))
            idx = enc[0] + 256 * enc[1]
            look = E._py_make_lookup(io.BytesIO(enc), base_list + inv_list)
            try:
                dec = int(look() or -1)
            except IndexError:
                dec = -1
            num = lambda lst: [x or '0' for x in lst]   # noqa: E731  ('' of an empty dictionary -> 0)
            rows.append((sorted(map(str, base_set)), sorted(map(str, set(own_set))), num(base_list), num(inv_list), s, idx, dec))
            ck.count('corr_strdict')
            if dec == s and nb:
                ck.seen(('sd', tuple(base_set[:4]), tuple(own_set[:4]), s))
    # the 512-entry shared dictionaries are large: define each distinct list once
    defs: dict[str, str] = {}

    def ref(lst: list[str]) -> str:
        k = '[' + ';'.join(lst) + ']'
        if len(lst) < 20:
            return k
        if k not in defs:
            defs[k] = f'big{len(defs)}'
        return defs[k]
    lit = coq_list('((%s, %s), (%s, %s), (%d, %d, %s))' % (ref(b), ref(o), ref(db_), ref(do), s, idx, 'None' if dec < 0 else f'Some {dec}')
                   for b, o, db_, do, s, idx, dec in rows)
    pre = PRE + ''.join(f'Definition {n} : list N := {k}.\n' for k, n in defs.items()) + f'Definition cases := {lit}.\n'
    vals = ck.coq_eval(IMPORTS, [
        'bad_idx (fun c : (list N * list N) * (list N * list N) * (N * N * option N) => let \'((b, o), (db, do), (s, idx, dec)) := c in '
        'match sd_encode N N.eqb b o (N.to_nat shared_strings) s with '
        '| Some i => (N.of_nat i =? idx) && match sd_decode N db do i, dec with Some x, Some y => x =? y | None, None => true | _, _ => false end '
        '| None => false end) 0 cases'], name='strdict', preamble=pre, timeout=900)
    if vals is None:
        ck.obligation('correspondence:BinStrDict', False, 'model could not be evaluated')
        ck.tie_broken.append('correspondence BinStrDict: model evaluation failed')
        return
    bad = parse_coq_N_list(vals[0])
    ck.obligation('correspondence:BinStrDict', not bad,
                  f'{len(rows)} string look-ups through real BinStrDict serialise/unserialise (shared dictionaries of 0..SHARED_STRINGS '
                  f'entries, including too-small ones where the index is wrong in both) vs sd_encode/sd_decode: {len(bad)} disagreements')
    if bad:
        ck.tie_broken.append('correspondence BinStrDict (Fmt/FgdBin.v vs _engine_db.BinStrDict)')
        b, o, _, _, s, idx, dec = rows[bad[0]]
        ck.extra['strdict_disagreement'] = {'base_n': len(b), 'own': o, 'string': s, 'impl_index': idx, 'impl_decoded': dec}


# ----------------------------------------------------------------------------------------------- text lines
LINE_PRE = """
Definition upperN (s : list N) : list N := map (fun c => if (97 <=? c) && (c <=? 122) then c - 32 else c) s.
Fixpoint lstrip_tagc (s : list N) : list N := match s with c :: r => if (c =? 33) || (c =? 45) || (c =? 43) then lstrip_tagc r else s | [] => [] end.
Fixpoint nodup_s (l : list (list N)) : bool := match l with [] => true | x :: r => negb (existsb (str_eqb x) r) && nodup_s r end.
Definition tag_norm (s : list N) : list N := upperN s.
Definition tags_valid (l : list (list N)) : bool := nodup_s (map (fun t => upperN (lstrip_tagc t)) l).
Fixpoint sassoc {V} (k : list N) (l : list (list N * V)) : option V :=
  match l with [] => None | (x, v) :: r => if str_eqb x k then Some v else sassoc k r end.
Definition flat {V} (o : option (option V)) : option V := match o with Some x => x | None => None end.
Fixpoint str_leb (a b : list N) : bool :=
  match a, b with [], _ => true | _, [] => false | x :: a', y :: b' => if x <? y then true else if y <? x then false else str_leb a' b' end.
Fixpoint ins_s (x : list N) (l : list (list N)) := match l with [] => [x] | y :: r => if str_leb x y then x :: l else y :: ins_s x r end.
Definition sort_s (l : list (list N)) := fold_right ins_s [] l.
Definition tags_eqb (a b : list (list N)) : bool := list_eqb str_eqb (sort_s a) (sort_s b).
Definition secs_eqb (a b : list (list N)) : bool := list_eqb str_eqb a b.
Definition pow2 (n : N) : bool := negb (n =? 0) && (N.land n (n - 1) =? 0).
Definition fitem_eqb (a b : N * list (list N) * bool * list (list N)) : bool :=
  let '(v, n, d, t) := a in let '(v', n', d', t') := b in (v =? v') && secs_eqb n n' && Bool.eqb d d' && tags_eqb t t'.
Definition citem_eqb (a b : list N * list (list N) * list (list N)) : bool :=
  let '(v, n, t) := a in let '(v', n', t') := b in str_eqb v v' && secs_eqb n n' && tags_eqb t t'.
Definition vlist_eqb (a b : vlist) : bool :=
  match a, b with NoList, NoList => true | Flags x, Flags y => list_eqb fitem_eqb x y | Choices x, Choices y => list_eqb citem_eqb x y | _, _ => false end.
Definition kvl_eqb (a b : kvline N) : bool :=
  str_eqb (l_name N a) (l_name N b) && tags_eqb (l_tags N a) (l_tags N b) && (l_type N a =? l_type N b) && Bool.eqb (l_ro N a) (l_ro N b)
  && Bool.eqb (l_report N a) (l_report N b) && secs_eqb (l_disp N a) (l_disp N b) && str_eqb (l_default N a) (l_default N b)
  && secs_eqb (l_desc N a) (l_desc N b) && vlist_eqb (l_list N a) (l_list N b).
Definition iol_eqb (a b : ioline N) : bool :=
  str_eqb (o_name N a) (o_name N b) && tags_eqb (o_tags N a) (o_tags N b) && (o_type N a =? o_type N b) && secs_eqb (o_desc N a) (o_desc N b).
Definition ritem_eqb (a b : N * list N * list (list N)) : bool :=
  let '(t, f, g) := a in let '(t', f', g') := b in (t =? t') && str_eqb f f' && tags_eqb g g'.
Fixpoint tok_eqb (a b : tok) : bool :=
  match a, b with TStr x, TStr y | TParen x, TParen y => str_eqb x y | TColon, TColon | TEq, TEq | TPlus, TPlus | TNl, TNl
  | TBrOpen, TBrOpen | TBrClose, TBrClose | TComma, TComma | TOther, TOther => true | _, _ => false end.
Definition vt_text (v : N) : list N := nth (N.to_nat v) vt_texts [].
(* the type between the parentheses: the programs, the table and the decay read from the source (Fmt/FgdTypeText.v), members as
   their index in the implementation's list(ValueTypes); an unknown type raises (the line parsers are run without the option) *)
Fixpoint vt_index_from (i : N) (c : list N) (l : list (list N)) : option N :=
  match l with [] => None | x :: r => if str_eqb x c then Some i else vt_index_from (i + 1) c r end.
Definition vt_index (c : list N) : option N := vt_index_from 0 c vt_texts.
Definition vt_lookup (s : list N) : option (bool * N) :=
  match FgdTypeText.trun lower vt_lookup_tab kv_type_prog s with
  | (b, FgdTypeText.Known c) => match vt_index c with Some i => Some (b, i) | None => None end
  | _ => None
  end.
Definition io_text (v : N) : list N := FgdTypeText.io_text_of io_decay_tab io_special_text (vt_text v).
Definition io_lookup (s : list N) : option N :=
  match FgdTypeText.trun lower vt_lookup_tab io_type_prog s with (_, FgdTypeText.Known c) => vt_index c | _ => None end.
Definition rt_text (v : N) : list N := nth (N.to_nat v) rt_texts [].
Definition rt_lookup (s : list N) : option N := flat (sassoc s rt_tab).
Definition decf (n : N) : list N := match find (fun p => fst p =? n) dec_tab with Some p => snd p | None => [] end.
Definition undec (s : list N) : option N := flat (sassoc s undec_tab).
Definition is_bool (v : N) := v =? vt_bool.  Definition is_flags (v : N) := v =? vt_flags.  Definition is_choices (v : N) := v =? vt_choices.
Definition KT (label custom : bool) (k : kvline N) := kv_toks N vt_text is_bool is_flags decf gen_line_cfg label custom k.
Definition KP (name : list N) (ts : list tok) := kv_parse tag_norm tags_valid N vt_lookup is_bool is_flags is_choices decf undec pow2 name ts.
Definition IT (custom : bool) (o : ioline N) := io_toks N io_text custom o.
Definition IP (ts : list tok) := io_parse tag_norm tags_valid N io_lookup ts.
Definition RT (res : option (list (N * list N * list (list N)))) := res_toks gen_line_cfg N rt_text true res.
Definition RR (ts : list tok) := res_read tag_norm tags_valid N rt_lookup ts.
Definition BT (label custom : bool) (items : list (nat * item N)) (res : option (list (N * list N * list (list N)))) :=
  body_toks N vt_text is_bool is_flags io_text decf gen_line_cfg N rt_text label custom items res.
Definition BR (ts : list tok) := body_read tag_norm tags_valid N vt_lookup is_bool is_flags is_choices io_lookup decf undec pow2 N rt_lookup ts.
Definition res_eqb (a b : option (list (N * list N * list (list N)))) : bool :=
  match a, b with None, None => true | Some x, Some y => list_eqb ritem_eqb x y | _, _ => false end.
Definition body_eqb (a b : body N N) : bool :=
  list_eqb kvl_eqb (b_kvs N N a) (b_kvs N N b) && list_eqb iol_eqb (b_ins N N a) (b_ins N N b)
  && list_eqb iol_eqb (b_outs N N a) (b_outs N N b) && res_eqb (b_res N N a) (b_res N N b).
(* writer cases: 0 = agree *)
Definition wcase {X} (f : X -> list tok) (c : X * list tok) : N := if list_eqb tok_eqb (f (fst c)) (snd c) then 0 else 1.
(* parser cases: expected None = the implementation raises; Some (value, number of tokens left) *)
Definition pcase {X} (eqb : X -> X -> bool) (got : option (X * list tok)) (want : option (X * N)) : N :=
  match got, want with
  | None, None => 0
  | Some (x, r), Some (y, n) => if eqb x y && (N.of_nat (List.length r) =? n) then 0 else 1
  | Some _, None => 2
  | None, Some _ => 3
  end.
"""


_SDEFS: dict[str, str] = {}      # long strings of the line correspondence, defined once in the Coq preamble
_SDEF_LINES: list[str] = []


def coq_s(x: str) -> str:
    """A string as `list N`; strings of 24+ characters are defined once (`sK`) and referred to by name."""
    if len(x) < 24:
        return '[' + ';'.join(str(ord(c)) for c in x) + ']'
    if x not in _SDEFS:
        _SDEFS[x] = f's{len(_SDEFS)}'
        _SDEF_LINES.append('Definition %s : list N := [%s].' % (_SDEFS[x], ';'.join(str(ord(c)) for c in x)))
    return _SDEFS[x]


def coq_s_joined(whole: str, secs: list[str]) -> None:
    """Register a long text as the concatenation of its (already registered) sections."""
    if len(secs) > 1 and whole not in _SDEFS and ''.join(secs) == whole:
        _SDEFS[whole] = f's{len(_SDEFS)}'
        _SDEF_LINES.append('Definition %s : list N := %s.' % (_SDEFS[whole], ' ++ '.join(coq_s(x) for x in secs)))


def coq_tok(tok: Any, val: str) -> str:
    from srctools.tokenizer import Token as T
    simple = {T.COLON: 'TColon', T.EQUALS: 'TEq', T.PLUS: 'TPlus', T.NEWLINE: 'TNl', T.BRACK_OPEN: 'TBrOpen', T.BRACK_CLOSE: 'TBrClose',
              T.COMMA: 'TComma'}
    if tok is T.STRING:
        return 'TStr ' + coq_s(val)
    if tok is T.PAREN_ARGS:
        return 'TParen ' + coq_s(val)
    return simple.get(tok, 'TOther')


def fgd_tokens(text: str) -> list[tuple[Any, str]]:
    import srctools.fgd as F
    from srctools.tokenizer import Token as T, Tokenizer
    tok = Tokenizer(text, 'c16', error=F.FGDParseError, string_bracket=False, colon_operator=True, plus_operator=True)
    out = []
    while True:
        t, v = tok()
        if t is T.EOF:
            return out
        out.append((t, v))


def text_sections(text: str, custom: bool, indent: str = '\t') -> list[str]:
    """The sections _write_longstring splits `text` into, as the tokenizer reads them back."""
    from srctools.tokenizer import Token as T
    secs = [v for t, v in fgd_tokens(impl_write(custom, text, indent) + '\n') if t is T.STRING]
    for x in secs:
        coq_s(x)
    coq_s_joined(text, secs)
    return secs


class LineTables:
    """The abstract parameters of Fmt/FgdLine.v tabulated from the implementation's own tables / functions."""

    def __init__(self) -> None:
        from srctools.fgd import RESTYPE_TO_NAME, VALUE_TO_IO_DECAY, ValueTypes
        self.vts = list(ValueTypes)
        self.vt_index = {v: i for i, v in enumerate(self.vts)}
        self.rts = list(RESTYPE_TO_NAME)
        self.rt_index = {v: i for i, v in enumerate(self.rts)}
        self.raw: set[str] = set()        # every short STRING / PAREN value of every token stream
        self.ints: set[int] = set()
        self.io_text = ['bool' if v is ValueTypes.BOOL else VALUE_TO_IO_DECAY[v].value for v in self.vts]

    def note(self, toks: list[tuple[Any, str]]) -> None:
        for _, v in toks:
            if v is not None and len(v) <= 40:
                self.raw.add(v)

    def rt_lookup(self, raw: str) -> Optional[int]:
        from srctools.fgd import RESTYPE_BY_NAME
        v = RESTYPE_BY_NAME.get(raw.casefold())
        return None if v is None or v not in self.rt_index else self.rt_index[v]

    @staticmethod
    def undec(raw: str) -> Optional[int]:
        try:
            n = int(raw)
        except ValueError:
            return None
        return n if 0 <= n < 2 ** 40 else None

    def preamble(self) -> str:
        from srctools.fgd import RESTYPE_TO_NAME, ValueTypes
        opt = lambda x, f: 'None' if x is None else 'Some ' + f(x)   # noqa: E731
        raws = sorted(self.raw)
        lines = [
            'Definition vt_texts : list (list N) := %s.' % coq_list(coq_s(v.value) for v in self.vts),
            'Definition rt_texts : list (list N) := %s.' % coq_list(coq_s(RESTYPE_TO_NAME[v]) for v in self.rts),
            'Definition rt_tab : list (list N * option N) := %s.' % coq_list('(%s, %s)' % (coq_s(r), opt(self.rt_lookup(r), str)) for r in raws),
            'Definition undec_tab : list (list N * option N) := %s.' % coq_list('(%s, %s)' % (coq_s(r), opt(self.undec(r), str)) for r in raws),
            'Definition dec_tab : list (N * list N) := %s.' % coq_list('(%d, %s)' % (n, coq_s(str(n))) for n in sorted(self.ints)),
            'Definition vt_bool : N := %d. Definition vt_flags : N := %d. Definition vt_choices : N := %d.' % (
                self.vt_index[ValueTypes.BOOL], self.vt_index[ValueTypes.SPAWNFLAGS], self.vt_index[ValueTypes.CHOICES]),
        ]
        return '\n'.join(_SDEF_LINES) + '\n' + '\n'.join(lines) + '\n' + LINE_PRE


def coq_secs(secs: Iterable[str]) -> str:
    return coq_list(coq_s(x) for x in secs)


def kv_line_literal(lt: LineTables, kv: Any, tags: Iterable[str], secs: Callable[[str], list[str]], choice_secs: Callable[[str], list[str]],
                    label_secs: Optional[Callable[[int, str], list[str]]] = None) -> str:
    """A KVDef as a Coq `kvline N`.  `secs` gives the sections of a long string (writer side) or [text] (parser side)."""
    from srctools.fgd import ValueTypes
    if kv.type is ValueTypes.SPAWNFLAGS:
        items = []
        for v, name, d, tg in (kv.val_list or []):
            lt.ints.add(v)
            items.append('(%d, %s, %s, %s)' % (v, coq_secs(secs(name.replace('\n', ' ')) if label_secs is None else label_secs(v, name.replace('\n', ' '))),
                                               coq_bool(bool(d)), coq_secs(sorted(tg))))
        vl = 'Flags ' + coq_list(items)
    elif kv.type is ValueTypes.CHOICES:
        vl = 'Choices ' + coq_list('(%s, %s, %s)' % (coq_s(v), coq_secs(choice_secs(name.replace('\n', ' '))), coq_secs(sorted(tg)))
                                   for v, name, tg in (kv.val_list or []))
    else:
        vl = 'NoList'
    return 'mk_kvl N %s %s %d %s %s %s %s %s (%s)' % (coq_s(kv.name), coq_secs(sorted(tags)), lt.vt_index[kv.type], coq_bool(kv.readonly),
                                                     coq_bool(kv.reportable), coq_secs(secs(kv.disp_name)), coq_s(kv.default),
                                                     coq_secs(secs(kv.desc)), vl)


def gen_line_text(rng: random.Random, kind: str, safe: bool) -> str:
    """Texts for the line correspondence: `long` = just over one or two LIMITs (2-3 sections), and rare (the Coq
    literals are what costs time)."""
    if kind != 'long':
        return gen_text(rng, kind, safe=safe)
    if rng.random() < 0.7:
        return gen_text(rng, 'short', safe=safe)
    n = rng.choice([1003, 1040, 2030])
    words = []
    while sum(map(len, words)) + len(words) < n:
        words.append(rng.choice(WORDS) if rng.random() < 0.93 else rng.choice(SPECIAL))
    s = ' '.join(words) if rng.random() < 0.7 else ''.join(w for w in words if w != ' ')
    return s.replace('"', "'").replace('\\', '/').replace('\r', ' ') if safe else s


def gen_line_kv(rng: random.Random, plain: bool) -> tuple[Any, frozenset]:
    from srctools.fgd import KVDef, ValueTypes
    txt = lambda *kinds_: gen_line_text(rng, rng.choice(kinds_), plain)   # noqa: E731
    typ = rng.choice(list(ValueTypes)) if rng.random() < 0.6 else rng.choice([ValueTypes.SPAWNFLAGS, ValueTypes.CHOICES, ValueTypes.BOOL, ValueTypes.STRING])
    name = rng.choice(KV_NAMES)
    tg = lambda: frozenset() if plain else rng.choice(TAGSETS)   # noqa: E731
    if typ is ValueTypes.SPAWNFLAGS:
        vl: Any = [(1 << p, txt('short', 'short', 'special', 'empty', 'long').replace('\n', ' ').strip(), rng.random() < 0.5, tg())
                   for p in sorted(rng.sample(range(0, 24), rng.randint(0, 4)))]
        kv = KVDef(name, typ, name, '', '', vl or None)
    elif typ is ValueTypes.CHOICES:
        vals = rng.sample(['0', '1', '2', '-1', '1.5', 'abc', 'on', 'models/x.mdl', '16'], rng.randint(0, 4))
        vl = [(v, gen_line_text(rng, rng.choice(['short', 'short', 'empty', 'long']), True).replace('\n', ' '), tg()) for v in vals]
        kv = KVDef(name, typ, txt('short', 'empty', 'special'), rng.choice(DEFAULTS), txt('empty', 'short', 'long'), vl or None)
    else:
        kv = KVDef(name, typ, txt('short', 'short', 'empty', 'special', 'long'), rng.choice(DEFAULTS + NEAR_DEFAULTS + (['yes', 'No'] if typ is ValueTypes.BOOL else [])),
                   txt('empty', 'empty', 'short', 'special', 'long', 'long'))
    kv.readonly, kv.reportable = rng.random() < 0.25, rng.random() < 0.25
    return kv, (frozenset() if plain else rng.choice(TAGSETS))


def mutate_tokens(rng: random.Random, toks: list[tuple[Any, str]]) -> list[tuple[Any, str]]:
    from srctools.tokenizer import Token as T
    toks = list(toks)
    for _ in range(rng.choice([1, 1, 2])):
        i = rng.randrange(len(toks) + 1)
        r = rng.random()
        if r < 0.3 and toks:
            del toks[min(i, len(toks) - 1)]
        elif r < 0.45 and len(toks) > 1:
            j = min(i, len(toks) - 2)
            toks[j], toks[j + 1] = toks[j + 1], toks[j]
        elif r < 0.55 and toks:
            toks.insert(i, toks[min(i, len(toks) - 1)])
        else:
            toks.insert(i, rng.choice([(T.COLON, ':'), (T.NEWLINE, '\n'), (T.PLUS, '+'), (T.EQUALS, '='), (T.STRING, 'x'), (T.STRING, 'readonly'),
                                       (T.STRING, 'Report'), (T.STRING, '1'), (T.STRING, '3'), (T.BRACK_OPEN, '['), (T.BRACK_CLOSE, ']'), (T.COMMA, ','),
                                       (T.PAREN_ARGS, ' *Integer '), (T.PAREN_ARGS, 'bool'), (T.STRING, '[4] lab'), (T.STRING, 'TF2')]))
    return toks


def impl_parse_tokens(which: str, toks: list[tuple[Any, str]]) -> Any:
    """Run the real KVDef._parse / IODef._parse on a token list; returns (object, tags, tokens left) or None when it raises."""
    import warnings
    import srctools.fgd as F
    from srctools.tokenizer import IterTokenizer, Token as T
    tok = IterTokenizer(iter(toks), 'c16', F.FGDParseError)
    fgd = F.FGD()
    try:
        with warnings.catch_warnings():
            warnings.simplefilter('ignore')
            if which == 'kv':
                t0, name = tok()
                if t0 is not T.STRING:
                    return 'skip'
                tags, obj = F.KVDef._parse(fgd, name, tok, 'c16')
            else:
                tags, obj = F.IODef._parse(fgd, tok)
    except Exception:   # noqa: BLE001
        return None
    left = 0
    while tok()[0] is not T.EOF:
        left += 1
    return obj, tags, left


def line_data_obligations(ck: Ck) -> None:
    """Premises of the line theorems of Props/C16.v that are facts about the implementation's tables (exhaustive)."""
    import srctools.fgd as F
    lt = LineTables()
    bad = [v.name for v in lt.vts if impl_type_of('kv', v.value, False) != (False, v)]      # the real KVDef._parse, strict
    ck.obligation('data:value_type_names_look_up_to_themselves', not bad,
                  f'{len(lt.vts)} ValueTypes: strip / leading * / casefold / VALUE_TYPE_LOOKUP of `.value` gives the member, not reportable '
                  f'(premise vt_lookup (vt_text v) = Some (false, v)); failing: {bad}')
    bad = [v.name for i, v in enumerate(lt.vts) if impl_type_of('io', lt.io_text[i], False) != (False, F.VALUE_TO_IO_DECAY[v])]   # the real IODef._parse
    ck.obligation('data:io_type_names_look_up_to_the_decayed_type', not bad,
                  f'what IODef.export writes for each of the {len(lt.vts)} types is read back as VALUE_TO_IO_DECAY[type] '
                  f'(premise io_lookup (io_text v) = Some (io_decay v)); failing: {bad}')
    bad = [t.name for t in lt.rts if lt.rt_lookup(F.RESTYPE_TO_NAME[t]) != lt.rt_index[t]]
    ck.obligation('data:resource_type_names_look_up_to_themselves', not bad,
                  f'{len(lt.rts)} resource types: RESTYPE_BY_NAME[RESTYPE_TO_NAME[t].casefold()] is t (premise rt_lookup (rt_text t) = Some t); failing: {bad}')
    bad_t = []
    for ts in TAGSETS:
        try:
            ok = F.validate_tags([t.casefold() for t in ts]) == ts and all(t.casefold().upper() == t for t in ts)
        except ValueError:
            ok = False
        if not ok:
            bad_t.append(sorted(ts))
    ck.obligation('data:generated_tags_are_in_normal_form', not bad_t,
                  f'{len(TAGSETS)} tag sets of the generators: upper-cased, distinct, accepted by validate_tags (premise tags_wf); failing: {bad_t}')
    bad_n = [n for n in [0, 1, 2, 4, 1 << 23, 1 << 30, 12345] if int(str(n)) != n]
    ck.obligation('data:int_of_str_of_int', not bad_n, 'premise undec (dec n) = Some n (spot check)')


def corr_lines(ck: Ck) -> None:
    """Fmt/FgdLine.v against the implementation.  Writers: the tokens the real Tokenizer reads from what KVDef.export /
    IODef.export / EntityDef.export (@resources) write == kv_toks / io_toks / res_toks.  Readers: KVDef._parse / IODef._parse /
    the @resources loop of EntityDef.parse on those token lists and on mutated ones (a token deleted, doubled, swapped,
    inserted) == kv_parse / io_parse / res_read, including how many tokens are left."""
    import srctools.fgd as F
    from srctools.const import FileType
    from srctools.fgd import EntityDef, EntityTypes, IODef, KVDef, Resource, ValueTypes
    from srctools.tokenizer import IterTokenizer, Token as T
    rng = ck.rng
    lt = LineTables()
    _SDEFS.clear()
    _SDEF_LINES.clear()
    w_kv, p_kv, w_io, p_io, w_res, p_res = [], [], [], [], [], []
    one = lambda x: [x]   # noqa: E731
    for i in range(ck.budget(54, 600)):
        plain = i % 3 == 2
        custom = not plain
        label = rng.random() < 0.5
        kv, tags = gen_line_kv(rng, plain)
        buf = io.StringIO()
        kv.export(buf, tags, label, custom)
        toks = fgd_tokens(buf.getvalue())
        lt.note(toks)
        secs = lambda x, custom=custom: text_sections(x, custom)   # noqa: E731
        lit = kv_line_literal(lt, kv, tags, secs, lambda x: text_sections(x, False, '\t\t'),
                              lambda v, n, custom=custom, label=label: text_sections(n, custom, '\t\t'))
        # spawnflag names: the model adds the label itself, but the split of the LABELLED text is what the writer chose
        if kv.type is ValueTypes.SPAWNFLAGS and label:
            def lsecs(v: int, n: str, custom=custom) -> list[str]:
                s_ = text_sections(f'[{v}] {n}', custom, '\t\t')
                pre = f'[{v}] '
                return [s_[0][len(pre):]] + s_[1:] if s_ and s_[0].startswith(pre) else ['<label split>']
            lit = kv_line_literal(lt, kv, tags, secs, lambda x: text_sections(x, False, '\t\t'), lsecs)
        w_kv.append(('(%s, %s, %s)' % (coq_bool(label), coq_bool(custom), lit), toks))
        ck.count('corr_lines_kv')
        ck.hist('line_kv_type', 'flags' if kv.type is ValueTypes.SPAWNFLAGS else 'choices' if kv.type is ValueTypes.CHOICES else 'bool' if kv.type is ValueTypes.BOOL else 'other')
        if len(toks) > 6:
            ck.seen(('linekv', buf.getvalue()))
        for mut in (False, True, True):
            t2 = mutate_tokens(rng, toks) if mut else toks
            lt.note(t2)
            r = impl_parse_tokens('kv', t2)
            if r == 'skip':
                continue
            ck.hist('line_kv_parse', ('mutated:' if mut else 'written:') + ('raises' if r is None else 'ok'))
            if r is None:
                want = 'None'
            else:
                obj, tg, left = r
                if not isinstance(obj.type, ValueTypes):
                    continue
                want = 'Some (%s, %d)' % (kv_line_literal(lt, obj, tg, one, one), left)
            p_kv.append((coq_s(t2[0][1]), t2[1:], want))
            ck.count('corr_lines_kv_parse')
    for i in range(ck.budget(27, 300)):
        plain = i % 3 == 2
        typ = rng.choice(list(ValueTypes))
        if typ.has_list:
            typ = ValueTypes.VOID
        o = IODef(rng.choice(['Fire', 'Kill', 'SetValue', 'OnUser1']), typ, gen_line_text(rng, rng.choice(['empty', 'short', 'special', 'long']), plain))
        tags = frozenset() if plain else rng.choice(TAGSETS)
        buf = io.StringIO()
        o.export(buf, 'input', tags, not plain)
        toks = fgd_tokens(buf.getvalue())[1:]     # after the `input` keyword
        lt.note(toks)
        mk = lambda o_, tg, secs: 'mk_iol N %s %s %d %s' % (coq_s(o_.name), coq_secs(sorted(tg)), lt.vt_index[o_.type], coq_secs(secs(o_.desc)))   # noqa: E731
        w_io.append(('(%s, %s)' % (coq_bool(not plain), mk(o, tags, lambda x, plain=plain: text_sections(x, not plain))), toks))
        ck.count('corr_lines_io')
        for mut in (False, True):
            t2 = mutate_tokens(rng, toks) if mut else toks
            lt.note(t2)
            r = impl_parse_tokens('io', t2)
            want = 'None' if r is None or not isinstance(r[0].type, ValueTypes) else 'Some (%s, %d)' % (mk(r[0], r[1], one), r[2])
            p_io.append((t2, want))
            ck.count('corr_lines_io_parse')
    restypes = list(F.RESTYPE_TO_NAME)
    for i in range(ck.budget(20, 200)):
        e = EntityDef(EntityTypes.POINT, 'c16_ent')
        kind = i % 4
        if kind == 0:
            res: Any = None
        elif kind == 1:
            res = []
        else:
            res = [Resource(rng.choice(['models/a.mdl', 'Weapon.Fire', 'materials/x y.vmt', 'a\\b.vmt', 'scripts/"q".nut']), rng.choice(restypes),
                            rng.choice(TAGSETS)) for _ in range(rng.randint(1, 3))]
        if res is not None:
            e.resources = res
        buf = io.StringIO()
        e.export(buf, True, True)
        toks = fgd_tokens(buf.getvalue())
        body = toks[6:]       # after `@PointClass = name NEWLINE [ NEWLINE`
        lt.note(body)
        rlit = lambda rs: 'None' if rs is None else 'Some ' + coq_list('(%d, %s, %s)' % (lt.rt_index[r.type], coq_s(r.filename), coq_secs(sorted(r.tags))) for r in rs)   # noqa: E731
        w_res.append((rlit(res), body))
        ck.count('corr_lines_resources')
        ck.hist('line_resources', ['undefined', 'empty', 'some', 'some'][kind])
        for mut in (False, True):
            b2 = list(body)
            if mut and len(b2) > 3:
                j = rng.randrange(len(b2) - 2)
                if rng.random() < 0.5:
                    b2.insert(j, (T.NEWLINE, '\n'))
                elif b2[j][0] is T.NEWLINE:
                    del b2[j]
            lt.note(b2)
            tk = IterTokenizer(iter(toks[:6] + b2), 'c16', F.FGDParseError)
            fgd = F.FGD()
            try:
                tk()   # '@PointClass'
                EntityDef.parse(fgd, tk, EntityTypes.POINT)
                ent = fgd.entities['c16_ent']
                got: Any = None if ent.resources == () else list(ent.resources)
                want = 'Some (%s)' % rlit(got)
            except Exception:   # noqa: BLE001
                want = 'None'
            p_res.append((b2, want))
            ck.count('corr_lines_resources_parse')
    # ---- whole entity bodies: several keyvalue lines (tagged variants of one key too), inputs, outputs, resources
    w_body, p_body = [], []
    iolit = lambda o_, tg, secs: 'mk_iol N %s %s %d %s' % (coq_s(o_.name), coq_secs(sorted(tg)), lt.vt_index[o_.type], coq_secs(secs(o_.desc)))   # noqa: E731
    for i in range(ck.budget(12, 120)):
        plain = i % 3 == 2
        custom, label = not plain, rng.random() < 0.5
        e = EntityDef(EntityTypes.POINT, 'c16_ent')
        items = []
        secs = lambda x, custom=custom: text_sections(x, custom)   # noqa: E731
        for name in rng.sample(KV_NAMES, rng.randint(0, 4)):
            for tags in ([frozenset()] if plain or rng.random() < 0.7 else rng.sample(TAGSETS, 2)):
                kv, _ = gen_line_kv(rng, plain)
                kv.name = name
                if kv.type is ValueTypes.SPAWNFLAGS:
                    kv.disp_name = name
                e.keyvalues.setdefault(name.casefold(), {})[tags] = kv

                def lsecs(v: int, n: str, custom=custom, label=label) -> list[str]:
                    if not label:
                        return text_sections(n, custom, '\t\t')
                    s_ = text_sections(f'[{v}] {n}', custom, '\t\t')
                    pre = f'[{v}] '
                    return [s_[0][len(pre):]] + s_[1:] if s_ and s_[0].startswith(pre) else ['<label split>']
                items.append('(0%%nat, IKv N (%s))' % kv_line_literal(lt, kv, tags, secs, lambda x: text_sections(x, False, '\t\t'), lsecs))
            e.kv_order.append(name.casefold())
        for cat, pre_, ctor in (('inputs', 'In', 'IIn'), ('outputs', 'On', 'IOut')):
            first = True
            for j in range(rng.choice([0, 1, 2])):
                typ = rng.choice(list(ValueTypes))
                if typ.has_list:
                    typ = ValueTypes.VOID
                o = IODef(f'{pre_}Fire{j}', typ, gen_line_text(rng, rng.choice(['empty', 'short', 'special']), plain))
                tags = frozenset() if plain else rng.choice(TAGSETS)
                getattr(e, cat)[o.name.casefold()] = {tags: o}
                items.append('(%d%%nat, %s N (%s))' % (2 if first else 0, ctor, iolit(o, tags, secs)))
                first = False
        res = None if rng.random() < 0.3 else [Resource(rng.choice(['models/a.mdl', 'Weapon.Fire']), rng.choice(restypes), rng.choice(TAGSETS))
                                               for _ in range(rng.randint(0, 2))]
        if res is not None:
            e.resources = res
        buf = io.StringIO()
        e.export(buf, label, custom)
        toks = fgd_tokens(buf.getvalue())
        body = toks[6:-1]          # after `@PointClass = name NEWLINE [ NEWLINE`, without the NEWLINE after the closing bracket
        lt.note(body)
        w_body.append(('(%s, %s, %s, %s)' % (coq_bool(label), coq_bool(custom), coq_list(items), rlit(res)), body))
        ck.count('corr_lines_bodies')
        ck.seen(('linebody', buf.getvalue()))
        for mut in (False, True):
            b2 = list(body)
            if mut and len(b2) > 2:
                b2.insert(rng.randrange(len(b2)), (T.NEWLINE, '\n'))
            tk = IterTokenizer(iter(toks[:6] + b2), 'c16', F.FGDParseError)
            fgd = F.FGD()
            try:
                tk()
                EntityDef.parse(fgd, tk, EntityTypes.POINT)
                ent = fgd.entities['c16_ent']
                left = 0
                while tk()[0] is not T.EOF:
                    left += 1
                kvl = [kv_line_literal(lt, kv, tg, one, one) for tm in ent.keyvalues.values() for tg, kv in tm.items()]
                if any(not isinstance(kv.type, ValueTypes) for tm in ent.keyvalues.values() for kv in tm.values()):
                    continue
                want = 'Some (mk_body N N %s %s %s (%s), %d)' % (
                    coq_list(kvl), coq_list(iolit(o_, tg, one) for tm in ent.inputs.values() for tg, o_ in tm.items()),
                    coq_list(iolit(o_, tg, one) for tm in ent.outputs.values() for tg, o_ in tm.items()),
                    rlit(None if ent.resources == () else list(ent.resources)), left)
            except Exception:   # noqa: BLE001
                want = 'None'
            p_body.append((b2, want))
            ck.count('corr_lines_bodies_parse')
    tl = lambda ts: coq_list(coq_tok(t, v) for t, v in ts)   # noqa: E731
    exprs = [
        'map (wcase (fun c : bool * bool * kvline N => let \'(l, cu, k) := c in KT l cu k)) ' + coq_list('(%s, %s)' % (a, tl(ts)) for a, ts in w_kv),
        'map (fun c : list N * list tok * option (kvline N * N) => let \'(n, ts, want) := c in pcase kvl_eqb (KP n ts) want) '
        + coq_list('(%s, %s, %s)' % (n, tl(ts), w) for n, ts, w in p_kv),
        'map (wcase (fun c : bool * ioline N => IT (fst c) (snd c))) ' + coq_list('(%s, %s)' % (a, tl(ts)) for a, ts in w_io),
        'map (fun c : list tok * option (ioline N * N) => pcase iol_eqb (IP (fst c)) (snd c)) ' + coq_list('(%s, %s)' % (tl(ts), w) for ts, w in p_io),
        'map (wcase (fun r => RT r ++ [TBrClose; TNl])) ' + coq_list('(%s, %s)' % (a, tl(ts)) for a, ts in w_res),
        # the entity loop goes on after the block: compared when the model is left with NEWLINEs and the closing bracket
        'map (fun c : list tok * option (option (list (N * list N * list (list N)))) => match RR (fst c), snd c with '
        '| Some (r, rest), Some w => match skip_nl rest with [TBrClose] | [TBrClose; TNl] => '
        'match r, w with None, None => 0 | Some a, Some b => if list_eqb ritem_eqb a b then 0 else 1 | _, _ => 1 end | _ => 4 end '
        '| None, None => 0 | Some (_, rest), None => match skip_nl rest with [TBrClose] | [TBrClose; TNl] => 2 | _ => 4 end | None, Some _ => 3 end) '
        + coq_list('(%s, %s)' % (tl(ts), w) for ts, w in p_res),
        'map (wcase (fun c : bool * bool * list (nat * item N) * option (list (N * list N * list (list N))) => '
        'let \'(l, cu, its, r) := c in BT l cu its r)) ' + coq_list('(%s, %s)' % (a, tl(ts)) for a, ts in w_body),
        'map (fun c : list tok * option (body N N * N) => pcase body_eqb (BR (fst c)) (snd c)) ' + coq_list('(%s, %s)' % (tl(ts), w) for ts, w in p_body),
    ]
    vals = ck.coq_eval(IMPORTS + ['SV.Fmt.FgdTypeText'], exprs, name='lines', preamble=PRE + lt.preamble(), timeout=900)
    names = ['KVDef.export', 'KVDef._parse', 'IODef.export', 'IODef._parse', 'EntityDef.export @resources', 'EntityDef.parse @resources',
             'EntityDef.export body', 'EntityDef.parse body']
    if vals is None:
        ck.obligation('correspondence:text_lines_writers', False, 'model could not be evaluated')
        ck.tie_broken.append('correspondence text lines: model evaluation failed')
        return
    codes = [parse_coq_N_list(v) for v in vals]
    data = [w_kv, p_kv, w_io, p_io, w_res, p_res, w_body, p_body]
    bad = {nm: [i for i, c in enumerate(cs) if c not in (0, 4)] for nm, cs in zip(names, codes)}
    relaxed = sum(1 for cs in codes for c in cs if c == 4)
    for kind, idxs in (('writers', (0, 2, 4, 6)), ('readers', (1, 3, 5, 7))):
        nbad = sum(len(bad[names[i]]) for i in idxs)
        ck.obligation(f'correspondence:text_lines_{kind}', nbad == 0,
                      ', '.join(f'{names[i]}: {len(codes[i])} cases, {len(bad[names[i]])} disagreements' for i in idxs)
                      + (f'; {relaxed} @resources streams where the model stopped elsewhere than the entity loop (not compared)' if kind == 'readers' else '')
                      + ' (token lists from the real Tokenizer; Fmt/FgdLine.v with the tables of the implementation)')
        if nbad:
            ck.tie_broken.append(f'correspondence text lines, {kind} (Fmt/FgdLine.v vs fgd.py)')
            first = next(names[i] for i in idxs if bad[names[i]])
            j = bad[first][0]
            row = data[names.index(first)][j]
            ck.extra[f'text_line_{kind}_disagreement'] = {'site': first, 'code': codes[names.index(first)][j], 'case': [str(x)[:600] for x in row]}


# ----------------------------------------------------------------------------------------------- entity headers
HEAD_PRE = """Import ListNotations. Open Scope bool_scope. Open Scope N_scope. Open Scope list_scope.
Fixpoint leqb {X} (e : X -> X -> bool) (a b : list X) : bool :=
  match a, b with [], [] => true | x :: a', y :: b' => e x y && leqb e a' b' | _, _ => false end.
Definition hobj : Type := (list N * list (list N))%type.
Definition hobj_eqb (a b : hobj) : bool := str_eqb (fst a) (fst b) && leqb str_eqb (snd a) (snd b).
Fixpoint tk_eqb (a b : tok) : bool :=
  match a, b with TStr x, TStr y | TParen x, TParen y => str_eqb x y | TColon, TColon | TEq, TEq | TPlus, TPlus | TNl, TNl
  | TBrOpen, TBrOpen | TBrClose, TBrClose | TComma, TComma | TOther, TOther => true | _, _ => false end.
Definition h_known (n : list N) : bool := existsb (str_eqb n) known_names.
(* a (name, arguments) pair that was not tabulated gives a marker no helper of the implementation equals *)
Definition h_parse (n : list N) (a : list (list N)) : option hobj :=
  match find (fun r => str_eqb (fst (fst r)) n && leqb str_eqb (snd (fst r)) a) hp_tab with
  | Some r => snd r
  | None => Some ([0], [])
  end.
Definition HR (ts : list tok) := head_read hobj h_known h_parse (fun n a => (n, a)) ts.
Definition head_eqb (a b : head hobj) : bool :=
  Bool.eqb (h_alias _ a) (h_alias _ b) && leqb str_eqb (h_bases _ a) (h_bases _ b) && leqb hobj_eqb (h_helpers _ a) (h_helpers _ b)
  && str_eqb (h_class _ a) (h_class _ b) && str_eqb (h_desc _ a) (h_desc _ b).
(* writer: 0 = the same tokens *)
Definition hw (c : bool * bool * list (list N) * list hform * bool * list N * list (list N) * list tok) : N :=
  let '(cu, al, bs, fs, hid, cl, secs, ts) := c in if leqb tk_eqb (head_toks cu al bs fs hid cl secs) ts then 0 else 1.
(* reader: compared when the model stops where the entity loop then finds the closing bracket (what the streams end with);
   4 = the model stopped elsewhere (a `[` in the middle): the implementation goes on reading body lines, not compared *)
Definition hr (c : list tok * option (head hobj)) : N :=
  match HR (fst c), snd c with
  | None, None => 0
  | Some (h, rest), w =>
      match skip_nl rest with
      | [TBrClose] | [TBrClose; TNl] => match w with Some h' => if head_eqb h h' then 0 else 1 | None => 2 end
      | _ => 4
      end
  | None, Some _ => 3
  end.
"""
HEAD_BASES = ['BaseEntity', 'Targetname', 'Angles', 'prop_dynamic_base', 'A', 'b2']
HEAD_CLASSES = ['info_target', 'Func_Door', 'npc_x', 'e']


def corr_head(ck: Ck) -> None:
    """Fmt/FgdHead.v against the implementation.  Writers: the tokens the real Tokenizer reads from what EntityDef.export writes
    between `@PointClass` and the `[` == head_toks (bases / aliasof, helpers of every pool entry incl. halfgridsnap, unknown and
    extension helpers, class name, description split by _write_longstring).  Readers: EntityDef.parse(eval_bases=False) on those
    token lists and on lists with 1-2 token mutations == head_read: alias flag, bases, helpers (type name + export() arguments),
    class name, description, raise <-> None.  HELPER_IMPL[..].parse is tabulated for every (known name, arguments) pair a stream
    can ask for."""
    import warnings
    import srctools.fgd as F
    from srctools.fgd import HELPER_IMPL, EntityDef, EntityTypes, HelperHalfGridSnap, HelperTypes, UnknownHelper
    from srctools.tokenizer import IterTokenizer, Token as T
    rng = ck.rng
    known = [h.value for h in HelperTypes]
    cs = lambda x: '[' + ';'.join(str(ord(c)) for c in x) + ']'   # noqa: E731
    cl = lambda xs: coq_list(cs(x) for x in xs)   # noqa: E731
    tl = lambda ts: coq_list(('TStr ' + cs(v)) if t is T.STRING else ('TParen ' + cs(v)) if t is T.PAREN_ARGS else coq_tok(t, v) for t, v in ts)   # noqa: E731
    hp: dict[tuple[str, tuple[str, ...]], Optional[tuple[str, list[str]]]] = {}

    def hkey(h: Any) -> tuple[str, list[str]]:
        return (h.name if isinstance(h, UnknownHelper) else h.TYPE.value, list(h.export()))

    def tabulate(toks: list[tuple[Any, str]]) -> None:
        names = {v for t, v in toks if t is T.STRING and v in known}
        argss = {()} | {tuple(a) for a in ([x.strip() for x in v.split(',')] for t, v in toks if t is T.PAREN_ARGS)} \
            | {() for t, v in toks if t is T.PAREN_ARGS and v.strip() == ''}
        argss = {(() if a == ('',) else a) for a in argss}
        for n in names:
            for a in argss:
                if (n, a) not in hp:
                    try:
                        with warnings.catch_warnings():
                            warnings.simplefilter('ignore')
                            hp[n, a] = hkey(HELPER_IMPL[HelperTypes(n)].parse(list(a)))
                    except Exception:   # noqa: BLE001
                        hp[n, a] = None
    w_cases, r_cases = [], []
    forms_checked, forms_bad, sole_blank = 0, [], 0
    extras = [(T.STRING, 'halfgridsnap'), (T.STRING, 'size'), (T.STRING, 'zzz'), (T.STRING, 'aliasof'), (T.STRING, 'base'), (T.PAREN_ARGS, ''),
              (T.PAREN_ARGS, 'a, b'), (T.PAREN_ARGS, ' x '), (T.PAREN_ARGS, 'a, , b'), (T.PAREN_ARGS, ', x'), (T.PAREN_ARGS, 'x, '), (T.PAREN_ARGS, ' , '), (T.PAREN_ARGS, ','), (T.PAREN_ARGS, ' '),
              (T.NEWLINE, '\n'), (T.EQUALS, '='), (T.COLON, ':'), (T.PLUS, '+'), (T.BRACK_OPEN, '['),
              (T.COMMA, ','), (T.STRING, 'text')]
    for i in range(ck.budget(40, 300)):
        plain = i % 3 == 2
        custom = not plain
        e = EntityDef(EntityTypes.POINT, rng.choice(HEAD_CLASSES))
        e.bases = rng.sample(HEAD_BASES, rng.choice([0, 0, 1, 2, 3]))
        e.is_alias = bool(e.bases) and rng.random() < 0.3
        for _ in range(rng.choice([0, 1, 2, 3, 5])):
            hname, hargs = rng.choice(HELPER_POOL if rng.random() < 0.8 else EXT_HELPER_POOL + SOLE_BLANK_POOL + [('orderby', ['speed', 'Model']), ('appliesto', ['', 'P2'])])
            try:
                e.helpers.append(UnknownHelper(hname[1:], list(hargs)) if hname.startswith('@') else HELPER_IMPL[HelperTypes(hname)].parse(list(hargs)))
            except (ValueError, TypeError, KeyError):
                pass
        e.desc = gen_line_text(rng, rng.choice(['empty', 'short', 'short', 'special', 'long']), plain)
        buf = io.StringIO()
        e.export(buf, True, custom)
        toks = fgd_tokens(buf.getvalue())
        cut = next(k for k, (t, _) in enumerate(toks) if t is T.BRACK_OPEN)
        head = toks[1:cut + 1]
        forms = []
        for h in e.helpers:
            if h.IS_EXTENSION and not custom:
                continue
            forms.append('HBare ' + cs('halfgridsnap') if isinstance(h, HelperHalfGridSnap) else 'HCall %s %s' % (cs(hkey(h)[0]), cl(h.export())))
        # premises of c16_entity_header_roundtrip on this entity: [form_ok] for every helper, [bases_ok], a stripped class name
        for h in e.helpers:
            n, a = hkey(h)
            if a == ['']:
                # the sole blank argument is outside [args_ok]: written `name()`, read as no argument (c16_helper_args_sole_blank);
                # the correspondence below still compares writer and reader on it
                sole_blank += 1
                continue
            ok_args = all(',' not in x and x.strip() == x for x in a)       # blank arguments allowed (round 5)
            ck.hist('head_helper_blank_args', blank_positions(a))
            if isinstance(h, UnknownHelper):
                ok_form = n not in known and n != 'aliasof'
            else:
                try:
                    ok_form = n in known and n not in ('base', 'autovis') and hkey(HELPER_IMPL[HelperTypes(n)].parse(list(a))) == (n, a)
                except Exception:   # noqa: BLE001
                    ok_form = False
            forms_checked += 1
            if not (ok_args and ok_form):
                forms_bad.append(f'{n}({", ".join(a)})')
        if not (all(x and ',' not in x and x.strip() == x for x in e.bases) and len(set(e.bases)) == len(e.bases) and e.classname.strip() == e.classname):
            forms_bad.append(f'bases {e.bases} / class {e.classname!r}')
        secs = [v for t, v in fgd_tokens(impl_write(custom, e.desc, '\t\t') + '\n') if t is T.STRING] if e.desc else []
        w_cases.append('(%s, %s, %s, %s, %s, %s, %s, %s)' % (coq_bool(custom), coq_bool(e.is_alias), cl(e.bases), coq_list(forms),
                                                           coq_bool(len(forms) < len(e.helpers)), cs(e.classname), cl(secs), tl(head)))
        ck.count('corr_head_export')
        ck.hist('head_helpers', len(e.helpers))
        ck.hist('head_bases', ('alias ' if e.is_alias else '') + str(len(e.bases)))
        if len(head) > 6:
            ck.seen(('head', buf.getvalue()[:buf.getvalue().index('\n\t[')]))
        for mut in (0, 1, 2):
            h2 = list(head)
            for _ in range(mut):
                j = rng.randrange(len(h2) + 1)
                r = rng.random()
                if r < 0.3 and h2:
                    del h2[min(j, len(h2) - 1)]
                elif r < 0.5 and len(h2) > 1:
                    k = min(j, len(h2) - 2)
                    h2[k], h2[k + 1] = h2[k + 1], h2[k]
                elif r < 0.6 and h2:
                    h2.insert(j, h2[min(j, len(h2) - 1)])
                else:
                    h2.insert(j, rng.choice(extras))
            stream = h2 + [(T.NEWLINE, '\n'), (T.BRACK_CLOSE, ']')]
            tabulate(stream)
            fgd = F.FGD()
            try:
                with warnings.catch_warnings():
                    warnings.simplefilter('ignore')
                    EntityDef.parse(fgd, IterTokenizer(iter(stream), 'c16', F.FGDParseError), EntityTypes.POINT, eval_bases=False)
                [ent] = fgd.entities.values()
                if fgd.auto_visgroups:
                    continue            # autovis is not modelled
                want = 'Some (mk_head hobj %s %s %s %s %s)' % (
                    coq_bool(ent.is_alias), cl(b if isinstance(b, str) else b.classname for b in ent.bases),
                    coq_list('(%s, %s)' % (cs(n), cl(a)) for n, a in map(hkey, ent.helpers)), cs(ent.classname), cs(ent.desc))
            except Exception:   # noqa: BLE001
                want = 'None'
            r_cases.append('(%s, %s)' % (tl(stream), want))
            ck.count('corr_head_parse')
            ck.hist('head_parse', ('mutated ' if mut else 'as written ') + ('raises' if want == 'None' else 'parsed'))
    pre = HEAD_PRE.replace('Definition h_known', 'Definition known_names : list (list N) := %s.\nDefinition hp_tab : list (list N * list (list N) * option hobj) := %s.\nDefinition h_known' % (
        cl(known), coq_list('(%s, %s, %s)' % (cs(n), cl(a), 'None' if v is None else 'Some (%s, %s)' % (cs(v[0]), cl(v[1])))
                            for (n, a), v in sorted(hp.items(), key=lambda kv: (kv[0][0], kv[0][1])))), 1)
    ck.obligation('data:header_premises_hold_for_generated_entities', not forms_bad and 'base' in known and 'aliasof' not in known,
                  f'{forms_checked} helpers of the generated entities: HELPER_IMPL[type].parse(export()) gives the same helper, arguments are '
                  f'stripped and without commas (blank ones allowed; {sole_blank} helpers with the sole blank argument are outside the premise), '
                  f'base names also non-empty, no helper is called base/aliasof/autovis; HelperTypes knows '
                  f'"base" and not "aliasof" (premises of c16_entity_header_roundtrip); failing: {forms_bad[:5]}')
    vals = ck.coq_eval(IMPORTS, ['map hw ' + coq_list(w_cases), 'map hr ' + coq_list(r_cases)], name='head', preamble=pre, timeout=900)
    if vals is None:
        ck.obligation('correspondence:text_header_writer', False, 'model could not be evaluated')
        ck.tie_broken.append('correspondence entity header: model evaluation failed')
        return
    wc, rc = (parse_coq_N_list(v) for v in vals)
    wbad = [i for i, c in enumerate(wc) if c != 0]
    rbad = [i for i, c in enumerate(rc) if c not in (0, 4)]
    ck.obligation('correspondence:text_header_writer', not wbad and len(wc) == len(w_cases),
                  f'EntityDef.export header: {len(wc)} cases, {len(wbad)} disagreements (tokens of the real Tokenizer == head_toks of Fmt/FgdHead.v)')
    ck.obligation('correspondence:text_header_reader', not rbad and len(rc) == len(r_cases),
                  f'EntityDef.parse header: {len(rc)} token lists (as written and with 1-2 mutations), {len(rbad)} disagreements, '
                  f'{sum(1 for c in rc if c == 4)} where the model stopped elsewhere than the end of the list (not compared); '
                  f'{len(hp)} (helper type, arguments) pairs tabulated from HELPER_IMPL')
    if wbad or rbad:
        ck.tie_broken.append('correspondence entity header (Fmt/FgdHead.v vs EntityDef.export/parse)')
        which, j = ('writer', wbad[0]) if wbad else ('reader', rbad[0])
        ck.extra['text_header_disagreement'] = {'side': which, 'code': (wc if wbad else rc)[j], 'case': (w_cases if wbad else r_cases)[j][:1500]}
    corr_helper_args_program(ck)


def corr_helper_args_program(ck: Ck) -> None:
    """The GENERATED configuration of the PAREN_ARGS branch against the implementation, exhaustively on a small scope: every text over
    {',', ' ', 'a', 'b'} of length 0-5 (1365 texts) as the PAREN_ARGS token of an unknown helper, through the real EntityDef.parse;
    the arguments UnknownHelper received == paren_args_with gen_args_cfg (so this correspondence follows the code that is there:
    under a fault it still agrees and the named obligations on gen_args_cfg say what is wrong)."""
    import itertools
    import warnings
    import srctools.fgd as F
    from srctools.fgd import EntityDef, EntityTypes
    from srctools.tokenizer import IterTokenizer, Token as T
    cs = lambda x: '[' + ';'.join(str(ord(c)) for c in x) + ']'   # noqa: E731
    cases = []
    for n in range(0, 6):
        for tup in itertools.product(', ab', repeat=n):
            text = ''.join(tup)
            stream = [(T.STRING, 'zz_helper'), (T.PAREN_ARGS, text), (T.NEWLINE, '\n'), (T.EQUALS, '='), (T.STRING, 'e'), (T.NEWLINE, '\n'),
                      (T.BRACK_OPEN, '['), (T.NEWLINE, '\n'), (T.BRACK_CLOSE, ']')]
            fgd = F.FGD()
            try:
                with warnings.catch_warnings():
                    warnings.simplefilter('ignore')
                    EntityDef.parse(fgd, IterTokenizer(iter(stream), 'c16', F.FGDParseError), EntityTypes.POINT, eval_bases=False)
                [ent] = fgd.entities.values()
                [h] = ent.helpers
                got = 'Some ' + coq_list(cs(a) for a in h.export())
            except Exception:   # noqa: BLE001
                got = 'None'
            cases.append('(%s, %s)' % (cs(text), got))
            ck.count('corr_helper_args_program')
            blank_piece = ',' in text and any(p.strip() == '' for p in text.split(','))
            ck.hist('helper_args_program_text', 'blank piece' if blank_piece else 'plain')
            if blank_piece:
                ck.seen(('haprog', text))
    pre = HEAD_PRE.split('Definition hobj')[0] + '''Definition ha (c : list N * option (list (list N))) : N :=
  match snd c with Some l => if leqb str_eqb (paren_args_with gen_args_cfg (fst c)) l then 0 else 1 | None => 2 end.
'''
    vals = ck.coq_eval(IMPORTS, ['map ha ' + coq_list(cases)], name='helper_args_program', preamble=pre, timeout=900)
    if vals is None:
        ck.obligation('correspondence:text_helper_args_program', False, 'model could not be evaluated')
        ck.tie_broken.append('correspondence helper argument program: model evaluation failed')
        return
    codes = parse_coq_N_list(vals[0])
    bad = [i for i, c in enumerate(codes) if c != 0]
    ck.obligation('correspondence:text_helper_args_program', not bad and len(codes) == len(cases),
                  f'EntityDef.parse PAREN_ARGS branch: {len(codes)} texts (all texts over comma, blank, a, b of length 0-5), {len(bad)} disagreements '
                  f'(arguments UnknownHelper received == paren_args_with gen_args_cfg, the configuration read off the source)')
    if bad:
        ck.tie_broken.append('correspondence helper argument program (gen_args_cfg vs EntityDef.parse)')
        ck.extra['helper_args_program_disagreement'] = cases[bad[0]]


# ----------------------------------------------------------------------------------------------- binary records
def coq_qs(x: str) -> str:
    return '"%s"%%string' % x


def ent_literal(e: Any, sid: Callable[[str], int]) -> str:
    """An EntityDef as a Coq `entdef N` (Fmt/FgdBinEnt.v); strings are numbered by `sid`.  What the binary format
    does not carry is left out; a keyvalue/IO name with several tag variants cannot be written at all."""
    from srctools.fgd import ValueTypes
    kvs = []
    for tm in e.keyvalues.values():
        for kv in tm.values():
            if kv.type is ValueTypes.SPAWNFLAGS:
                fl = coq_list('(%d, %d, %s)' % (m, sid(n), coq_bool(bool(d))) for m, n, d, _ in (kv.val_list or []))
                dflt = sid('')
            else:
                fl, dflt = '[]', sid(kv.default or '')
            kvs.append('mk_kv %d %d %s %s %d %s' % (sid(kv.name), sid(kv.disp_name), coq_qs(kv.type.name), coq_bool(kv.readonly), dflt, fl))
    ios = {}
    for cat in ('inputs', 'outputs'):
        ios[cat] = ['mk_io %d %s' % (sid(v.name), coq_qs(v.type.name)) for tm in getattr(e, cat).values() for v in tm.values()]
    res = ['mk_res %d %s %s' % (sid(r.filename), coq_qs(r.type.name), coq_list(str(sid(t)) for t in r.tags)) for r in e.resources]
    bases = [str(sid(b if isinstance(b, str) else b.classname)) for b in e.bases]
    return 'mk_ent %s %s %s %s %s %s %s' % (coq_qs('TYPE_' + e.type.name), coq_bool(e.is_alias), coq_list(bases),
                                            coq_list(kvs), coq_list(ios['inputs']), coq_list(ios['outputs']), coq_list(res))


def gen_bin_ent(rng: random.Random, i: int) -> Any:
    """An engine-style definition (untagged keyvalues/IO, no CHOICES): what ent_serialise accepts."""
    from srctools.const import FileType
    from srctools.fgd import EntityDef, EntityTypes, IODef, KVDef, Resource, ValueTypes
    e = EntityDef(rng.choice(list(EntityTypes)), f'gen_{i}', is_alias=rng.random() < 0.2)
    e.bases = rng.sample(['_CBaseEntity_', 'prop_static', 'Other'], rng.choice([1, 1, 2])) if rng.random() < 0.4 else []
    for name in rng.sample(KV_NAMES, rng.randint(0, 6)):
        typ = rng.choice([t for t in ValueTypes if t is not ValueTypes.CHOICES])
        if typ is ValueTypes.SPAWNFLAGS:
            vl = [(1 << p, f'flag {p}', rng.random() < 0.5, frozenset()) for p in sorted(rng.sample(range(0, 31), rng.randint(0, 6)))]
            kv = KVDef(name, typ, name, '', '', vl)
        else:
            kv = KVDef(name, typ, rng.choice(['', 'Disp', name]), rng.choice(DEFAULTS), '', readonly=rng.random() < 0.3)
        e.keyvalues[name.casefold()] = {frozenset(): kv}
    for cat in ('inputs', 'outputs'):
        for j in range(rng.randint(0, 3)):
            getattr(e, cat)[f'io{j}'] = {frozenset(): IODef(f'Io{j}', rng.choice([t for t in ValueTypes if not t.has_list]))}
    if rng.random() < 0.5:
        e.resources = [Resource(f'res{j}', rng.choice(list(FileType)), rng.choice([frozenset(), frozenset({'A'}), frozenset({'A', 'B'})]))
                       for j in range(rng.randint(1, 3))]
    return e


BIN_PRE = '''Definition ent_case (c : entdef N * list N * entdef N * (list N * N)) : bool :=
  let '(lit, bytes, back, (canon, empty)) := c in
  match g_ent_ser lit with Some b => nlist_eqb b bytes | None => false end
  && match g_ent_unser canon empty bytes with Some (x, []) => entN_eqb x back | _ => false end.
Definition block_case (own : list N) (empty : N) (c : list (entdef N) * list N) : bool :=
  let '(lits, bytes) := c in
  match g_block_unser (base_canon ++ own) empty (List.length lits) bytes with
  | Some (xs, []) => list_eqb entN_eqb xs lits && match g_block_ser xs with Some b => nlist_eqb b bytes | None => false end
  | _ => false end.
'''


def corr_binary_records(ck: Ck, data: bytes, tb: dict) -> None:
    """Byte-exact: (1) generated definitions through the real ent_serialise / ent_unserialise with a table dictionary vs
    ent_ser / ent_unser of Fmt/FgdBinEnt.v; (2) blocks of the shipped file: the model reads the block's bytes (after the
    dictionary) to exactly the definitions the implementation reads, nothing left over, and writes them back to the same bytes."""
    from srctools import _engine_db as E
    rng = ck.rng
    rows = []
    for i in range(ck.budget(50, 450)):
        e = gen_bin_ent(rng, i)
        table: list[str] = ['']

        def enc(s: str, table=table) -> bytes:
            if s not in table:
                table.append(s)
            return E._fmt_16bit.pack(table.index(s))
        b = io.BytesIO()
        try:
            E.ent_serialise(e, b, enc)
        except Exception as ex:   # noqa: BLE001
            ck.violation('binary-serialise-raises', f'ent_serialise(generated definition) raises {type(ex).__name__}: {ex}', {'kind': 'binary'})
            continue
        raw = b.getvalue()
        b.seek(0)
        e2 = E.ent_unserialise(b, e.classname, E._py_make_lookup(b, table))
        sid = table.index
        rows.append((ent_literal(e, sid), raw, ent_literal(e2, sid), len(table)))
        ck.count('corr_binary_records')
        ck.hist('bin_record_bytes', min(len(raw) // 20 * 20, 200))
        if len(raw) > 12:
            ck.seen(('binrec', raw))
    exprs = ['bad_idx ent_case 0 ' + coq_list('(%s, %s, %s, (map N.of_nat (seq 0 %d), 0))' % (a, coq_N(raw), c, n) for a, raw, c, n in rows)]
    # ---- blocks of the shipped file
    db = fresh_db(data)
    base = list(db.base_strings)
    first_base: dict[str, int] = {}
    for i, x in enumerate(base):
        first_base.setdefault(x, i)
    nblocks = len(db.unparsed)
    block_of = {c: i for i, ids in enumerate(tb['blocks']) for c in ids}
    with_alias = sorted({block_of[a] for a in tb['bases']})       # blocks holding definitions with stored base names
    nsel = ck.budget(6, nblocks)
    chosen = sorted(set(rng.sample(range(nblocks), min(nblocks, nsel))) | set(with_alias if nsel >= nblocks else with_alias[:3]))
    brow = []
    for bi in chosen:
        classes, blob = db.unparsed[bi]
        f = io.BytesIO(blob)
        inv_list, from_dict = E.BinStrDict.unserialise(f, base)
        start = f.tell()
        ents = [E.ent_unserialise(f, cn, from_dict) for cn in classes]
        first = dict(first_base)
        for i, x in enumerate(inv_list):
            first.setdefault(x, len(base) + i)
        sid = lambda x, first=first: first.get(x, 65535)   # noqa: E731
        own = [first[x] for x in inv_list]
        brow.append((bi, own, sid(''), [ent_literal(e, sid) for e in ents], blob[start:]))
        ck.count('corr_binary_blocks')
        ck.count('corr_binary_block_entities', len(ents))
        ck.seen(('binblock', bi, len(blob)))
    # ---- the file header: magic, version, block count and the first (thorough: all) position records
    import struct
    count = struct.unpack_from('<I', data, 4)[0]
    pos, recs = 8, []
    for _ in range(count):
        n = struct.unpack_from('<H', data, pos)[0]
        names = data[pos + 2:pos + 2 + n]
        off, size = struct.unpack_from('<IH', data, pos + 2 + n)
        recs.append((names, off, size, pos))
        pos += 2 + n + 6
    header_end = pos
    nrec = count if ck.thorough else min(count, 8)
    cut = header_end if nrec == count else recs[nrec][3]
    impl_pos = [(list(cn), len(blob)) for cn, blob in db.unparsed]
    consecutive = all(recs[i][1] + recs[i][2] == recs[i + 1][1] for i in range(count - 1))
    names_match = all(recs[i][0].decode('utf8').split(E.STRING_SEP) == impl_pos[i][0] and recs[i][2] == impl_pos[i][1] for i in range(count))
    ck.obligation('data:block_positions_are_consecutive', consecutive and names_match and count == nblocks,
                  f'{count} position records of the shipped file: off[i] + size[i] == off[i+1] (the `positions` of c16_block_positions_slices), '
                  f'names and sizes as EngineDB holds them')
    exprs.append('match %s with 70 :: 71 :: 68 :: v :: a :: b :: c :: d :: r => (v =? bin_format_version) && (un32 a b c d =? %d) && '
                 'match rd_n %d bpos_unser r with Some (l, rest) => list_eqb (fun x y => nlist_eqb (bp_names x) (bp_names y) && (bp_off x =? bp_off y) '
                 '&& (bp_size x =? bp_size y)) l %s && (List.length rest =? 0)%%nat | None => false end | _ => false end'
                 % (coq_N(data[:cut]), count, nrec, coq_list('mk_bpos %s %d %d' % (coq_N(nm), off, size) for nm, off, size, _ in recs[:nrec])))
    pre = PRE + 'Definition base_canon : list N := %s.\n' % coq_N([first_base[x] for x in base]) + BIN_PRE
    vals: list[str] = []
    for lo in range(0, max(len(brow), 1), 25):     # <= 25 blocks (about 70 kB of bytes) per Coq file
        part = (exprs if lo == 0 else []) + ['block_case %s %d (%s, %s)' % (coq_N(own), emp, coq_list(lits), coq_N(raw))
                                             for bi, own, emp, lits, raw in brow[lo:lo + 25]]
        got = ck.coq_eval(IMPORTS, part, name='binrec', preamble=pre, timeout=900)
        if got is None:
            ck.obligation('correspondence:binary_records', False, 'model could not be evaluated')
            ck.tie_broken.append('correspondence binary records: model evaluation failed')
            return
        vals += got
    bad = parse_coq_N_list(vals[0])
    ck.obligation('correspondence:binary_header', vals[1] == 'true',
                  f'bytes 0..{cut} of the shipped file: magic, BIN_FORMAT_VERSION, block count and {nrec} of {count} position records '
                  f'(class-name bytes, offset, size) as header_unser / bpos_unser of Fmt/FgdBinEnt.v read them == what unserialise() reads')
    if vals[1] != 'true':
        ck.tie_broken.append('correspondence binary header (Fmt/FgdBinEnt.v vs _engine_db.unserialise)')
    badb = [brow[i][0] for i, v in enumerate(vals[2:]) if v != 'true']
    ck.obligation('correspondence:binary_records', not bad,
                  f'{len(rows)} generated definitions: bytes written by ent_serialise == ent_ser of the model, and ent_unser of those '
                  f'bytes == what ent_unserialise returns with nothing left over: {len(bad)} disagreements')
    ck.obligation('correspondence:binary_blocks', not badb,
                  f'{len(brow)} of {nblocks} blocks of the shipped database ({sum(len(r[3]) for r in brow)} definitions): block_unser of the '
                  f'bytes after the dictionary == the definitions ent_unserialise returns, no byte left, and block_ser writes the same '
                  f'bytes back: {len(badb)} disagreements' + (f' (blocks {badb[:5]})' if badb else ''))
    if bad:
        ck.tie_broken.append('correspondence binary records (Fmt/FgdBinEnt.v vs _engine_db.ent_serialise/ent_unserialise)')
        ck.extra['binary_record_disagreement'] = {'literal': rows[bad[0]][0], 'bytes': list(rows[bad[0]][1]), 'read_back': rows[bad[0]][2]}
    if badb:
        ck.tie_broken.append('correspondence binary blocks (Fmt/FgdBinEnt.v vs the shipped fgd.lzma)')


def coq_N(xs: Iterable[int]) -> str:
    return '[' + ';'.join(str(int(x)) for x in xs) + ']'


# ----------------------------------------------------------------------------------------------- lazy database
def raw_db():
    import srctools
    from importlib_resources import files
    return (files(srctools) / 'fgd.lzma').read_bytes()


def fresh_db(data: bytes):
    from srctools import _engine_db as E
    return E.unserialise(io.BytesIO(data))


def db_tables(data: bytes) -> dict:
    """Block structure of the shipped file and the base names stored in each definition (decoded with the
    implementation's own ent_unserialise, which is a parameter of the model)."""
    from srctools import _engine_db as E
    db = fresh_db(data)
    names = sorted(k for k in db.ent_map if k != '_cbaseentity_')
    ident = {n: i + 1 for i, n in enumerate(names)}
    blocks, bases = [], {}
    for classes, blob in db.unparsed:
        f = io.BytesIO(blob)
        _, from_dict = E.BinStrDict.unserialise(f, db.base_strings)
        ids = []
        for cn in classes:
            ent = E.ent_unserialise(f, cn, from_dict)
            ids.append(ident[cn.casefold()])
            # '_CBaseEntity_' is decoded when the file is opened and never triggers a block parse
            bs = [b for b in ent.bases if isinstance(b, str) and b.casefold() != '_cbaseentity_']
            if bs:
                bases[ident[cn.casefold()]] = [ident.get(b.casefold(), 0) for b in bs]
        blocks.append(ids)
    return dict(names=names, ident=ident, blocks=blocks, bases=bases, base_strings=len(db.base_strings),
                block_sizes=[len(b) for _, b in db.unparsed])


def data_obligations(ck: Ck, data: bytes, tb: dict) -> None:
    """Premises of c16_lazy_equals_eager / c16_strdict_roundtrip that are facts about the shipped fgd.lzma."""
    from srctools import _engine_db as E
    flat = [c for b in tb['blocks'] for c in b]
    ck.obligation('data:class_names_distinct_across_blocks', len(flat) == len(set(flat)) == len(tb['names']),
                  f'{len(flat)} names in {len(tb["blocks"])} blocks, {len(set(flat))} distinct (premise NoDup of c16_lazy_equals_eager)')
    ck.obligation('data:every_block_has_data', all(s > 0 for s in tb['block_sizes']), 'premise Forall non-empty of c16_lazy_equals_eager')
    ck.obligation('data:shared_dictionary_has_SHARED_STRINGS_entries', tb['base_strings'] == E.SHARED_STRINGS,
                  f'{tb["base_strings"]} shared strings (premise length base = shared of c16_strdict_roundtrip)')
    ck.obligation('data:alias_bases_are_known_classes', all(all(x > 0 for x in v) for v in tb['bases'].values()),
                  f'{len(tb["bases"])} definitions store base names')


def corr_lazy(ck: Ck, data: bytes, tb: dict, via: bool = True) -> None:
    """Which blocks are decoded after each engine-style query: real EngineDB.get_ent vs SM/LazyDb.v get_ent."""
    rng = ck.rng
    names, ident = tb['names'], tb['ident']
    alias_ids = list(tb['bases'])
    inv = {v: k for k, v in ident.items()}
    # corpus (runs first): every alias whose target lives in ANOTHER block asked first on a fresh database, then
    # target-before-alias and alias-before-target
    block_of = {c: i for i, ids in enumerate(tb['blocks']) for c in ids}
    cross = [(a, b) for a, bs in sorted(tb['bases'].items()) for b in bs if b and block_of.get(a) != block_of.get(b)]
    ck.extra['cross_block_aliases'] = [(inv[a], inv[b]) for a, b in cross]
    seqs = []
    for a, b in cross:
        seqs += [[inv[a]], [inv[b], inv[a]], [inv[a], inv[b], inv[a]]]
    for _ in range(ck.budget(24, 200)):
        qs = []
        for _ in range(rng.choice([1, 4, 10, 25])):
            r = rng.random()
            if r < 0.3 and alias_ids:
                qs.append(inv[rng.choice(alias_ids)])
            elif r < 0.4 and qs:
                qs.append(rng.choice(qs))          # repeated query
            elif r < 0.45:
                qs.append('no_such_class_%d' % rng.randint(0, 9))
            else:
                qs.append(rng.choice(names))
        seqs.append(qs)
    rows = []
    for qs in seqs:
        db = fresh_db(data)
        trace = []
        for q in qs:
            res: list[int] = []
            try:
                ent = db.get_ent(q)
                okv = 1 if ent.classname.casefold() == q.casefold() else 2
                # what the stored base names were replaced by: the class of the definition object, 0 = still a name
                for b in ent.bases:
                    nm = b if isinstance(b, str) else b.classname
                    if nm.casefold() != '_cbaseentity_':
                        res.append(0 if isinstance(b, str) else ident.get(nm.casefold(), 0))
            except KeyError:
                okv = 0
            trace.append((okv, [i for i, (_, blob) in enumerate(db.unparsed) if not blob], res))
            ck.hist('lazy_answer_bases', 'none' if not res else ('resolved' if all(res) else 'left-as-name'))
        rows.append((qs, trace))
        ck.count('corr_lazy_sequences')
        ck.hist('lazy_seq_len', len(qs))
        if len(qs) > 1:
            ck.seen(('lazyseq', tuple(qs)))
    ck.sample({'lazy_queries': rows[1][0][:6], 'blocks_decoded_after_each': [t[1] for t in rows[1][1][:6]],
               'bases_of_answers': [t[2] for t in rows[1][1][:6]]})
    pre = PRE + '''
Definition ent0 : Type := (N * list N)%%type.
Definition bases_tbl : list (N * list N) := %s.
Definition bases_of (c : N) : list N := match find (fun p => fst p =? c) bases_tbl with Some p => snd p | None => [] end.
Definition dec (cs : list N) (data : N) : list ent0 := map (fun c => (c, bases_of c)) cs.
Definition blocksN : list (list N * N) := %s.
Definition q1 (d : db N ent0 N) (c : N) := get_full N ent0 N N.eqb dec (fun e => snd e) (N.eqb 0) 0 lazy_via_get_ent (List.length blocksN) d c.
Fixpoint trace (d : db N ent0 N) (qs : list N) : list (N * list nat * list N) :=
  match qs with [] => [] | c :: r => let '(x, d') := q1 d c in
    ((match x with Some (e, _) => if fst e =? c then 1 else 2 | None => 0 end) + (if oof _ _ _ d' then 100 else 0),
     parsed_blocks N ent0 N (N.eqb 0) d',
     match x with Some (_, rb) => map (fun o => match o with Some b => fst b | None => 0 end) rb | None => [] end) :: trace d' r end.
Fixpoint tr_eqb (a b : list (N * list nat * list N)) : bool :=
  match a, b with [], [] => true | (x, l, p) :: a', (y, m, q) :: b' => (x =? y) && nlist_eqb (map N.of_nat l) (map N.of_nat m) && nlist_eqb p q && tr_eqb a' b' | _, _ => false end.
''' % (coq_list('(%d, [%s])' % (k, ';'.join(map(str, v))) for k, v in sorted(tb['bases'].items())),
       coq_list('([%s], %d)' % (';'.join(map(str, ids)), i + 1) for i, ids in enumerate(tb['blocks'])))
    lit = coq_list('([%s], %s)' % (';'.join(str(ident.get(q.casefold(), 0)) for q in qs),
                                   coq_list('(%d, [%s]%%nat, [%s])' % (okv, ';'.join(map(str, pb)), ';'.join(map(str, res)))
                                            for okv, pb, res in trace))
                   for qs, trace in rows)
    vals = ck.coq_eval(IMPORTS, [f'bad_idx (fun c : list N * list (N * list nat * list N) => tr_eqb (trace (init N ent0 N blocksN) (fst c)) (snd c)) 0 {lit}'],
                       name='lazy', preamble=pre, timeout=900)
    if vals is None:
        ck.obligation('correspondence:lazy_db', False, 'model could not be evaluated')
        ck.tie_broken.append('correspondence EngineDB: model evaluation failed')
        return
    bad = parse_coq_N_list(vals[0])
    ck.obligation('correspondence:lazy_db', not bad,
                  f'{len(rows)} query sequences on fresh copies of the shipped database ({len(tb["blocks"])} blocks, {len(names)} classes, '
                  f'{len(alias_ids)} definitions with stored bases): set of decoded blocks, hit/miss and what every stored base '
                  f'name of the answer was replaced by, after every query, EngineDB.get_ent vs SM/LazyDb.v get_full (bases '
                  f'resolved {"through get_ent" if via else "by a look-up in ent_map"}, as read from the source): {len(bad)} disagreements')
    if bad:
        ck.tie_broken.append('correspondence EngineDB.get_ent/_parse_block (SM/LazyDb.v)')
        ck.extra['lazy_disagreement'] = {'queries': rows[bad[0]][0], 'impl_trace': rows[bad[0]][1]}


# ----------------------------------------------------------------------------------------------- several databases
MULTI_UNIVERSE = list('abcdefgh')


def build_engine_db(blocks: list[list[str]], bases: dict[str, list[str]], marks: dict[str, str]) -> Any:
    """A hand-built EngineDB with the real serialisers and a full shared dictionary (as synth_db): class `Syn_<x>` carries the
    keyvalue `kv_<x>` whose default is marks[x] (so that definitions of the same class in different databases differ), alias
    classes store the base names bases[x]."""
    from srctools import _engine_db as E
    from srctools.fgd import EntityDef, EntityTypes, KVDef, ValueTypes
    ents: dict[str, Any] = {}
    for b in blocks:
        for cn in b:
            e = EntityDef(EntityTypes.POINT, 'Syn_' + cn, is_alias=cn in bases)
            e.bases = ['Syn_' + x for x in bases.get(cn, [])]
            e.keyvalues['kv_' + cn] = {frozenset(): KVDef('kv_' + cn, ValueTypes.INT, 'Disp ' + cn, marks[cn])}
            ents[cn] = e
    shared = sorted(['', 'Disp a'] + [f'shared{i:03d}' for i in range(E.SHARED_STRINGS - 2)])
    base_dict = E.BinStrDict(shared, None)
    unparsed, ent_map = [], {}
    for bi, b in enumerate(blocks):
        need: set[str] = set()
        for cn in b:
            E.ent_serialise(ents[cn], io.BytesIO(), lambda x, need=need: (need.add(x), b'\0\0')[1])
        d = E.BinStrDict(need - set(shared), base_dict)
        f = io.BytesIO()
        d.serialise(f)
        for cn in b:
            E.ent_serialise(ents[cn], f, d)
            ent_map[('Syn_' + cn).casefold()] = bi
        unparsed.append((['Syn_' + cn for cn in b], f.getvalue()))
    ent_map['_cbaseentity_'] = EntityDef(EntityTypes.BASE, '_CBaseEntity_')
    return E.EngineDB(ent_map, shared, unparsed)


def gen_multi_scenario(rng: random.Random) -> dict:
    """2-3 databases over one small universe of class names (so that the same class is usually defined by several of them), each
    with 1-3 blocks and alias classes whose bases live in the SAME database (other blocks included; cycles allowed), plus a
    history of engine_def() queries (unknown names included) with FGD.engine_dbase() calls in between."""
    dbs = []
    for di in range(rng.choice([2, 2, 3])):
        cls = rng.sample(MULTI_UNIVERSE, rng.randint(2, 5))
        nb = rng.randint(1, min(3, len(cls)))
        blocks: list[list[str]] = [[] for _ in range(nb)]
        for i, cn in enumerate(cls):
            blocks[i if i < nb else rng.randrange(nb)].append(cn)
        bases = {}
        for cn in cls:
            if rng.random() < 0.35:
                bases[cn] = [rng.choice([x for x in cls if x != cn])]
        dbs.append(dict(blocks=blocks, bases=bases, marks={cn: str(100 * (di + 1) + MULTI_UNIVERSE.index(cn) + 1) for cn in cls}))
    ops: list[Any] = []
    for _ in range(rng.randint(2, 9)):
        r = rng.random()
        if r < 0.12:
            ops.append(None)                                   # FGD.engine_dbase()
        elif r < 0.2:
            ops.append('Syn_zz')
        else:
            ops.append('Syn_' + rng.choice(MULTI_UNIVERSE))
    ops.append(None)
    return dict(dbs=dbs, ops=ops)


def multi_expected(sc: dict, cn: str) -> Optional[tuple[str, list[str]]]:
    """What the property promises for class `Syn_<cn>`: the definition in the first database of the list that has the class,
    with the bases of THAT database: (mark, marks of the bases)."""
    for d in sc['dbs']:
        if cn in d['marks']:
            return d['marks'][cn], [d['marks'].get(b, '?') for b in d['bases'].get(cn, [])]
    return None


def multi_observe(ent: Any) -> tuple[str, list[str]]:
    """(mark, marks of the resolved bases; '' for a base left as a name) of a definition returned by the implementation."""
    cn = ent.classname[4:]
    kv = ent.keyvalues.get('kv_' + cn.casefold(), {}).get(frozenset())
    out = []
    for b in ent.bases:
        if isinstance(b, str):
            out.append('')
        elif b.classname != '_CBaseEntity_':
            bk = b.keyvalues.get('kv_' + b.classname[4:].casefold(), {}).get(frozenset())
            out.append(bk.default if bk is not None else '?')
    return (kv.default if kv is not None else '?'), out


ENGINE_DB_LOCK = threading.RLock()      # srctools.fgd._ENGINE_DB is process-wide: one user at a time (tie stages run beside the searches)


@contextlib.contextmanager
def engine_db_list(dbs: Optional[list]):
    """Run with srctools.fgd._ENGINE_DB replaced (None = not loaded yet); always restored."""
    from srctools import fgd as F
    with ENGINE_DB_LOCK:
        old = F._ENGINE_DB
        F._ENGINE_DB = dbs
        try:
            yield
        finally:
            F._ENGINE_DB = old


def run_multi_impl(sc: dict) -> dict:
    """Run the history on the real EntityDef.engine_def / FGD.engine_dbase over hand-built databases.  Returns per operation the
    observation and the decoded blocks of every database."""
    from srctools.fgd import EntityDef, FGD
    dbs = [build_engine_db(d['blocks'], d['bases'], d['marks']) for d in sc['dbs']]
    steps = []
    with engine_db_list(dbs):
        for op in sc['ops']:
            if op is None:
                whole = FGD.engine_dbase()
                obs: Any = {k[4:]: multi_observe(e) for k, e in whole.entities.items() if k != '_cbaseentity_'}
            else:
                try:
                    obs = multi_observe(EntityDef.engine_def(op.upper() if len(steps) % 5 == 4 else op))
                except KeyError:
                    obs = None
            steps.append((op, obs, [[i for i, (_, blob) in enumerate(db.unparsed) if not blob] for db in dbs]))
    return dict(steps=steps)


def check_multi_scenario(sc: dict) -> list[tuple[str, str]]:
    """[(violation key, text)] of one history."""
    out = []
    try:
        res = run_multi_impl(sc)
    except RecursionError:
        return [('lazy-base-lookups-do-not-terminate', 'engine_def / engine_dbase over several hand-built databases recurses without end')]
    except Exception as ex:   # noqa: BLE001
        return [('lazy-multi-db-raises:' + type(ex).__name__, f'engine_def / engine_dbase over several hand-built databases raises {ex!r}')]
    for i, (op, obs, _) in enumerate(res['steps']):
        before = [o if o is not None else 'engine_dbase()' for o, _, _ in res['steps'][:i]]
        if op is None:
            for cn in MULTI_UNIVERSE:
                want = multi_expected(sc, cn)
                got = obs.get(cn)
                if got != want:
                    which = [j for j, d in enumerate(sc['dbs']) if cn in d['marks']]
                    if got is not None and want is not None and len(which) > 1 and got[0] == sc['dbs'][which[-1]]['marks'][cn]:
                        out.append(('lazy-multi-db-whole-database-has-later-definition',
                                    f'FGD.engine_dbase()[Syn_{cn}] is the definition of database {which[-1]} of the list (mark {got[0]}), '
                                    f'EntityDef.engine_def answers with database {which[0]} (mark {want[0]}); after {before}'))
                    else:
                        out.append(('lazy-multi-db-whole-database-differs', f'FGD.engine_dbase()[Syn_{cn}] = {got}, the first database that '
                                    f'defines the class says {want}; after {before}'))
        else:
            want = multi_expected(sc, op[4:])
            if obs != want:
                if obs is not None and '' in obs[1]:
                    out.append(('lazy-base-unresolved', f'engine_def({op!r}) over {len(sc["dbs"])} databases returned a definition with a '
                                f'base left as a name; after {before}'))
                else:
                    out.append(('lazy-multi-db-lookup-differs', f'engine_def({op!r}) = {obs}, the first database that defines the class '
                                f'says {want}; after {before}'))
    return out


def shrink_multi(sc: dict, key: str) -> dict:
    """Drop operations, classes and aliases while the same violation remains."""
    import copy

    def bad(x: dict) -> bool:
        return any(k == key for k, _ in check_multi_scenario(x))
    cur = sc
    changed = True
    while changed:
        changed = False
        for i in range(len(cur['ops']) - 1, -1, -1):
            t = copy.deepcopy(cur)
            del t['ops'][i]
            if t['ops'] and bad(t):
                cur, changed = t, True
        for di in range(len(cur['dbs'])):
            for cn in list(cur['dbs'][di]['marks']):
                t = copy.deepcopy(cur)
                td = t['dbs'][di]
                if sum(len(b) for b in td['blocks']) <= 1 or any(cn in v for v in td['bases'].values()):
                    continue
                td['blocks'] = [b for b in ([x for x in b if x != cn] for b in td['blocks']) if b]
                td['marks'].pop(cn)
                td['bases'].pop(cn, None)
                if bad(t):
                    cur, changed = t, True
            for cn in list(cur['dbs'][di]['bases']):
                t = copy.deepcopy(cur)
                t['dbs'][di]['bases'].pop(cn)
                if bad(t):
                    cur, changed = t, True
    return cur


MULTI_PRE = '''
Definition ent0 : Type := (N * list N)%type.
Definition mdec (tbl : list (N * list N)) (cs : list N) (data : N) : list ent0 :=
  map (fun c => let k := c + 100 * (data / 100) in (k, map (fun b => b mod 100) (match find (fun p => fst p =? k) tbl with Some p => snd p | None => [] end))) cs.
Definition summ (x : option (ent0 * list (option ent0))) : N * list N :=
  match x with Some (e, rb) => (fst e, map (fun o => match o with Some b => fst b | None => 0 end) rb) | None => (0, []) end.
Definition FUEL := 4%nat.
Fixpoint mtrace (tbl : list (N * list N)) (ds : list (db N ent0 N)) (qs : list N) : list ((N * list N) * list (list nat)) :=
  match qs with [] => [] | c :: r =>
    let '(x, ds') := engine_def N ent0 N N.eqb (mdec tbl) (fun e => snd e) (N.eqb 0) 0 lazy_via_get_ent FUEL ds c in
    (summ x, map (parsed_blocks N ent0 N (N.eqb 0)) ds') :: mtrace tbl ds' r end.
Fixpoint nn_eqb (a b : list (list nat)) : bool :=
  match a, b with [], [] => true | x :: a', y :: b' => nlist_eqb (map N.of_nat x) (map N.of_nat y) && nn_eqb a' b' | _, _ => false end.
Fixpoint mtr_eqb (a b : list ((N * list N) * list (list nat))) : bool :=
  match a, b with [], [] => true | (x, l) :: a', (y, m) :: b' => (fst x =? fst y) && nlist_eqb (snd x) (snd y) && nn_eqb l m && mtr_eqb a' b' | _, _ => false end.
Fixpoint wh_eqb (a b : list (N * list N)) : bool :=
  match a, b with [], [] => true | (x, p) :: a', (y, q) :: b' => (x =? y) && nlist_eqb p q && wh_eqb a' b' | _, _ => false end.
Definition mcase (c : list (N * list N) * list (list (list N * N)) * list N * list ((N * list N) * list (list nat)) * list (N * list N)) : bool :=
  let '(tbl, files, qs, tr, wh) := c in
  mtr_eqb (mtrace tbl (map (init N ent0 N) files) qs) tr
  && wh_eqb (map (fun c => summ (engine_dbase N ent0 N N.eqb (mdec tbl) (fun e => snd e) (N.eqb 0) 0 lazy_via_get_ent engine_dbase_merge FUEL files c))
                 [1; 2; 3; 4; 5; 6; 7; 8]) wh.
'''


def corr_multi(ck: Ck, via: bool, merge_first: bool) -> None:
    """EntityDef.engine_def histories and the final FGD.engine_dbase() over lists of hand-built databases vs SM/LazyDbMulti.v
    engine_def / engine_dbase, the model in the modes read from the source."""
    rng = ck.rng
    rows = []
    for _ in range(ck.budget(40, 300)):
        sc = gen_multi_scenario(rng)
        sc['ops'] = [o for o in sc['ops'] if o is not None] + [None]          # queries, then the whole database once
        try:
            res = run_multi_impl(sc)
        except Exception as ex:   # noqa: BLE001
            ck.notes.append(f'corr_multi: implementation raised {ex!r} on {sc}')
            rows.append((sc, None))
            continue
        rows.append((sc, res))
        ck.count('corr_multi_histories')
        ck.hist('multi_databases', len(sc['dbs']))
        ck.hist('multi_classes_in_both_first_databases', len(set(sc['dbs'][0]['marks']) & set(sc['dbs'][1]['marks'])))
        if len(sc['ops']) > 2:
            ck.seen(('multicorr', repr(sc)))
    ident = {cn: i + 1 for i, cn in enumerate(MULTI_UNIVERSE)}

    def nm(x: str) -> int:
        return int(x) if x.isdigit() else 0
    lits = []
    for sc, res in rows:
        tbl = coq_list('(%d, [%s])' % (int(d['marks'][cn]), ';'.join(str(int(d['marks'][b])) for b in bs if b in d['marks']))
                       for d in sc['dbs'] for cn, bs in sorted(d['bases'].items()))
        files = coq_list(coq_list('([%s], %d)' % (';'.join(str(ident[cn]) for cn in b), 100 * (di + 1) + bi + 1) for bi, b in enumerate(d['blocks']))
                         for di, d in enumerate(sc['dbs']))
        qs = [ident.get(o[4:], 0) for o in sc['ops'] if o is not None]
        if res is None:
            lits.append(f'({tbl}, {files}, {coq_N(qs)}, [], [])')
            continue
        tr = coq_list('((%d, [%s]), %s)' % (nm(obs[0]) if obs else 0, ';'.join(str(nm(x)) for x in (obs[1] if obs else [])),
                                                coq_list('[%s]%%nat' % ';'.join(map(str, pb)) for pb in parsed))
                      for op, obs, parsed in res['steps'] if op is not None)
        whole = res['steps'][-1][1]
        wh = coq_list('(%d, [%s])' % (nm(whole[cn][0]) if cn in whole else 0, ';'.join(str(nm(x)) for x in (whole[cn][1] if cn in whole else [])))
                      for cn in MULTI_UNIVERSE)
        lits.append(f'({tbl}, {files}, {coq_N(qs)}, {tr}, {wh})')
    vals = ck.coq_eval(IMPORTS, [f'bad_idx mcase 0 {coq_list(lits)}'], name='multi', preamble=PRE + MULTI_PRE, timeout=900)
    if vals is None:
        ck.obligation('correspondence:multi_db', False, 'model could not be evaluated')
        ck.tie_broken.append('correspondence several engine databases: model evaluation failed')
        return
    bad = parse_coq_N_list(vals[0])
    ck.obligation('correspondence:multi_db', not bad,
                  f'{len(rows)} histories of EntityDef.engine_def over 2-3 hand-built databases that define the same class names (real '
                  f'serialisers): answer, what its stored base names were replaced by and the decoded blocks of every database after every '
                  f'query, then FGD.engine_dbase() for every class, vs SM/LazyDbMulti.v engine_def / engine_dbase (bases resolved '
                  f'{"through get_ent" if via else "by a look-up in ent_map"}, merge keeps the {"first" if merge_first else "last"} definition, '
                  f'as read from the source): {len(bad)} disagreements')
    if bad:
        ck.tie_broken.append('correspondence EntityDef.engine_def / FGD.engine_dbase (SM/LazyDbMulti.v)')
        ck.extra['multi_disagreement'] = {'scenario': rows[bad[0]][0], 'impl': rows[bad[0]][1]}


# =============================================================================================== type text of keyvalue / IO lines
def impl_type_of(which: str, raw: str, ignore: bool = True) -> Optional[tuple[bool, Any]]:
    """What the real KVDef._parse ('kv') / IODef._parse ('io') make of the PAREN_ARGS text `raw`: (reportable, _type), None when
    they raise.  The type text is not a function of its own in the implementation, so the parsers are run on the shortest token
    lists that are complete lines for every type (plain, spawnflags `= [ ]`, choices `: "n" = [ ]`)."""
    import warnings
    import srctools.fgd as F
    from srctools.tokenizer import IterTokenizer, Token as T
    lst = [(T.EQUALS, '='), (T.NEWLINE, '\n'), (T.BRACK_OPEN, '['), (T.NEWLINE, '\n'), (T.BRACK_CLOSE, ']'), (T.NEWLINE, '\n')]
    streams = [[(T.PAREN_ARGS, raw), (T.NEWLINE, '\n')], [(T.PAREN_ARGS, raw)] + lst, [(T.PAREN_ARGS, raw), (T.COLON, ':'), (T.STRING, 'n')] + lst]
    for st in streams if which == 'kv' else streams[:1]:
        tok = IterTokenizer(iter(st if which == 'kv' else [(T.STRING, 'Name')] + st), 'c16', F.FGDParseError)
        try:
            with warnings.catch_warnings():
                warnings.simplefilter('ignore')
                if which == 'kv':
                    _, o = F.KVDef._parse(F.FGD(), 'name', tok, 'c16', ignore)
                    return bool(o.reportable), o._type
                _, o2 = F.IODef._parse(F.FGD(), tok, ignore)
                return False, o2._type
        except Exception:   # noqa: BLE001
            continue
    return None


def coq_chars(x: str) -> str:
    return '[' + ';'.join(str(ord(c)) for c in x) + ']'


def random_case(rng: random.Random, s: str) -> str:
    r = rng.random()
    if r < 0.25:
        return s
    if r < 0.45:
        return s.upper()
    if r < 0.6:
        return s.title()
    return ''.join(c.upper() if rng.random() < 0.5 else c.lower() for c in s)


def gen_type_text(rng: random.Random) -> tuple[str, str]:
    """A text for the parentheses of a keyvalue / input / output line and its class: a known type name in some spelling
    (any case, blanks around it, a leading '*'), or a custom name (mixed case, digits, underscores)."""
    from srctools.fgd import VALUE_TYPE_LOOKUP
    r = rng.random()
    if r < 0.45:
        body, cls = random_case(rng, rng.choice(sorted(VALUE_TYPE_LOOKUP))), 'known'
    elif r < 0.8:
        body, cls = rng.choice(CUSTOM_TYPES), 'custom'
    elif r < 0.95:
        body = rng.choice('ABCXYZabcxyz_') + ''.join(rng.choice('ABCDEFxyzuvw0123456789_') for _ in range(rng.randint(0, 10)))
        cls = 'custom' if body.casefold() not in VALUE_TYPE_LOOKUP and body != 'ehandle' else 'known'
    else:
        return rng.choice(['', ' ', '*', '* Foo', '**Foo', 'ehandle', 'EHANDLE', ' ehandle ', '*ehandle', 'two words', 'Two  Words ']), 'edge'
    if rng.random() < 0.15:
        body, cls = '*' + body, cls + '+star'
    if rng.random() < 0.3:
        body = rng.choice(['', ' ', '\t', '  ']) + body + rng.choice(['', ' ', '\t '])
        cls += '+blanks'
    return body, cls


def coq_ty(t: Any) -> str:
    from srctools.fgd import ValueTypes
    return 'Known ' + coq_chars(t.value) if isinstance(t, ValueTypes) else 'Custom ' + coq_chars(t)


TYPE_PRE = """Definition ty_eqb (a b : ty) : bool :=
  match a, b with Known x, Known y | Custom x, Custom y => str_eqb x y | _, _ => false end.
Definition res_eqb (a b : bool * ty) : bool := Bool.eqb (fst a) (fst b) && ty_eqb (snd a) (snd b).
(* with ignore_unknown_valuetype=False an unknown type raises *)
Definition strict (r : bool * ty) : option (bool * ty) := match snd r with Known _ => Some r | Custom _ => None end.
Definition ores_eqb (a b : option (bool * ty)) : bool :=
  match a, b with Some x, Some y => res_eqb x y | None, None => true | _, _ => false end.
Definition KV (raw : list N) := trun lower vt_lookup_tab kv_type_prog raw.
Definition IO (raw : list N) := trun lower vt_lookup_tab io_type_prog raw.
"""


def corr_type_text(ck: Ck) -> None:
    """Fmt/FgdTypeText.v with the programs and the table read from the source against the implementation: for generated texts between
    the parentheses (known names in any case, with blanks and a leading '*', custom names with mixed case / digits / underscores, edge
    cases) KVDef._parse and IODef._parse, with and without ignore_unknown_valuetype, == trun ... kv_type_prog / io_type_prog; and the
    PAREN_ARGS token the real Tokenizer reads from what KVDef.export / IODef.export write for a custom type == kv_type_text / io_type_text."""
    from srctools.fgd import IODef, KVDef, ValueTypes
    from srctools.tokenizer import Token as T
    rng = ck.rng
    raws = ['integer', ' *Integer ', 'BOOL', 'Locale_ID', 'BitField32', 'EHANDLE', 'ehandle', ' ehandle', '*X', '', '*', '* Foo', 'Target_Destination']
    classes = ['corpus'] * len(raws)
    for _ in range(ck.budget(160, 1500)):
        raw, cls = gen_type_text(rng)
        raws.append(raw)
        classes.append(cls)
    rows_kv, rows_io, rows_kv_s, rows_io_s, seen = [], [], [], [], set()
    for raw, cls in zip(raws, classes):
        if raw in seen or not raw.isascii():
            continue
        seen.add(raw)
        ck.count('corr_type_text')
        ck.hist('type_text_class', cls)
        if any(c.isupper() for c in raw):
            ck.seen(('typetext', raw))
        for which, loose, strict_rows in (('kv', rows_kv, rows_kv_s), ('io', rows_io, rows_io_s)):
            r = impl_type_of(which, raw, True)
            if r is not None:       # (a complete line for every type exists, so the permissive parsers do not raise)
                loose.append('(%s, (%s, %s))' % (coq_chars(raw), coq_bool(r[0]), coq_ty(r[1])))
            else:
                loose.append('(%s, (false, Custom [0;0;0]))' % coq_chars(raw))
            r2 = impl_type_of(which, raw, False)
            strict_rows.append('(%s, %s)' % (coq_chars(raw), 'None' if r2 is None else 'Some (%s, %s)' % (coq_bool(r2[0]), coq_ty(r2[1]))))
    w_rows = []
    for name in CUSTOM_TYPES + ['lower_case_name', 'MiXeD_9']:
        for which in ('kv', 'io'):
            buf = io.StringIO()
            if which == 'kv':
                KVDef('key', name, 'Key').export(buf)
            else:
                IODef('Fire', name).export(buf, 'input')
            parens = [v for t, v in fgd_tokens(buf.getvalue()) if t is T.PAREN_ARGS]
            w_rows.append('(%s, %s)' % (coq_chars(name), coq_chars(parens[0] if len(parens) == 1 else '<no single PAREN_ARGS token>')))
    for v in ValueTypes:
        buf = io.StringIO()
        KVDef('key', v, 'Key', val_list=[] if v.has_list else None).export(buf)
        parens = [x for t, x in fgd_tokens(buf.getvalue()) if t is T.PAREN_ARGS]
        w_rows.append('(%s, %s)' % (coq_chars(v.value), coq_chars(parens[0] if len(parens) == 1 else '<no single PAREN_ARGS token>')))
    io_rows = []
    for v in ValueTypes:
        buf = io.StringIO()
        IODef('Fire', v).export(buf, 'input')
        parens = [x for t, x in fgd_tokens(buf.getvalue()) if t is T.PAREN_ARGS]
        io_rows.append('(%s, %s)' % (coq_chars(v.value), coq_chars(parens[0] if len(parens) == 1 else '<no single PAREN_ARGS token>')))
    exprs = [
        # IODef.export for every member: the literal spellings and VALUE_TO_IO_DECAY read from the source
        'bad_idx (fun c : list N * list N => str_eqb (io_text_of io_decay_tab io_special_text (fst c)) (snd c)) 0 ' + coq_list(io_rows),
        'bad_idx (fun c : list N * (bool * ty) => res_eqb (KV (fst c)) (snd c)) 0 ' + coq_list(rows_kv),
        'bad_idx (fun c : list N * (bool * ty) => res_eqb (IO (fst c)) (snd c)) 0 ' + coq_list(rows_io),
        'bad_idx (fun c : list N * option (bool * ty) => ores_eqb (strict (KV (fst c))) (snd c)) 0 ' + coq_list(rows_kv_s),
        'bad_idx (fun c : list N * option (bool * ty) => ores_eqb (strict (IO (fst c))) (snd c)) 0 ' + coq_list(rows_io_s),
        # writers: custom names and canonical names are written as they are
        'bad_idx (fun c : list N * list N => str_eqb (kv_type_text (Custom (fst c))) (snd c)) 0 ' + coq_list(w_rows),
    ]
    vals = ck.coq_eval(IMPORTS + ['SV.Fmt.FgdTypeText'], exprs, name='typetext', preamble=PRE + TYPE_PRE, timeout=600)
    if vals is None:
        ck.obligation('correspondence:text_type_text', False, 'model could not be evaluated')
        ck.tie_broken.append('correspondence type text: model evaluation failed')
        return
    bad = [parse_coq_N_list(v) for v in vals]
    names = ['IODef.export members', 'KVDef._parse', 'IODef._parse', 'KVDef._parse strict', 'IODef._parse strict', 'export']
    nbad = sum(len(b) for b in bad)
    ck.obligation('correspondence:text_type_text', nbad == 0,
                  f'{len(rows_kv)} texts between the parentheses x (KVDef._parse, IODef._parse) x (ignore_unknown_valuetype on / off) and '
                  f'{len(w_rows) + len(io_rows)} written type texts (custom names, canonical names, every member on an I/O line) == Fmt/FgdTypeText.v with the programs and VALUE_TYPE_LOOKUP read from the source: '
                  + ', '.join(f'{n}: {len(b)} disagreements' for n, b in zip(names, bad)))
    if nbad:
        ck.tie_broken.append('correspondence type text (Fmt/FgdTypeText.v vs fgd.py)')
        k = next(i for i, b in enumerate(bad) if b)
        rows = [io_rows, rows_kv, rows_io, rows_kv_s, rows_io_s, w_rows][k]
        ck.extra['type_text_disagreement'] = {'site': names[k], 'row': rows[bad[k][0]][:400]}


def type_text_fgd(lines: list[tuple[str, str, str]]) -> str:
    """A hand-written FGD: one entity whose keyvalue / input / output lines carry the given texts between the parentheses."""
    out = ['@PointClass = c16_types : "types"', '\t[']
    for i, (cat, raw, _) in enumerate(lines):
        if cat == 'keyvalue':
            out.append(f'\tkey{i}({raw}) : "Key {i}" : "d{i}" : "a keyvalue"')
        else:
            out.append(f'\t{cat} Io{i}({raw}) : "an {cat}"')
    out += ['\t]', '']
    return '\n'.join(out)


def check_type_text(lines: list[tuple[str, str, str]]) -> list[tuple[str, str]]:
    """[(key, what)] for a hand-written FGD with the given type texts: every custom name must be kept as written (stripped), every
    spelling of a known name must give that member; export -> parse must give the same definitions and the same text again."""
    from srctools.fgd import VALUE_TYPE_LOOKUP, ValueTypes
    from srctools.tokenizer import TokenSyntaxError
    text = type_text_fgd(lines)
    try:
        f1 = parse_text(text, True)
    except (TokenSyntaxError, ValueError, KeyError) as e:
        return [('type-text-parse-error', f'hand-written FGD with custom value types does not parse with ignore_unknown_valuetype=True: {str(e)[:200]}')]
    ent = f1.entities['c16_types']
    out = []
    for i, (cat, raw, _) in enumerate(lines):
        name = f'key{i}' if cat == 'keyvalue' else f'io{i}'
        tm = getattr(ent, cat + 's').get(name)
        if not tm:
            out.append((f'type-text-line-lost:{cat}', f'the {cat} line with type text {raw!r} is not in the parsed entity'))
            continue
        got = next(iter(tm.values()))._type
        body = raw.strip()
        if cat == 'keyvalue' and body.startswith('*'):
            body = body[1:]
        want: Any = ValueTypes.EHANDLE if (cat != 'keyvalue' and body == 'ehandle') else VALUE_TYPE_LOOKUP.get(body.casefold(), body)
        if got != want:
            kind = 'known-type-not-recognised' if isinstance(want, ValueTypes) else 'custom-type-name-not-kept'
            out.append((f'type-text-{kind}:{cat}', f'{cat} line `({raw})` parsed with ignore_unknown_valuetype=True has type {got!r}, expected {want!r}'))
    if out:
        return out
    t1 = f1.export()
    try:
        f2 = parse_text(t1, True)
    except (TokenSyntaxError, ValueError, KeyError) as e:
        return [('type-text-export-unparseable', f'export of the parsed FGD does not parse: {str(e)[:200]}')]
    c1, c2 = canon_ent(ent), canon_ent(f2.entities['c16_types'])
    d = diff_fields(c1, c2)
    if d:
        bad = [(a, b) for f in d for a, b in zip(c1[f], c2[f]) if a != b][:2]
        return [(f'type-text-definition-changed:{"+".join(d)}', f'export -> parse changed {d}: {bad}')]
    t2 = f2.export()
    if t1 != t2:
        l1, l2 = t1.splitlines(), t2.splitlines()
        j = next((j for j, (x, y) in enumerate(zip(l1, l2)) if x != y), min(len(l1), len(l2)))
        return [('type-text-text-not-fixed-point', f'second export differs: {l1[j:j + 1]} vs {l2[j:j + 1]}')]
    return []


def search_type_text(ck: Ck) -> None:
    """Text -> parse -> export -> parse -> export for hand-written entities whose keyvalue, input and output lines carry custom value
    type names and mixed-case spellings of the known ones, through FGD.parse_file(ignore_unknown_valuetype=True); and the strict
    parser must refuse exactly the unknown names."""
    from srctools.fgd import VALUE_TYPE_LOOKUP
    from srctools.tokenizer import TokenSyntaxError
    rng = ck.rng
    for i in range(ck.budget(60, 800)):
        lines = []
        for _ in range(rng.randint(1, 6)):
            cat = rng.choice(['keyvalue', 'input', 'output'])
            for _try in range(20):
                raw, cls = gen_type_text(rng)
                body = raw.strip().lstrip('*').strip()
                # a name the format cannot carry is not an input of this search: empty, blanks inside, list types on a keyvalue
                # line without list, a '*' that is not the single leading report mark of a keyvalue
                if cls == 'edge' and raw.strip() not in ('ehandle', 'EHANDLE'):
                    continue
                if not body or ' ' in body or '\t' in body or (cat == 'keyvalue' and body.casefold() in ('choices', 'flags')):
                    continue
                if '*' in raw and (cat != 'keyvalue' or raw.strip().count('*') != 1 or raw.strip()[1:] != raw.strip()[1:].strip()):
                    continue
                break
            else:
                continue
            lines.append((cat, raw, cls))
        if not lines:
            continue
        ck.count('search_type_text')
        for cat, raw, cls in lines:
            ck.hist('type_text_lines', f'{cat}:{cls.split("+")[0]}')
        if any(c.isupper() for _, raw, _ in lines for c in raw):
            ck.seen(('typetextfgd', tuple(lines)))
        found = check_type_text(lines)
        # the strict parser: a file with an unknown name must be refused, a file without must parse
        unknown = [raw for cat, raw, _ in lines
                   if (raw.strip()[1:] if cat == 'keyvalue' and raw.strip().startswith('*') else raw.strip()).casefold() not in VALUE_TYPE_LOOKUP
                   and not (cat != 'keyvalue' and raw.strip() == 'ehandle')]
        try:
            parse_text(type_text_fgd(lines), False)
            if unknown:
                found.append(('type-text-strict-parser-accepts-unknown-type', f'FGD.parse_file without ignore_unknown_valuetype accepted {unknown[:2]}'))
        except TokenSyntaxError as e:
            if not unknown:
                found.append(('type-text-strict-parser-refuses-known-type', f'FGD.parse_file refuses a file with known types only: {str(e)[:160]}'))
        for key, what in found:
            small = list(lines)
            for ln in list(small):           # shrink: drop lines while the same key is reported
                cand = [x for x in small if x is not ln]
                if cand and any(k == key for k, _ in check_type_text(cand)):
                    small = cand
            if not any(k == key for k, _ in check_type_text(small)):
                small = list(lines)
            ck.violation(key, what, {'kind': 'type_text', 'lines': [list(x) for x in small], 'text': type_text_fgd(small)})


def corr_kind_keyword(ck: Ck) -> None:
    """Fmt/FgdKindKw.v with the objects read from the source against the implementation: the first token of what EntityDef.export writes
    for every kind == kind_written; FGD.parse_file on `<keyword> = name [ ]` with the keyword of every kind in random case, unknown
    '@' keywords and bare words == kw_dispatch (the kind it creates / a parse error)."""
    from srctools.fgd import EntityDef, EntityTypes
    from srctools.tokenizer import TokenSyntaxError
    rng = ck.rng
    w_rows, d_rows = [], []
    for kind in EntityTypes:
        buf = io.StringIO()
        EntityDef(kind, 'c16_kind').export(buf)
        first = fgd_tokens(buf.getvalue())[0][1]
        w_rows.append('(%s, %s)' % (coq_chars(kind.value), coq_chars(first)))
    words = ['@' + k.value for k in EntityTypes] * 3 + ['@fooclass', 'pointclass', '@', '@point class'.replace(' ', '_'), '@classpoint', '@BaseClas', 'x']
    for w in words:
        kw = random_case(rng, w)
        ck.count('corr_kind_keyword')
        ck.hist('kind_keyword', 'kind' if w[1:] in {k.value for k in EntityTypes} and w.startswith('@') else 'other')
        try:
            f = parse_text(f'{kw} = c16_kind : "d"\n\t[\n\t]\n')
            got = 'KKind ' + coq_chars(f.entities['c16_kind'].type.value)
        except TokenSyntaxError:
            got = 'KError'
        d_rows.append('(%s, %s)' % (coq_chars(kw), got))
    exprs = ['bad_idx (fun c : list N * list N => str_eqb (kind_written kind_writer_ops (fst c)) (snd c)) 0 ' + coq_list(w_rows),
             'bad_idx (fun c : list N * kw => kw_eqb (kw_dispatch pf_token_folded pf_directives entity_kind_values (fst c)) (snd c)) 0 ' + coq_list(d_rows)]
    vals = ck.coq_eval(IMPORTS + ['SV.Fmt.FgdKindKw'], exprs, name='kindkw', preamble=PRE, timeout=600)
    if vals is None:
        ck.obligation('correspondence:text_kind_keyword', False, 'model could not be evaluated')
        ck.tie_broken.append('correspondence kind keyword: model evaluation failed')
        return
    bad = [parse_coq_N_list(v) for v in vals]
    ck.obligation('correspondence:text_kind_keyword', not bad[0] and not bad[1],
                  f'{len(w_rows)} kinds as written by EntityDef.export and {len(d_rows)} top-level keywords through FGD.parse_file == Fmt/FgdKindKw.v with '
                  f'the directive list, token normalisation and writer operations read from the source: {len(bad[0])} + {len(bad[1])} disagreements')
    if bad[0] or bad[1]:
        ck.tie_broken.append('correspondence kind keyword (Fmt/FgdKindKw.v vs fgd.py)')
        ck.extra['kind_keyword_disagreement'] = {'writer': [w_rows[i] for i in bad[0][:2]], 'dispatch': [d_rows[i] for i in bad[1][:2]]}


# =============================================================================================== blocks of the binary database
def impl_build_blocks(sizes: list[int], pairs: list[tuple[int, int]]) -> list[list[int]]:
    """The real _engine_db.build_blocks on entities 0..n-1 (it only uses them as dictionary keys): the blocks in the order returned."""
    import srctools._engine_db as E
    n = len(sizes)
    with contextlib.redirect_stdout(io.StringIO()):
        out = E.build_blocks(list(range(n)), {i: {f's{i}'} for i in range(n)}, dict(enumerate(sizes)), [(a, b, 0) for a, b in pairs])
    return [list(ents) for ents, _ in out]


def gen_block_case(rng: random.Random, max_size: int) -> tuple[list[int], list[tuple[int, int]]]:
    """Sizes on the scale of MAX_BLOCK_SIZE (blocks fill with 2-8 entities) and a random list of overlapping pairs: some entities
    in no pair at all, pairs that merge blocks, pairs refused because a block is full."""
    n = rng.randint(1, 14)
    scale = rng.choice([max_size // 2, max_size // 3, max_size // 5, max_size // 9, max_size + 1])
    sizes = [rng.randint(max(1, scale // 2), scale) for _ in range(n)]
    in_pairs = [i for i in range(n) if rng.random() < rng.choice([0.4, 0.7, 0.95])]
    pairs = []
    for _ in range(rng.randint(0, 2 * n)):
        if len(in_pairs) >= 2:
            a, b = rng.sample(in_pairs, 2)
            pairs.append((a, b))
    return sizes, pairs


def check_blocks(sizes: list[int], pairs: list[tuple[int, int]]) -> Optional[str]:
    got = impl_build_blocks(sizes, pairs)
    flat = sorted(e for b in got for e in b)
    if flat != list(range(len(sizes))):
        lost = sorted(set(range(len(sizes))) - set(flat))
        twice = sorted({e for e in flat if flat.count(e) > 1})
        return f'build_blocks: entities {lost} are in no block, {twice} in more than one (blocks {got})'
    if any(not b for b in got):
        return f'build_blocks returns a block without entities: {got}'
    return None


def corr_blocks(ck: Ck) -> None:
    """SM/FgdBlocks.v with the configuration read from the source against the real build_blocks: generated sizes and pair lists ->
    the same blocks with the same entities in the same order (compared as sorted lists of blocks: the final sort by length is stable
    but not modelled); the leftovers are given to the model in the iteration order of a Python set built like `todo`."""
    import srctools._engine_db as E
    rng = ck.rng
    max_size = int(E.MAX_BLOCK_SIZE)
    cases = [([5, 5, 5], [(0, 1)]), ([max_size] * 3, []), ([1], []), ([max_size // 2] * 6, [(0, 1), (2, 3), (1, 2), (4, 5)])]
    for _ in range(ck.budget(120, 1500)):
        cases.append(gen_block_case(rng, max_size))
    rows, want = [], []
    for sizes, pairs in cases:
        got = impl_build_blocks(sizes, pairs)
        order_all = list(set(range(len(sizes))))     # the iteration order of a set built like `todo`; the model keeps the unplaced ones
        rows.append('(%s, %s, %s)' % (coq_list(str(x) for x in sizes), coq_list('(%d, %d)' % p for p in pairs), coq_list(str(x) for x in order_all)))
        want.append(sorted(got))
        ck.count('corr_blocks')
        ck.hist('blocks_shape', f'{min(len(got), 4)}+ blocks' if len(got) >= 4 else f'{len(got)} blocks')
        if len(got) > 1 and pairs:
            ck.seen(('blocks', tuple(sizes), tuple(pairs)))
    expr = ('map (fun c : list N * list (N * N) * list N => let \'(sizes, pairs, ord) := c in let sz := fun e => nth (N.to_nat e) sizes 0 in '
            'let bl := pair_loop gen_bcfg sz max_block_size pairs in '
            'build_with gen_bcfg sz max_block_size pairs (filter (fun e => negb (memN e (List.concat bl))) ord)) ' + coq_list(rows))
    vals = ck.coq_eval(IMPORTS + ['SV.SM.FgdBlocks'], [expr], name='blocks', preamble=PRE, timeout=600)
    if vals is None:
        ck.obligation('correspondence:binary_block_builder', False, 'model could not be evaluated')
        ck.tie_broken.append('correspondence build_blocks: model evaluation failed')
        return
    model = parse_coq_nested(vals[0])
    bad = [i for i, (m, w) in enumerate(zip(model, want)) if sorted(m) != w]
    ck.obligation('correspondence:binary_block_builder', not bad and len(model) == len(want),
                  f'{len(want)} generated (sizes, overlapping pairs): blocks of the real build_blocks == build_with gen_bcfg (SM/FgdBlocks.v, configuration read '
                  f'from the source), entities in the same order inside every block: {len(bad)} disagreements')
    if bad:
        ck.tie_broken.append('correspondence build_blocks (SM/FgdBlocks.v vs _engine_db.py)')
        ck.extra['blocks_disagreement'] = {'sizes': cases[bad[0]][0], 'pairs': cases[bad[0]][1], 'impl': want[bad[0]], 'model': sorted(model[bad[0]])}


def search_blocks(ck: Ck) -> None:
    """The property of the block builder on the real build_blocks: every entity in exactly one block, no empty block."""
    import srctools._engine_db as E
    rng = ck.rng
    max_size = int(E.MAX_BLOCK_SIZE)
    for _ in range(ck.budget(400, 6000)):
        sizes, pairs = gen_block_case(rng, max_size)
        ck.count('search_blocks')
        what = check_blocks(sizes, pairs)
        if what is None:
            continue
        # shrink: drop pairs, then trailing entities
        key = 'binary-blocks-empty-block' if 'without entities' in what else 'binary-blocks-entity-not-in-exactly-one-block'
        cls = lambda w: w is not None and (('without entities' in w) == (key == 'binary-blocks-empty-block'))   # noqa: E731
        changed = True
        while changed:
            changed = False
            for i in range(len(pairs)):
                cand = pairs[:i] + pairs[i + 1:]
                if cls(check_blocks(sizes, cand)):
                    pairs, changed = cand, True
                    break
            if not changed and len(sizes) > 1 and all(a < len(sizes) - 1 and b < len(sizes) - 1 for a, b in pairs) and cls(check_blocks(sizes[:-1], pairs)):
                sizes, changed = sizes[:-1], True
        ck.violation(key, check_blocks(sizes, pairs) or what, {'kind': 'blocks', 'sizes': sizes, 'pairs': [list(p) for p in pairs]})


# =============================================================================================== canonical definitions
def canon_attr(v: Any, io_kind: bool, choice_norm: bool = True) -> tuple:
    from srctools.fgd import VALUE_TO_IO_DECAY, KVDef, ValueTypes
    typ = v._type
    if io_kind:
        if isinstance(typ, ValueTypes):
            typ = VALUE_TO_IO_DECAY[typ]
        return ('io', v.name, typ, v.desc)
    assert isinstance(v, KVDef)
    default = v.default
    if typ is ValueTypes.BOOL:      # the writer fills in '0', the parser turns the old yes/no into 1/0
        default = {'': '0', 'yes': '1', 'no': '0'}.get(default.casefold(), default)
    vl = None
    if v.val_list:
        vl = []
        for item in v.val_list:
            item = list(item)
            name_ix = 1
            item[name_ix] = item[name_ix].replace('\n', ' ')
            item[-1] = tuple(sorted(item[-1]))
            vl.append(tuple(item))
    return ('kv', v.name, typ, v.disp_name, default, v.desc, vl, v.readonly, v.reportable)


def canon_ent(e: Any, custom: bool = True) -> dict:
    """Observable content of an EntityDef.  custom=False: what the un-extended syntax can carry at all."""
    from srctools.fgd import EntityDef
    order = {n: i for i, n in enumerate(e.kv_order)}
    kvs = []
    for name, tm in sorted(e.keyvalues.items(), key=lambda kv: order.get(kv[0], 1 << 60)):
        for tags, kv in tm.items():
            kvs.append((name, tuple(sorted(tags)) if custom else (), canon_attr(kv, False)))
    ios = {}
    for cat in ('inputs', 'outputs'):
        ios[cat] = [(name, tuple(sorted(tags)) if custom else (), canon_attr(v, True))
                    for name, tm in getattr(e, cat).items() for tags, v in tm.items()]
    helpers = [(type(h).__name__, getattr(h, 'name', None), tuple(h.export())) for h in e.helpers
               if custom or not h.IS_EXTENSION]
    res: Any = None
    if custom:
        res = None if e.resources == () else [(r.filename, r.type.name, tuple(sorted(r.tags))) for r in e.resources]
    return dict(type=e.type.name, classname=e.classname, bases=[b.classname if isinstance(b, EntityDef) else b for b in e.bases],
                helpers=helpers, desc=e.desc, keyvalues=kvs, inputs=ios['inputs'], outputs=ios['outputs'], resources=res,
                is_alias=e.is_alias if custom else None)


def mask_unsafe(a: Any, b: Any) -> tuple[Any, Any]:
    """custom_syntax=False cannot represent ", \\ and CR: blank such strings of the original on both sides."""
    if isinstance(a, str):
        return ('<unrepresentable>', '<unrepresentable>') if not std_safe(a) and isinstance(b, str) else (a, b)
    if isinstance(a, (list, tuple)) and isinstance(b, (list, tuple)) and len(a) == len(b):
        pairs = [mask_unsafe(x, y) for x, y in zip(a, b)]
        return type(a)(p[0] for p in pairs), type(b)(p[1] for p in pairs)
    if isinstance(a, dict) and isinstance(b, dict) and a.keys() == b.keys():
        pairs2 = {k: mask_unsafe(a[k], b[k]) for k in a}
        return {k: v[0] for k, v in pairs2.items()}, {k: v[1] for k, v in pairs2.items()}
    return a, b


def diff_fields(a: dict, b: dict) -> list[str]:
    return [k for k in a if a[k] != b.get(k)]


def parse_text(text: str, unknown_types: bool = False):
    """FGD.parse_file on a text; unknown_types=True: ignore_unknown_valuetype=True (custom value types are kept as strings)."""
    import warnings
    from srctools.fgd import FGD
    from srctools.filesys import VirtualFileSystem
    vfs = VirtualFileSystem({'c16.fgd': text})
    f = FGD()
    if unknown_types:
        with warnings.catch_warnings():
            warnings.simplefilter('ignore')
            f.parse_file(vfs, vfs['c16.fgd'], ignore_unknown_valuetype=True)
    else:
        f.parse_file(vfs, vfs['c16.fgd'])
    return f


def has_custom_types(fgd: Any) -> bool:
    return any(isinstance(v._type, str) for e in fgd.entities.values() for cat in ('keyvalues', 'inputs', 'outputs')
               for tm in getattr(e, cat).values() for v in tm.values())


def roundtrip_fgd(fgd: Any, opts: dict) -> dict:
    """export -> parse -> export.  Returns {'error'|'changed'|'not_fixed'|None ...}."""
    from srctools.tokenizer import TokenSyntaxError
    try:
        t1 = fgd.export(**opts)
    except Exception as e:   # noqa: BLE001
        return {'stage': 'export', 'error': f'{type(e).__name__}: {e}'[:300]}
    unknown = has_custom_types(fgd)     # custom value types need the parser option that keeps them
    try:
        f2 = parse_text(t1, unknown)
    except Exception as e:   # noqa: BLE001   (TokenSyntaxError is the documented one; anything else is reported the same way)
        return {'stage': 'parse', 'error': f'{type(e).__name__}: {str(e)[:240]}', 'text': t1}
    custom = opts['custom_syntax']
    changed = {}
    for k, e in fgd.entities.items():
        e2 = f2.entities.get(k)
        if e2 is None:
            changed[k] = ['<missing>']
            continue
        c1, c2 = canon_ent(e, custom), canon_ent(e2, custom)
        if not custom:
            c1, c2 = mask_unsafe(c1, c2)
        d = diff_fields(c1, c2)
        if d:
            changed[k] = d
    extra = set(f2.entities) - set(fgd.entities)
    if extra:
        changed['<extra>'] = sorted(extra)
    if changed:
        return {'stage': 'compare', 'changed': changed, 'text': t1, 'parsed': f2}
    t2 = f2.export(**opts)
    if t1 != t2:
        l1, l2 = t1.splitlines(), t2.splitlines()
        i = next((i for i, (x, y) in enumerate(zip(l1, l2)) if x != y), min(len(l1), len(l2)))
        return {'stage': 'fixpoint', 'line': i, 'first': l1[i:i + 1], 'second': l2[i:i + 1], 'text': t1}
    return {'stage': 'ok', 'text_len': len(t1)}


# =============================================================================================== search: long strings
def search_longstring(ck: Ck) -> None:
    rng = ck.rng
    n = ck.budget(1500, 12000)
    corpus = [(True, ''), (False, ''), (True, 'q' * 999 + '"z'), (False, 'q' * 999 + '\nz'), (True, 'q' * 1998 + '\\z')]
    for i in range(n):
        if i < len(corpus):
            ext, text = corpus[i]
        else:
            ext = rng.random() < 0.6
            text = gen_text(rng, rng.choice(TEXT_KINDS), safe=not ext)
        if not ext and not std_safe(text):
            continue
        indent = rng.choice(['\t', '\t\t'])
        tail = rng.choice(['\n', ' : 0\n', ' =\n'])
        ok, out, back = longstring_case(ext, text, indent, tail)
        ck.count('search_longstring')
        ck.hist('longstring_kind', ('ext' if ext else 'plain') + (':split' if ' +\n' in out else ':single'))
        if ' +\n' in out or any(c in text for c in '"\\\n\t'):
            ck.seen(('ls', ext, text))
        over = [s for s in out.split(' +\n' + indent) if len(s) > 1002]
        if ok and not over:
            continue
        key = classify_longstring(ext, text, out, indent) if not over else 'longstring:section-over-limit'

        def still(s: str, key=key, ext=ext, indent=indent, tail=tail) -> bool:
            if not ext and not std_safe(s):
                return False
            ok2, out2, _ = longstring_case(ext, s, indent, tail)
            return (not ok2) and classify_longstring(ext, s, out2, indent) == key
        small = shrink_text(still, text) if not over else text
        _, out_s, back_s = longstring_case(ext, small, indent, tail)
        ck.violation(key, f'_write_longstring(extended={ext}) output does not read back as the text it was given '
                          f'(text of {len(small)} chars; read back: {("error" if back_s is None else repr(back_s[-30:]))})',
                     {'kind': 'longstring', 'extended': ext, 'indent': indent, 'tail': tail, 'text': small,
                      'written_tail': out_s[-60:], 'read_back_tail': None if back_s is None else back_s[-60:]})


# =============================================================================================== search: bundled database
def locate_db_failure(fgd: Any, opts: dict) -> tuple[str, dict]:
    """The whole export did not parse: find one entity and one keyvalue that reproduces it alone."""
    from srctools.fgd import FGD, EntityDef, KVDef
    for ent in fgd.entities.values():
        solo = FGD()
        e2 = EntityDef(ent.type, ent.classname)
        e2.keyvalues, e2.inputs, e2.outputs, e2.kv_order, e2.desc = ent.keyvalues, ent.inputs, ent.outputs, ent.kv_order, ent.desc
        solo.entities[ent.classname.casefold()] = e2
        r = roundtrip_fgd(solo, opts)
        if r['stage'] in ('parse', 'export'):
            for name, tm in ent.keyvalues.items():
                for tags, kv in tm.items():
                    one = FGD()
                    e3 = EntityDef(ent.type, ent.classname)
                    e3.keyvalues[name] = {tags: kv}
                    one.entities[ent.classname.casefold()] = e3
                    r3 = roundtrip_fgd(one, opts)
                    if r3['stage'] in ('parse', 'export'):
                        cls = 'empty-display-name' if isinstance(kv, KVDef) and kv.disp_name == '' else f'keyvalue:{ent.classname}.{name}'
                        return cls, {'classname': ent.classname, 'keyvalue': repr(kv), 'error': r3.get('error'),
                                     'exported': one.export(**opts)}
            return f'entity:{ent.classname}', {'classname': ent.classname, 'error': r.get('error')}
    return 'whole-file-only', {}


def search_bundled(ck: Ck) -> None:
    from srctools.fgd import FGD
    with ENGINE_DB_LOCK:
        fgd = FGD.engine_dbase()
    ck.extra['bundled_entities'] = len(fgd.entities)
    # quick tier: both syntaxes, once with and once without spawnflag labels; all four combinations in the thorough tier
    # and as soon as any tie is broken
    for opts in (OPTS if ck.budget(2, 4) == 4 else [OPTS[0], OPTS[3]]):
        on = opt_name(opts)
        r = roundtrip_fgd(fgd, opts)
        ck.count('search_bundled_entities', len(fgd.entities))
        ck.seen(('bundled', on))
        if r['stage'] == 'ok':
            ck.hist('bundled_db', on + ':ok')
            continue
        ck.hist('bundled_db', on + ':' + r['stage'])
        if r['stage'] in ('parse', 'export'):
            cls, info = locate_db_failure(fgd, opts)
            ck.violation(f'bundled-db-export-unparseable:{cls}',
                         f'FGD.engine_dbase().export({on}) cannot be parsed back: {r["error"]}',
                         {'kind': 'bundled', 'opts': opts, 'located': info})
        elif r['stage'] == 'compare':
            fields: dict[str, list[str]] = {}
            for cn, fl in r['changed'].items():
                for f in fl:
                    fields.setdefault(str(f), []).append(cn)
            for f, cns in sorted(fields.items()):
                ck.violation(f'bundled-db-definition-changed:{f}',
                             f'{len(cns)} entities of the bundled database differ in "{f}" after export({on}) -> parse (e.g. {cns[:3]})',
                             {'kind': 'bundled', 'opts': opts, 'field': f, 'entities': cns[:10]})
        else:
            ck.violation('bundled-db-text-not-fixed-point',
                         f'second export({on}) differs from the first at line {r["line"]}: {r["first"]} vs {r["second"]}',
                         {'kind': 'bundled', 'opts': opts, 'line': r['line'], 'first': r['first'], 'second': r['second']})


# =============================================================================================== search: generated FGDs
HELPER_POOL = [('halfgridsnap', []), ('size', ['-8 -8 -8', '8 8 8']), ('size', ['16 16 16']), ('color', ['255 128 0']),
               ('sphere', ['radius']), ('sphere', ['radius', '255 0 0']), ('line', ['255 255 255', 'targetname', 'target']),
               ('origin', ['originkey']), ('iconsprite', ['editor/foo.vmt']), ('studio', ['models/editor/foo.mdl']), ('studio', []),
               ('studioprop', []), ('wirebox', ['mins', 'maxs']), ('sidelist', ['sides']), ('lightcone', []), ('decal', []),
               ('@custom', ['a', 'b c']), ('@other', []),
               # round 5: BLANK arguments at every position (the writer leaves an empty slot, the reader must keep it)
               ('frustum', ['lightfov', '', '', 'lightcolor', '-1']), ('@worldtext_ex', ['message', '', 'textsize']), ('@lead', ['', 'x']),
               ('@trail', ['x', '']), ('@two', ['', '']), ('@many', ['', 'a', '', '', 'b', '']), ('line', ['255 255 255', '', 'target']),
               ('wirebox', ['', 'maxs']), ('wirebox', ['mins', '']), ('sphere', ['', '255 0 0']), ('lightcone', ['', 'key']),
               ('cylinder', ['255 255 255', 'a', '', 'b'])]
# the one list the format does not carry: a sole blank argument is written `name()` and read as no argument (c16_helper_args_sole_blank)
SOLE_BLANK_POOL = [('@sole', [''])]
EXT_HELPER_POOL = [('appliesto', ['TF2', 'P2']), ('appliesto', ['!CSGO'])]
KV_NAMES = ['targetname', 'speed', 'model', 'skin', 'StartDisabled', 'message', 'rendercolor', 'angles', 'spawnflags', 'origin',
            'health', 'damage_type', 'Filter01', 'soundscape', '_light', 'wait']
DEFAULTS = ['', '', '0', '1', '-5', '10', '0 0 0', '255 255 255 200', 'models/props/box.mdl', 'Some text', '1.5', '-1.25', 'no way',
            'sprites/glow01.vmt', 'a-b', '0.0']
# round 6: near-numbers (int() accepts some of them, the digits-and-minus test of KVDef.export others): see search_near_number_defaults
NEAR_DEFAULTS = ['+90', ' 7', '7 ', '1_000', '--1', '1-', '-', '+', '- 5']
RISKY_DEFAULTS = ['say "hi"', 'materials\\tools\\nodraw', "it's", 'two\nlines', 'tab\there', '\\']
# custom (unknown to srctools) value type names: mixed case, digits, underscores; none is a spelling of a known type or of `ehandle`
CUSTOM_TYPES = ['Locale_ID', 'BitField32', 'ultra_void', 'int1024', 'Mode_Enum', 'EHANDLE_2', 'Thing_Handle', 'X', 'vector3D', 'String_T',
                'INTEGERS', 'Bool_', 'a.b', 'Flags2', 'EHandle']
TAGSETS = [frozenset(), frozenset({'TF2'}), frozenset({'HL2', 'EP1'}), frozenset({'!P2'}), frozenset({'+CSGO', 'SRCTOOLS'}),
           frozenset({'SINCE_L4D'})]


def gen_fgd(rng: random.Random, plain: bool, ck: Optional[Ck] = None):
    """A random FGD built from the public object model.  plain=True: only what custom_syntax=False can carry."""
    from srctools.const import FileType
    from srctools.fgd import (FGD, HELPER_IMPL, RESTYPE_TO_NAME, EntityDef, EntityTypes, HelperTypes, IODef, KVDef, Resource,
                              UnknownHelper, ValueTypes)
    fgd = FGD()
    ents: list[Any] = []
    kinds = [k for k in EntityTypes if k is not EntityTypes.EXTEND]
    txt = lambda *kinds_: gen_text(rng, rng.choice(kinds_), safe=plain)   # noqa: E731
    for i in range(rng.randint(1, 4)):
        cn = rng.choice(['ent', 'Func', 'npc', 'info', 'Prop']) + f'_{rng.choice(["door", "Maker", "x", "thing"])}_{i}'
        e = EntityDef(rng.choice(kinds), cn)
        if ents and rng.random() < 0.5:
            e.bases = rng.sample(ents, min(len(ents), rng.randint(1, 2)))
        if ents and not plain and rng.random() < 0.15:
            e.bases = [rng.choice(ents)]
            e.is_alias = True
        for _ in range(rng.choice([0, 0, 1, 2, 3])):
            hname, hargs = rng.choice(HELPER_POOL if plain or rng.random() < 0.7 else EXT_HELPER_POOL)
            try:
                if hname.startswith('@'):
                    e.helpers.append(UnknownHelper(hname[1:], list(hargs)))
                else:
                    e.helpers.append(HELPER_IMPL[HelperTypes(hname)].parse(list(hargs)))
            except (ValueError, TypeError, KeyError):
                pass
        e.desc = txt('empty', 'short', 'special', 'long', 'cut')
        names = rng.sample(KV_NAMES, rng.randint(0, 6))
        for name in names:
            variants = [frozenset()]
            if not plain and rng.random() < 0.35:
                variants = rng.sample(TAGSETS, rng.choice([1, 2, 3]))   # tagged duplicates of one key
            for tags in variants:
                typ = rng.choice(list(ValueTypes))
                if ck is not None:
                    ck.hist('gen_kv_type', typ.name)
                if typ is ValueTypes.SPAWNFLAGS:
                    powers = rng.sample(range(0, 24), rng.randint(0, 5))
                    vl: Any = [(1 << p, txt('short', 'short', 'special', 'empty').replace('\n', ' ').strip(), rng.random() < 0.5,
                                frozenset() if plain else rng.choice(TAGSETS)) for p in sorted(powers)]
                    kv = KVDef(name, typ, name, '', '', vl or None)
                elif typ is ValueTypes.CHOICES:
                    vals = rng.sample(['0', '1', '2', '-1', '1.5', 'abc', 'on', 'models/x.mdl', '16'] + ([] if plain else ['a"b', 'c\\d']),
                                      rng.randint(0, 4))
                    vl = [(v, gen_text(rng, rng.choice(['short', 'short', 'empty']), safe=True).replace('\n', ' '),
                           frozenset() if plain else rng.choice(TAGSETS)) for v in vals]
                    kv = KVDef(name, typ, txt('short', 'empty', 'special'), rng.choice(DEFAULTS), txt('empty', 'short', 'long'), vl or None)
                else:
                    if rng.random() < 0.12:
                        typ = rng.choice(CUSTOM_TYPES)       # kept as a string: KVDef.custom_type
                        if ck is not None:
                            ck.hist('gen_custom_type', 'keyvalue')
                    kv = KVDef(name, typ, txt('short', 'short', 'empty', 'special'),
                               rng.choice(DEFAULTS + NEAR_DEFAULTS if plain or rng.random() < 0.85 else RISKY_DEFAULTS),
                               txt('empty', 'empty', 'short', 'special', 'long', 'cut', 'nospace'))
                kv.readonly = rng.random() < 0.15
                kv.reportable = rng.random() < 0.15
                e.keyvalues.setdefault(name.casefold(), {})[tags] = kv
            e.kv_order.append(name.casefold())
        for cat, pre in (('inputs', 'In'), ('outputs', 'On')):
            for j in range(rng.choice([0, 1, 2, 4])):
                name = f'{pre}{rng.choice(["Fire", "Kill", "SetValue", "Toggle"])}{j}'
                variants = [frozenset()] if plain or rng.random() < 0.7 else rng.sample(TAGSETS, 2)
                for tags in variants:
                    typ = rng.choice(list(ValueTypes))
                    if typ.has_list:
                        typ = ValueTypes.VOID
                    if rng.random() < 0.15:
                        typ = rng.choice(CUSTOM_TYPES)
                        if ck is not None:
                            ck.hist('gen_custom_type', cat)
                    getattr(e, cat).setdefault(name.casefold(), {})[tags] = IODef(name, typ, txt('empty', 'short', 'special', 'long'))
        if not plain and rng.random() < 0.5:
            e.resources = [Resource(rng.choice(['models/a.mdl', 'Weapon.Fire', 'materials/x y.vmt', 'scripts/"q".nut', 'a\\b.vmt']),
                                    rng.choice([ft for ft in FileType if ft in RESTYPE_TO_NAME]),
                                    rng.choice(TAGSETS)) for _ in range(rng.randint(0, 3))]
        fgd.entities[cn.casefold()] = e
        ents.append(e)
    return fgd


def describe_gen_failure(r: dict) -> str:
    if r['stage'] in ('parse', 'export'):
        return f'{r["stage"]}: {r["error"]}'
    if r['stage'] == 'compare':
        return 'definitions changed: ' + ', '.join(f'{k}: {v}' for k, v in list(r['changed'].items())[:3])
    return f'second export differs at line {r["line"]}: {r["first"]} vs {r["second"]}'


def fgd_cause(fgd: Any, opts: dict) -> str:
    """Name the feature of a (shrunk) failing FGD that explains the failure, so that keys are specific."""
    from srctools.fgd import KVDef, ValueTypes
    custom = opts['custom_syntax']
    texts: list[tuple[bool, str]] = []
    raw: list[str] = []
    for e in fgd.entities.values():
        texts.append((custom, e.desc)) if e.desc else None
        for cat in ('keyvalues', 'inputs', 'outputs'):
            for tm in getattr(e, cat).values():
                for v in tm.values():
                    if v.desc:
                        texts.append((custom, v.desc))
                    if isinstance(v, KVDef):
                        if v._type is not ValueTypes.SPAWNFLAGS:
                            texts.append((custom, v.disp_name))
                        raw.append(v.default)
                        for item in v.val_list or ():
                            if v._type is ValueTypes.CHOICES:
                                texts.append((False, item[1].replace('\n', ' ')))
                                raw.append(item[0])
                            else:
                                nm = item[1].replace('\n', ' ')
                                texts.append((custom, f'[{item[0]}] {nm}' if opts['label_spawnflags'] else nm))
    for ext, t in texts:
        if not ext and not std_safe(t):
            return 'text-not-representable-in-plain-syntax'
        ok, out, _ = longstring_case(ext, t)
        if not ok:
            return classify_longstring(ext, t, out, '\t')
    if any(c in d for d in raw for c in '"\\\n\r\t'):
        return 'special-character-in-default-or-choice-value'
    if any(d in NEAR_DEFAULTS or default_spelling(d) in ('int()-accepts-but-not-plain', 'digits-and-minus-not-a-number') for d in raw):
        return 'near-number-default'
    if has_custom_types(fgd):
        return 'custom-value-type'
    if any('' in h.export() for e in fgd.entities.values() for h in e.helpers):
        return 'blank-helper-argument'
    if any(e.is_alias for e in fgd.entities.values()) and custom:
        return 'alias-entity'
    return 'other'


def gen_failure_key(r: dict, fgd: Any = None, opts: Optional[dict] = None) -> str:
    cause = '' if fgd is None or opts is None else ':' + fgd_cause(fgd, opts)
    if r['stage'] in ('parse', 'export'):
        return f'generated-fgd-{r["stage"]}-error' + cause
    if r['stage'] == 'compare':
        fields = sorted({str(f) for fl in r['changed'].values() for f in fl})
        return 'generated-fgd-definition-changed:' + '+'.join(fields) + cause
    return 'generated-fgd-text-not-fixed-point' + cause


def shrink_fgd(fgd: Any, opts: dict, key: str) -> Any:
    """Greedy removal of entities, keyvalue variants, I/O, helpers, resources while the same failure class persists."""
    import copy

    def fails(f: Any) -> bool:
        r = roundtrip_fgd(f, opts)
        return r['stage'] != 'ok' and gen_failure_key(r) == key
    cur = fgd
    for _ in range(3):
        progress = False
        for cn in list(cur.entities):
            cand = copy.deepcopy(cur)
            victim = cand.entities.pop(cn)
            for e in cand.entities.values():
                e.bases = [b for b in e.bases if b is not victim and getattr(b, 'classname', b) != victim.classname]
            try:
                if cand.entities and fails(cand):
                    cur, progress = cand, True
            except Exception:   # noqa: BLE001
                pass
        for cn in list(cur.entities):
            for cat in ('keyvalues', 'inputs', 'outputs'):
                for name in list(getattr(cur.entities[cn], cat)):
                    for tags in list(getattr(cur.entities[cn], cat)[name]):
                        cand = copy.deepcopy(cur)
                        tm = getattr(cand.entities[cn], cat)[name]
                        del tm[tags]
                        if not tm:
                            del getattr(cand.entities[cn], cat)[name]
                            if cat == 'keyvalues' and name in cand.entities[cn].kv_order:
                                cand.entities[cn].kv_order.remove(name)
                        if fails(cand):
                            cur, progress = cand, True
            for attr, empty in (('helpers', []), ('resources', ()), ('desc', '')):
                if getattr(cur.entities[cn], attr):
                    cand = copy.deepcopy(cur)
                    setattr(cand.entities[cn], attr, empty)
                    if fails(cand):
                        cur, progress = cand, True
        if not progress:
            break
    return cur


def search_generated(ck: Ck) -> None:
    rng = ck.rng
    n = ck.budget(260, 4000)
    for i in range(n):
        plain = i % 3 == 2
        fgd = gen_fgd(rng, plain, ck)
        opts = rng.choice(OPTS[2:] if plain else OPTS[:2])
        r = roundtrip_fgd(fgd, opts)
        ck.count('search_generated_fgds')
        ck.hist('generated', opt_name(opts) + ':' + r['stage'])
        nkv = sum(len(tm) for e in fgd.entities.values() for tm in e.keyvalues.values())
        if nkv:
            ck.seen(('gen', i, opt_name(opts), r.get('text_len', 0)))
        if r['stage'] == 'ok':
            continue
        key = gen_failure_key(r)
        try:
            small = shrink_fgd(fgd, opts, key)
        except Exception:   # noqa: BLE001
            small = fgd
        r2 = roundtrip_fgd(small, opts)
        if r2['stage'] == 'ok' or gen_failure_key(r2) != key:
            small, r2 = fgd, r
        try:
            exported = small.export(**opts)
        except Exception as e:   # noqa: BLE001
            exported = f'<export raises {e!r}>'
        ck.violation(gen_failure_key(r2, small, opts), f'generated FGD, export({opt_name(opts)}) -> parse -> export: {describe_gen_failure(r2)}',
                     {'kind': 'fgd_text', 'opts': opts, 'exported': exported[:6000], 'unknown_types': has_custom_types(small),
                      'entities': {k: canon_ent(e, opts['custom_syntax']) for k, e in small.entities.items()}})


# =============================================================================================== search: binary format, lazy loading
def engine_canon(e: Any) -> dict:
    """What the binary format carries (no descriptions, helpers, tags on keyvalues)."""
    c = canon_ent(e)
    c.pop('helpers')
    return c


def search_binary(ck: Ck, data: bytes) -> None:
    from srctools import _engine_db as E
    from srctools.fgd import FGD
    fgd = fresh_db(data).get_fgd()
    ref = {k: engine_canon(e) for k, e in fgd.entities.items()}
    buf = io.BytesIO()
    try:
        with contextlib.redirect_stdout(io.StringIO()):
            E.serialise(fgd, buf)
    except Exception as e:   # noqa: BLE001
        ck.violation('binary-serialise-raises', f'serialise(engine database) raises {type(e).__name__}: {e}', {'kind': 'binary'})
        return
    try:
        db2 = E.unserialise(io.BytesIO(buf.getvalue()))
        f2 = db2.get_fgd()
    except Exception as e:   # noqa: BLE001
        ck.violation('binary-unserialise-raises', f'unserialise(serialise(engine database)) raises {type(e).__name__}: {e}', {'kind': 'binary'})
        return
    ck.count('search_binary_entities', len(ref))
    ck.seen(('binary', len(buf.getvalue())))
    changed: dict[str, list[str]] = {}
    for k, c in ref.items():
        e2 = f2.entities.get(k)
        d = ['<missing>'] if e2 is None else diff_fields(c, engine_canon(e2))
        for f in d:
            changed.setdefault(f, []).append(k)
    for f, cns in sorted(changed.items()):
        ck.violation(f'binary-roundtrip-changed:{f}', f'{len(cns)} entities differ in "{f}" after serialise -> unserialise (e.g. {cns[:3]})',
                     {'kind': 'binary', 'field': f, 'entities': cns[:10]})
    # per-entity round trip of generated engine-style definitions through ent_serialise / ent_unserialise
    rng = ck.rng
    from srctools.fgd import EntityDef, EntityTypes, IODef, KVDef, Resource, ValueTypes
    from srctools.const import FileType
    for i in range(ck.budget(300, 5000)):
        e = EntityDef(rng.choice(list(EntityTypes)), f'gen_{i}', is_alias=rng.random() < 0.2)
        e.bases = [rng.choice(['_CBaseEntity_', 'prop_static', 'Other'])] if rng.random() < 0.4 else []
        strings = {*(b for b in e.bases)}
        for name in rng.sample(KV_NAMES, rng.randint(0, 6)):
            typ = rng.choice([t for t in ValueTypes if t is not ValueTypes.CHOICES])
            if typ is ValueTypes.SPAWNFLAGS:
                vl = [(1 << p, f'flag {p}', rng.random() < 0.5, frozenset()) for p in sorted(rng.sample(range(0, 31), rng.randint(0, 6)))]
                kv = KVDef(name, typ, name, '', '', vl)
            else:
                kv = KVDef(name, typ, rng.choice(['', 'Disp', name]), rng.choice(DEFAULTS), '', readonly=rng.random() < 0.3)
            e.keyvalues[name.casefold()] = {frozenset(): kv}
        for cat in ('inputs', 'outputs'):
            for j in range(rng.randint(0, 3)):
                getattr(e, cat)[f'io{j}'] = {frozenset(): IODef(f'Io{j}', rng.choice([t for t in ValueTypes if not t.has_list]))}
        if rng.random() < 0.5:
            e.resources = [Resource(f'res{j}', rng.choice(list(FileType)), rng.choice([frozenset(), frozenset({'A', 'B'})]))
                           for j in range(rng.randint(1, 3))]
        table: list[str] = []

        def enc(s: str) -> bytes:
            if s not in table:
                table.append(s)
            return E._fmt_16bit.pack(table.index(s))
        b = io.BytesIO()
        E.ent_serialise(e, b, enc)
        b.seek(0)
        e2 = E.ent_unserialise(b, e.classname, E._py_make_lookup(b, table))
        ck.count('search_binary_generated')
        c1, c2 = engine_canon(e), engine_canon(e2)
        for c in (c1, c2):   # spawnflag KVs have no display name/default on either side; empty resource list is ()
            c['resources'] = c['resources'] or None
        d = diff_fields(c1, c2)
        left = b.read()
        if d or left:
            ck.violation('binary-entity-roundtrip:' + '+'.join(d or ['trailing-bytes']),
                         f'ent_unserialise(ent_serialise(e)) differs in {d} ({len(left)} bytes left unread)',
                         {'kind': 'binary_ent', 'before': c1, 'after': c2})
        elif len(e.keyvalues) + len(e.inputs) > 1:
            ck.seen(('binent', i))


def search_binary_small(ck: Ck, names: list[str]) -> None:
    """Whole-database round trip of SMALL generated engine-format FGDs (about 22 classes): serialise -> unserialise -> get_fgd keeps every
    class and every definition.  Small databases exercise build_blocks differently from the bundled one: entities that no overlapping
    pair placed go to the overflow blocks."""
    from srctools import _engine_db as E
    rng = ck.rng
    lost_reported = False
    for i in range(ck.budget(8, 80)):
        ofgd, want = make_override_fgd(rng, names)
        buf = io.BytesIO()
        try:
            with contextlib.redirect_stdout(io.StringIO()):
                E.serialise(ofgd, buf)
            back = E.unserialise(io.BytesIO(buf.getvalue()))
            known = set(back.get_classnames())
        except Exception as ex:   # noqa: BLE001
            ck.violation('binary-serialise-raises', f'serialise/unserialise of a generated {len(want)}-class database raises {type(ex).__name__}: {ex}',
                         {'kind': 'binary'})
            continue
        ck.count('search_binary_small_databases')
        ck.seen(('binsmall', i, len(buf.getvalue())))
        missing = sorted(set(want) - known)
        if missing and not lost_reported:
            lost_reported = True
            ck.violation('binary-database-loses-entities', f'serialise() of a generated database with {len(want)} classes writes only '
                         f'{len(known) - 1}: {missing} are not in the file (unserialise().get_classnames())',
                         {'kind': 'binary_small', 'classes': sorted(want), 'missing': missing})
        if missing:
            continue
        try:
            f2 = back.get_fgd()
        except Exception as ex:   # noqa: BLE001
            ck.violation('binary-unserialise-raises', f'get_fgd() of a generated {len(want)}-class database raises {type(ex).__name__}: {ex}', {'kind': 'binary'})
            continue
        for k, c in want.items():
            d = diff_fields(c, multi_canon(f2.entities[k]))
            if d:
                ck.violation('binary-roundtrip-changed:' + '+'.join(d), f'{k} of a generated database differs in {d} after serialise -> unserialise',
                             {'kind': 'binary', 'field': d, 'entities': [k]})
                break


def search_lazy(ck: Ck, data: bytes, tb: dict) -> None:
    """engine_def-style look-ups in random orders on fresh databases vs the fully loaded database."""
    import copy
    rng = ck.rng
    eager_fgd = fresh_db(data).get_fgd()
    eager = {k: canon_ent(e) for k, e in eager_fgd.entities.items()}
    names = tb['names']
    inv = {v: k for k, v in tb['ident'].items()}
    alias_names = [inv[i] for i in tb['bases']]
    rounds = ck.budget(4, 30)
    for r in range(rounds):
        db = fresh_db(data)
        if r == 0:
            order = list(names)
            rng.shuffle(order)               # every class, one random permutation
        else:
            order = rng.sample(names, ck.budget(150, 600)) + alias_names
            rng.shuffle(order)
        got_first: dict[str, dict] = {}
        for q in order:
            asked = q.upper() if rng.random() < 0.1 else q       # class names are case-insensitive
            try:
                ent = copy.deepcopy(db.get_ent(asked))           # what EntityDef.engine_def does
            except Exception as ex:   # noqa: BLE001
                ck.violation('lazy-lookup-raises:' + type(ex).__name__, f'get_ent({asked!r}) after {order.index(q)} other look-ups raises {ex!r}',
                             {'kind': 'lazy', 'order_prefix': order[:order.index(q) + 1][-20:], 'query': asked})
                continue
            c = canon_ent(ent)
            ck.count('search_lazy_lookups')
            # bases must be resolved objects whose own definitions equal the eager ones
            for b in ent.bases:
                if isinstance(b, str):
                    ck.violation('lazy-base-unresolved', f'engine_def({q!r}) returned a definition whose base {b!r} is still a name',
                                 {'kind': 'lazy', 'order_prefix': order[:order.index(q) + 1][-20:], 'query': q})
                elif canon_ent(b) != eager.get(b.classname.casefold()):
                    ck.violation('lazy-base-differs', f'base {b.classname} of lazily loaded {q} differs from the eagerly loaded definition',
                                 {'kind': 'lazy', 'order_prefix': order[:order.index(q) + 1][-20:], 'query': q})
            if c != eager.get(q):
                d = diff_fields(c, eager.get(q, {}))
                ck.violation('lazy-differs-from-eager:' + '+'.join(d), f'engine_def({q!r}) after {order.index(q)} other look-ups differs from the '
                             f'fully loaded database in {d}', {'kind': 'lazy', 'order_prefix': order[:order.index(q) + 1][-20:], 'query': q})
            if q in got_first and got_first[q] != c:
                ck.violation('lazy-repeat-differs', f'second look-up of {q!r} differs from the first', {'kind': 'lazy', 'query': q})
            got_first[q] = c
        ck.seen(('lazyorder', r, tuple(order[:5])))
        ck.hist('lazy_round_len', len(order))
    # public API once: EntityDef.engine_def / FGD.engine_dbase on the process-wide cache
    from srctools.fgd import EntityDef, FGD
    with ENGINE_DB_LOCK:
        for q in rng.sample(names, 40) + alias_names[:5]:
            if canon_ent(EntityDef.engine_def(q)) != eager[q]:
                ck.violation('lazy-differs-from-eager:engine_def', f'EntityDef.engine_def({q!r}) differs from FGD.engine_dbase()',
                             {'kind': 'lazy', 'query': q})
            ck.count('search_lazy_lookups')
        full = FGD.engine_dbase()
    bad = [k for k, e in full.entities.items() if canon_ent(e) != eager.get(k)]
    if bad:
        ck.violation('lazy-engine-dbase-after-lookups', f'FGD.engine_dbase() after individual look-ups differs for {bad[:5]}', {'kind': 'lazy', 'entities': bad[:10]})


def synth_db(rng: random.Random, shape: str, fixed_blocks: Optional[list[list[str]]] = None) -> tuple[Any, dict[str, list[str]], list[list[str]]]:
    """A hand-built EngineDB (the real serialisers, a full shared dictionary) whose alias entities point ACROSS blocks:
    shape `chain` (a -> b -> c, one per block), `cycle` (a <-> b in different blocks), `fan` (several aliases of one target
    in another block), `mixed`.  Returns the database, the stored base names per class and the block layout."""
    from srctools import _engine_db as E
    from srctools.fgd import EntityDef, EntityTypes, KVDef, ValueTypes
    layouts = {
        'chain': ([['a'], ['b'], ['c', 'x']], {'a': ['b'], 'b': ['c']}),
        'cycle': ([['a', 'x'], ['b']], {'a': ['b'], 'b': ['a']}),
        'fan': ([['a', 'b'], ['t'], ['c']], {'a': ['t'], 'b': ['t'], 'c': ['t']}),
        'mixed': ([['a', 'p'], ['b', 'q'], ['c']], {'a': ['b', 'q'], 'b': ['c'], 'p': ['a']}),
    }
    blocks, bases = layouts[shape]
    blocks = [list(b) for b in blocks]
    rng.shuffle(blocks)
    if fixed_blocks is not None:
        blocks = [[cn[4:] for cn in b] for b in fixed_blocks]
    ents: dict[str, Any] = {}
    for b in blocks:
        for cn in b:
            e = EntityDef(EntityTypes.POINT, 'Syn_' + cn, is_alias=cn in bases)
            e.bases = ['Syn_' + x for x in bases.get(cn, [])]
            e.keyvalues['kv_' + cn] = {frozenset(): KVDef('kv_' + cn, ValueTypes.INT, 'Disp ' + cn, str(rng.randint(0, 9)))}
            ents[cn] = e
    shared = sorted(['', 'Disp a'] + [f'shared{i:03d}' for i in range(E.SHARED_STRINGS - 2)])
    base_dict = E.BinStrDict(shared, None)
    unparsed, ent_map = [], {}
    for bi, b in enumerate(blocks):
        need: set[str] = set()
        for cn in b:
            E.ent_serialise(ents[cn], io.BytesIO(), lambda x, need=need: (need.add(x), b'\0\0')[1])
        d = E.BinStrDict(need - set(shared), base_dict)
        f = io.BytesIO()
        d.serialise(f)
        for cn in b:
            E.ent_serialise(ents[cn], f, d)
            ent_map[('Syn_' + cn).casefold()] = bi
        unparsed.append((['Syn_' + cn for cn in b], f.getvalue()))
    ent_map['_cbaseentity_'] = EntityDef(EntityTypes.BASE, '_CBaseEntity_')
    return E.EngineDB(ent_map, shared, unparsed), {'Syn_' + k: ['Syn_' + x for x in v] for k, v in bases.items()}, \
        [['Syn_' + cn for cn in b] for b in blocks]


def search_lazy_synthetic(ck: Ck) -> None:
    """Cross-block alias chains, cycles and fans in hand-built databases: every query order on a fresh database must give
    definitions whose bases are the definition objects of the named classes (and must terminate)."""
    import sys
    rng = ck.rng
    for i in range(ck.budget(120, 1000)):
        shape = ['chain', 'cycle', 'fan', 'mixed'][i % 4]
        state = rng.getstate()
        try:
            db, bases, blocks = synth_db(rng, shape)
        except Exception as ex:   # noqa: BLE001
            ck.violation('binary-serialise-raises', f'building a synthetic database raises {type(ex).__name__}: {ex}', {'kind': 'binary'})
            continue
        names = [cn for b in blocks for cn in b]
        order = [rng.choice(names) for _ in range(rng.randint(1, 6))]
        ck.count('search_lazy_synthetic')
        ck.hist('lazy_synthetic_shape', shape)
        ck.seen(('lazysyn', shape, tuple(order), tuple(map(tuple, blocks))))
        replay = {'kind': 'lazy_synthetic', 'shape': shape, 'blocks': blocks, 'order': order}
        old = sys.getrecursionlimit()
        sys.setrecursionlimit(400)
        try:
            for q in order:
                ent = db.get_ent(q.upper() if rng.random() < 0.2 else q)
                want = bases.get(q, [])
                got = [b for b in ent.bases if getattr(b, 'classname', b) != '_CBaseEntity_']
                if any(isinstance(b, str) for b in got):
                    ck.violation('lazy-base-unresolved', f'get_ent({q!r}) on a hand-built database ({shape}: {blocks}) after {order[:order.index(q)]} '
                                 f'returned a definition whose base {[b for b in got if isinstance(b, str)]} is still a name', replay)
                elif [b.classname for b in got] != want or any(('kv_' + b.classname[4:]) not in b.keyvalues for b in got):
                    ck.violation('lazy-base-differs', f'get_ent({q!r}) on a hand-built database ({shape}): bases {[b.classname for b in got]}, stored {want}', replay)
                if ent.classname != q or ('kv_' + q[4:]) not in ent.keyvalues:
                    ck.violation('lazy-differs-from-eager:classname+keyvalues', f'get_ent({q!r}) returned {ent.classname} with keyvalues {list(ent.keyvalues)}', replay)
        except RecursionError:
            ck.violation('lazy-base-lookups-do-not-terminate', f'get_ent on a hand-built database ({shape}: {blocks}) with queries {order} recurses without end',
                         replay)
        except Exception as ex:   # noqa: BLE001
            ck.violation('lazy-lookup-raises:' + type(ex).__name__, f'get_ent on a hand-built database ({shape}) with queries {order}: {ex}', replay)
        finally:
            sys.setrecursionlimit(old)
        del state


def make_override_fgd(rng: random.Random, bundled_names: list[str]) -> tuple[Any, dict[str, Any]]:
    """An engine-format FGD for add_engine_database(): `_CBaseEntity_`, redefinitions of a few classes of the bundled database, new
    classes and aliases of classes of the same FGD; enough distinct strings for serialise() (it needs SHARED_STRINGS shared ones).
    Returns the FGD and the canonical form of every definition (what engine_def / engine_dbase must give back)."""
    from srctools import _engine_db as E
    from srctools.fgd import FGD, EntityDef, EntityTypes, IODef, KVDef, ValueTypes
    fgd = FGD()
    fgd.entities['_cbaseentity_'] = EntityDef(EntityTypes.BASE, '_CBaseEntity_')
    redefined = rng.sample(bundled_names, 4)
    names = redefined + [f'mod_new_{i}' for i in range(14)]
    plain_types = [t for t in ValueTypes if t not in (ValueTypes.CHOICES, ValueTypes.SPAWNFLAGS)]
    n_kv = E.SHARED_STRINGS // len(names) + 4
    for i, cn in enumerate(names):
        e = EntityDef(EntityTypes.POINT, cn)
        for j in range(n_kv):
            nm = f'mod_kv_{i}_{j}'
            e.keyvalues[nm] = {frozenset(): KVDef(nm, rng.choice(plain_types), f'Mod display {i} {j}', str(rng.randint(0, 99)))}
        e.inputs['modin'] = {frozenset(): IODef('ModIn', ValueTypes.VOID)}
        fgd.entities[cn.casefold()] = e
    for i in range(3):                                     # aliases inside the added database (one of a redefined class)
        tgt = [redefined[0], 'mod_new_0', 'mod_new_1'][i]
        a = EntityDef(EntityTypes.POINT, f'mod_alias_{i}', is_alias=True)
        a.bases = [tgt]
        fgd.entities[a.classname] = a
    return fgd, {k: multi_canon(e) for k, e in fgd.entities.items() if k != '_cbaseentity_'}


def multi_canon(e: Any) -> dict:
    """engine_canon without the implicit `_CBaseEntity_` base, keyvalues by name, resources () == None."""
    c = engine_canon(e)
    c['bases'] = [b for b in c['bases'] if b != '_CBaseEntity_']
    c['keyvalues'] = sorted(c['keyvalues'], key=repr)
    c['resources'] = c['resources'] or None
    return c


def added_database_rng(seed: int) -> random.Random:
    return random.Random(seed * 1000 + 16)


def search_multi_db(ck: Ck, data: bytes, tb: dict) -> None:
    """Several engine databases.  (1) hand-built lists of 2-3 small databases that define the same class names: random histories of
    EntityDef.engine_def and FGD.engine_dbase against what the first database of the list says.  (2) the public path: a generated
    FGD written by the real serialise() to a file, add_engine_database(file) in front of the bundled database, look-ups in a random
    order, then the whole database."""
    rng = ck.rng
    reported: set[str] = set()
    for i in range(ck.budget(60, 800)):
        sc = gen_multi_scenario(rng)
        ck.count('search_multi_db_histories')
        ck.hist('multi_history_ops', len(sc['ops']))
        if len(sc['ops']) > 2:
            ck.seen(('multidb', repr(sc)))
        for key, text in check_multi_scenario(sc):
            if key in reported:
                continue
            reported.add(key)
            small = shrink_multi(sc, key)
            text = next((t for k, t in check_multi_scenario(small) if k == key), text)
            ck.violation(key, text + f' [databases, first = front of the list: {small["dbs"]}]', {'kind': 'multi_db', 'scenario': small})
    # ---- (2) serialise -> file -> add_engine_database in front of the bundled database
    for key, text, rep in check_added_database(ck, tb['names'], ck.seed, ck.budget(40, 400)):
        ck.violation(key, text, rep)
    ck.seen(('multidb-file', ck.seed))


def check_added_database(ck: Optional[Ck], names: list[str], seed: int, n_bundled: int) -> list[tuple[str, str, dict]]:
    from srctools import _engine_db as E
    from srctools import fgd as F
    rng = added_database_rng(seed)
    out: list[tuple[str, str, dict]] = []
    scratch = ck.scratch if ck is not None else __import__('pathlib').Path(__import__('tempfile').mkdtemp(prefix='sv_C16_replay_', dir='/var/tmp'))
    try:
        ofgd, want = make_override_fgd(rng, names)
        path = scratch / 'c16_added_database.bin'
        with open(path, 'wb') as f, contextlib.redirect_stdout(io.StringIO()):
            E.serialise(ofgd, f)
    except Exception as ex:   # noqa: BLE001
        return [('binary-serialise-raises', f'serialise(generated engine-format FGD) raises {type(ex).__name__}: {ex}', {'kind': 'binary'})]
    known = set(names)
    replay = {'kind': 'added_database', 'seed': seed, 'n_bundled': n_bundled, 'redefined': [k for k in want if k in known]}
    with engine_db_list(None):
        try:
            F.add_engine_database(path)
            order = list(want) + rng.sample(names, n_bundled)
            rng.shuffle(order)
            first: dict[str, dict] = {}
            for q in order:
                first[q] = multi_canon(F.EntityDef.engine_def(q))
                if ck is not None:
                    ck.count('search_multi_db_lookups')
            whole = F.FGD.engine_dbase()
            classes = F.EntityDef.engine_classes()
        except Exception as ex:   # noqa: BLE001
            return [('lazy-multi-db-raises:' + type(ex).__name__, f'add_engine_database(file) + engine_def/engine_dbase raises {ex!r}', replay)]
        later = [q for q in order if q in want and multi_canon(whole.entities[q]) != first[q]]
        if later:
            out.append(('lazy-multi-db-whole-database-has-later-definition' if all(q in known for q in later) else 'lazy-multi-db-whole-database-differs',
                f'after add_engine_database(): FGD.engine_dbase() and EntityDef.engine_def() give different definitions for {later[:4]} '
                f'(classes that the added database redefines: {replay["redefined"]})', dict(replay, entities=later[:6])))
        wrong = [q for q in want if diff_fields(want[q], first[q])]
        if wrong:
            out.append(('lazy-multi-db-lookup-differs', f'after add_engine_database(): engine_def() does not return the added definition of '
                        f'{wrong[:4]} (fields {diff_fields(want[wrong[0]], first[wrong[0]])})', dict(replay, entities=wrong[:6])))
        other = [q for q in order if q not in want and multi_canon(whole.entities[q]) != first[q]]
        if other:
            out.append(('lazy-multi-db-whole-database-differs', f'after add_engine_database(): engine_dbase() and engine_def() differ for '
                        f'classes only the bundled database defines: {other[:4]}', dict(replay, entities=other[:6])))
        if set(classes) != set(whole.entities):
            out.append(('lazy-multi-db-classnames-differ', 'engine_classes() is not the key set of engine_dbase().entities: '
                        f'{sorted(set(classes) ^ set(whole.entities))[:6]}', replay))
    return out


# =============================================================================================== answers are the caller's own
ISOLATION_MUTATIONS = ['add-keyvalue', 'change-default', 'change-io-desc', 'drop-bases', 'mutate-base', 'drop-inputs', 'rename',
                       # round 5: in-place changes of the containers one level further down (what a copy may still share)
                       'append-resource', 'change-choices', 'reorder-keyvalues']


def mutate_answer(ent: Any, how: str) -> bool:
    """Change a definition the way a caller may change what engine_def / engine_dbase handed out.  False = not applicable."""
    from srctools.fgd import EntityDef, KVDef, ValueTypes
    if how == 'add-keyvalue':
        ent.keyvalues['c16_added'] = {frozenset(): KVDef('c16_added', ValueTypes.STRING, 'Added', 'x')}
        ent.kv_order.append('c16_added')
        return True
    if how == 'change-default':
        for tm in ent.keyvalues.values():
            for kv in tm.values():
                kv.default = 'c16-changed'
                kv.disp_name = 'c16 changed'
                return True
        return False
    if how == 'change-io-desc':
        for cat in (ent.inputs, ent.outputs):
            for tm in cat.values():
                for o in tm.values():
                    o.name = 'C16Changed'
                    o.type = ValueTypes.VEC
                    return True
        return False
    if how == 'drop-bases':
        if not ent.bases:
            return False
        ent.bases.clear()
        return True
    if how == 'mutate-base':
        for b in ent.bases:
            if isinstance(b, EntityDef):
                return mutate_answer(b, 'add-keyvalue')
        return False
    if how == 'drop-inputs':
        if not ent.inputs and not ent.outputs:
            return False
        ent.inputs.clear()
        ent.outputs.clear()
        return True
    if how == 'append-resource':
        from srctools.const import FileType
        from srctools.fgd import Resource
        if not isinstance(ent.resources, list):
            return False            # `()` = no resources: nothing a caller can change in place
        ent.resources.append(Resource('models/c16_added.mdl', FileType.MODEL))
        return True
    if how == 'change-choices':
        for tm in ent.keyvalues.values():
            for kv in tm.values():
                if kv.val_list:
                    kv.val_list.reverse()
                    kv.val_list.pop()
                    return True
        return False
    if how == 'reorder-keyvalues':
        if len(ent.kv_order) < 2:
            return False
        ent.kv_order.reverse()
        ent.kv_order.pop()
        return True
    if how == 'rename':
        ent.classname = 'c16_renamed'
        ent.desc = 'changed'
        return True
    raise ValueError(how)


def deep_canon(e: Any) -> dict:
    """multi_canon plus the content of the base definitions one level down (a caller can reach them through `.bases`)."""
    from srctools.fgd import EntityDef
    c = multi_canon(e)
    c['base_defs'] = [multi_canon(b) for b in e.bases if isinstance(b, EntityDef)]
    c['kv_order'] = list(e.kv_order)
    c['value_lists'] = sorted((name, repr(kv.val_list)) for name, tm in e.keyvalues.items() for kv in tm.values() if kv.val_list)
    return c


def check_isolation(cases: list[tuple[str, str]], via: str) -> list[tuple[str, str, str]]:
    """One history on a fresh list of databases: for every (class, change) ask for the definition (engine_def, or once the whole
    database), change the answer, ask again; at the end load the whole database: every later answer must be the first answer.
    Returns [(class, change, what differs)]."""
    from srctools import fgd as F
    out: list[tuple[str, str, str]] = []
    with engine_db_list(None):
        whole0 = F.FGD.engine_dbase() if via == 'engine_dbase' else None
        before: dict[str, tuple[str, dict]] = {}
        firsts: dict[str, Any] = {}
        for name, how in cases:        # all first answers are taken (and described) before anything is changed: inside ONE answer of
            if name not in firsts:     # engine_dbase() the definitions rightly share their base objects
                firsts[name] = F.EntityDef.engine_def(name) if whole0 is None else whole0.entities[name]
                before[name] = (how, deep_canon(firsts[name]))
        for name, (how, canon) in list(before.items()):
            if not mutate_answer(firsts[name], how):
                del before[name]
        for name, (how, canon) in before.items():
            again = deep_canon(F.EntityDef.engine_def(name))
            if again != canon:
                out.append((name, how, f'EntityDef.engine_def({name!r}) after the caller changed ({how}) what {via} had returned differs in '
                                       f'{diff_fields(canon, again)} from the first answer'))
        whole = F.FGD.engine_dbase()
        for name, (how, canon) in before.items():
            got = deep_canon(whole.entities[name])
            if got != canon and not any(n == name for n, _, _ in out):
                out.append((name, how, f'FGD.engine_dbase().entities[{name!r}] after the caller changed ({how}) what {via} had returned differs in '
                                       f'{diff_fields(canon, got)} from the first answer'))
    return out


def copy_canon(e: Any) -> dict:
    """Everything of a definition a caller can change in place: canon_ent plus kv_order, value lists, helpers, base definitions."""
    from srctools.fgd import EntityDef
    c = canon_ent(e)
    c['kv_order'] = list(e.kv_order)
    c['value_lists'] = sorted((name, repr(sorted(tags)), repr(kv.val_list)) for name, tm in e.keyvalues.items() for tags, kv in tm.items())
    c['helpers_repr'] = [repr(h) for h in e.helpers]
    c['base_defs'] = [canon_ent(b) for b in e.bases if isinstance(b, EntityDef)]
    return c


def check_copy_isolation(key: str) -> list[tuple[str, str, str]]:
    """deepcopy() of every entity of the generated FGD `key` (what engine_def / engine_dbase do with the cached definitions), every
    applicable in-place change of the copy: the original must stay as it was.  Returns [(class, change, what differs)]."""
    import copy
    fgd = gen_fgd(random.Random(key), False)
    out = []
    for cn, e in fgd.entities.items():
        before = copy_canon(e)
        for how in ISOLATION_MUTATIONS + ['change-helper']:
            d = copy.deepcopy(e)
            if how == 'change-helper':
                if not d.helpers:
                    continue
                h = d.helpers[0]
                for attr in getattr(type(h), '__attrs_attrs__', ()):
                    v = getattr(h, attr.name)
                    if isinstance(v, list):
                        v.append('c16')
                    elif isinstance(v, str):
                        setattr(h, attr.name, v + 'c16')
                d.helpers.pop(0)
            elif not mutate_answer(d, how):
                continue
            after = copy_canon(e)
            if after != before:
                out.append((cn, how, f'copy.deepcopy(EntityDef) then {how} on the copy changed {diff_fields(before, after)} of the original'))
                before = after
    return out


def check_multi_isolation(sc: dict) -> list[tuple[str, str]]:
    """Several databases (the merge loop of FGD.engine_dbase instead of its single-database shortcut): load the whole database,
    change every definition of the answer in place, load it again and look every class up: nothing may have moved.
    Returns [(change, what)]."""
    from srctools.fgd import EntityDef, FGD
    dbs = [build_engine_db(d['blocks'], d['bases'], d['marks']) for d in sc['dbs']]
    out = []
    with engine_db_list(dbs):
        whole1 = FGD.engine_dbase()
        canon1 = {k: deep_canon(e) for k, e in whole1.entities.items() if k != '_cbaseentity_'}
        hows = {}
        for i, (k, e) in enumerate(sorted(whole1.entities.items())):
            if k == '_cbaseentity_':
                continue
            how = ['change-default', 'rename', 'add-keyvalue', 'drop-bases'][i % 4]
            if mutate_answer(e, how):
                hows[k] = how
        whole2 = FGD.engine_dbase()
        for k, how in hows.items():
            c2 = deep_canon(whole2.entities[k]) if k in whole2.entities else None
            if c2 != canon1[k]:
                out.append((how, f'FGD.engine_dbase() over {len(dbs)} databases: after the caller changed ({how}) the definition of {k!r} in the first '
                                 f'answer, the second answer differs in {diff_fields(canon1[k], c2) if c2 else "<missing>"}'))
                continue
            try:
                c3 = deep_canon(EntityDef.engine_def(k))
            except KeyError:
                c3 = None
            if c3 != canon1[k]:
                out.append((how, f'EntityDef.engine_def({k!r}) over {len(dbs)} databases differs from the first FGD.engine_dbase() answer after the caller '
                                 f'changed ({how}) that answer'))
    return out


def search_isolation(ck: Ck, names: list[str]) -> None:
    """State carried between calls: what engine_def() / engine_dbase() return belongs to the caller; changing it must not change what
    the next look-up or the whole database says (the lazily decoded definitions are cached inside the database objects)."""
    from srctools import fgd as F
    rng = ck.rng
    # classes on which the in-place changes of round 5 are applicable: a resources LIST, a keyvalue with a value list
    with engine_db_list(None):
        whole = F.FGD.engine_dbase()
        fit = {'append-resource': [n for n in names if isinstance(getattr(whole.entities.get(n.casefold()), 'resources', ()), list)],
               'change-choices': [n for n in names if n.casefold() in whole.entities and any(
                   kv.val_list for tm in whole.entities[n.casefold()].keyvalues.values() for kv in tm.values())]}
    for i in range(ck.budget(3, 30)):
        via = 'engine_dbase' if i % 3 == 2 else 'engine_def'
        cases = [(rng.choice(fit.get(how) or names), how) for how in ISOLATION_MUTATIONS for _ in range(2)]
        rng.shuffle(cases)
        try:
            found = check_isolation(cases, via)
        except Exception as ex:   # noqa: BLE001
            found = [(cases[0][0], cases[0][1], f'raises {type(ex).__name__}: {ex}')]
        ck.count('search_isolation', len(cases))
        for name, how in cases:
            ck.hist('isolation', f'{via}:{how}')
        ck.seen(('isolation', via, tuple(cases)))
        for name, how, what in found:
            single = [(name, how)]
            try:
                alone = check_isolation(single, via)
            except Exception:   # noqa: BLE001
                alone = []
            ck.violation(f'lazy-answer-not-isolated:{via}:{how}', what,
                         {'kind': 'isolation', 'cases': [list(x) for x in (single if alone else cases)], 'via': via})
    # several databases: FGD.engine_dbase() takes its merge loop, not the single-database shortcut
    seen_multi: set[str] = set()
    for i in range(ck.budget(8, 80)):
        sc = gen_multi_scenario(rng)
        try:
            found3 = check_multi_isolation(sc)
        except Exception as ex:   # noqa: BLE001
            found3 = [('raises', f'engine_dbase over hand-built databases raises {type(ex).__name__}: {ex}')]
        ck.count('search_multi_isolation')
        ck.seen(('multiiso', repr(sc['dbs'])))
        for how, what in found3:
            if how not in seen_multi:
                seen_multi.add(how)
                ck.violation(f'lazy-answer-not-isolated:engine_dbase-merged:{how}', what, {'kind': 'multi_isolation', 'dbs': sc['dbs']})
    # the mechanism itself on generated definitions (value lists, tagged variants, helpers, resources: the bundled database has no
    # value list at all): deepcopy, change the copy in place, the original must not move
    reported: set[str] = set()
    for i in range(ck.budget(25, 300)):
        key = f'{ck.seed}:copy-isolation:{i}'
        try:
            found2 = check_copy_isolation(key)
        except Exception as ex:   # noqa: BLE001
            found2 = [('?', 'raises', f'copy.deepcopy / in-place change raises {type(ex).__name__}: {ex}')]
        ck.count('search_copy_isolation')
        ck.seen(('copyiso', key))
        for cn, how, what in found2:
            ck.hist('copy_isolation_found', how)
            if how in reported:
                continue
            reported.add(how)
            ck.violation(f'lazy-answer-not-isolated:deepcopy:{how}', f'{cn}: {what}', {'kind': 'copy_isolation', 'key': key, 'class': cn, 'change': how})

# =============================================================================================== main
def timed(label: str, fn: Callable[..., Any], *args: Any) -> Any:
    """Run one stage; with C16_TIMING set, print its wall time to stderr (information only, never part of a result)."""
    t0 = time.time()
    try:
        return fn(*args)
    finally:
        if os.environ.get('C16_TIMING'):
            print(f'[C16 timing] {label}: {time.time() - t0:.1f}s', file=sys.stderr)


INSTANCE_OBLIGATIONS = {
    'escape_table_invertible': 'table_ok esc_pairs esc_excluded',
    'longstring_limits_sane': 'limits_ok',
    'longstring_empty_text_written_as_quotes': 'empty_quotes gen_cfg',
    'longstring_hard_cut_never_strands_backslash': 'cut_guard gen_cfg',
    'longstring_cfg_ok_is_these': 'cfg_ok_is_parts',
    'longstring_loop_test_is_gt': 'op_is_gt ls_loop_op',
    'longstring_newline_threshold_is_gt': 'op_is_gt ls_nl_op',
    'longstring_newline_needle': 'needle1_ok',
    'longstring_space_needle': 'needle2_ok',
    'longstring_joiner': 'joiner_ok',
    'plain_escape_replacements': 'std_repl_matches',
    'unguarded_hard_cut_is_refuted': 'hard_cut_breaks',
    'value_type_order_covers_enum': 'order_ok value_type_order value_types_all',
    'file_type_order_covers_enum': 'order_ok file_type_order file_types_all',
    'entflags_layout': 'entflags_layout_ok',
    'entity_types_have_distinct_flags': 'entity_flags_distinct',
    'bit_literals_are_128_127': 'bit_literals_ok',
    'index_formats': 'index_formats_ok',
    'shared_strings_fit_u16': 'N.ltb shared_strings 65536',
    'binary_tables_fit_the_record_model': 'bin_tables_ok',
    'binary_header_formats': 'header_formats_ok',
    'binary_layout_kv_serialise': 'layout_kv_writer_ok',
    'binary_layout_kv_unserialise': 'layout_kv_reader_ok',
    'binary_layout_iodef': 'layout_io_ok',
    'binary_layout_ent_serialise': 'layout_ent_writer_ok',
    'binary_layout_ent_unserialise': 'layout_ent_reader_ok',
    'text_kv_two_colons_before_description_without_default': '(colons_before_desc_without_default gen_line_cfg =? 2)%nat',
    'text_kv_one_colon_between_default_and_description': '(kv_colons_after_default =? 1)%nat',
    'text_bool_default_written_as_0': 'bool_default_filled gen_line_cfg',
    'text_resources_block_written_when_defined': 'res_block_if_defined gen_line_cfg',
    'text_line_cfg_ok_is_these': 'Bool.eqb (line_cfg_ok gen_line_cfg) ((colons_before_desc_without_default gen_line_cfg =? 2)%nat '
                                 '&& bool_default_filled gen_line_cfg && res_block_if_defined gen_line_cfg)',
    'text_empty_resources_need_the_block': 'empty_resources_need_block',
    'binary_blocks_first_overflow_block_stays_listed': 'blocks_cfg_ok',
    'binary_blocks_empty_blocks_dropped_at_the_end': 'blocks_empty_dropped_at_end',
    'binary_blocks_serialise_writes_every_entity_of_every_block': 'blocks_all_written',
    'binary_blocks_early_drop_is_refuted': 'early_drop_breaks',
    'property_hypotheses_hold_for_todays_source': 'c16_property_hypotheses',
    'text_kind_keywords_read_back_as_their_kind': 'kind_keywords_read_back',
    'text_kind_dispatch_without_casefold_is_refuted': 'unfolded_dispatch_breaks',
    # round 5: the PAREN_ARGS branch of EntityDef.parse as a generated object (separator, strip, filter, [''] special case)
    'text_helper_args_program_is_the_model': 'helper_args_program_ok',
    'text_helper_args_blank_arguments_keep_their_position': 'helper_args_blank_kept',
    'text_helper_args_empty_parentheses_are_no_argument': 'helper_args_empty_parens_no_argument',
    'text_helper_args_joined_by_comma_blank': 'helper_args_joined_by_comma_blank',
    'text_helper_args_filter_is_refuted': 'filter_blank_breaks',
    'text_default_written_bare_is_one_token': 'bare_test_ok gen_bare_test',
    'text_default_bare_by_int_call_is_refuted': 'int_call_breaks',
    # round 5: what EntityDef.__deepcopy__ shares with the cached definition (SM/FgdCopyShare.v), per attribute
    'state_copy_of_keyvalues_shares_no_object': 'copy_field_isolates "keyvalues"%string',
    'state_copy_of_inputs_shares_no_object': 'copy_field_isolates "inputs"%string',
    'state_copy_of_outputs_shares_no_object': 'copy_field_isolates "outputs"%string',
    'state_copy_of_kv_order_shares_no_object': 'copy_field_isolates "kv_order"%string',
    'state_copy_of_bases_shares_no_object': 'copy_field_isolates "bases"%string',
    'state_copy_of_helpers_shares_no_object': 'copy_field_isolates "helpers"%string',
    'state_copy_of_resources_shares_no_object': 'copy_field_isolates "resources"%string',
    'state_copy_plan_isolates_every_attribute': 'entity_copy_isolates',
    'state_answers_of_engine_def_and_engine_dbase_are_deep_copies': 'answers_are_deep_copies',
    'state_copy_shared_io_objects_and_shared_list_are_refuted': 'shared_io_objects_break',
    'text_kv_type_program_is_the_model': 'kv_type_prog_ok',
    'text_io_type_program_is_the_model': 'io_type_prog_ok',
    'text_kv_unknown_type_kept_verbatim': 'kv_unknown_type_kept_verbatim',
    'text_io_unknown_type_kept_verbatim': 'io_unknown_type_kept_verbatim',
    'text_type_table_canonical_names_read_back': 'type_table_ok',
    'text_io_decay_written_texts_read_back_as_the_decayed_type': 'io_decay_table_ok',
    'text_type_fold_then_fallback_is_refuted': 'fold_then_fallback_breaks',
    'lazy_bases_resolved_through_get_ent': 'lazy_via_get_ent',
    'lazy_map_lookup_is_refuted': 'map_lookup_breaks',
    'multi_db_engine_dbase_keeps_first_definition': 'merge_is_first engine_dbase_merge',
    'multi_db_engine_def_returns_first_hit': 'engine_def_returns_first_hit',
    'multi_db_modes_agree_is_these': 'Bool.eqb multi_modes_agree (merge_is_first engine_dbase_merge && engine_def_returns_first_hit)',
    'multi_db_overwriting_merge_is_refuted': 'overwrite_merge_breaks',
}


class StageCk:
    """What one tie stage (instance obligations, Print Assumptions, a correspondence) sees of the Ck while the stages run side by
    side (each spends most of its time waiting for its own coqc process).  Everything a stage records is buffered here and merged
    into the real Ck in the fixed order of the stage list, so that neither the recorded order nor any count depends on timing; the
    stage draws from its OWN random stream (seed, stage name), and its budgets look only at the ties that were already broken when
    the stages were started (translator/build), never at what a neighbour finds meanwhile."""

    def __init__(self, ck: Ck, name: str) -> None:
        self._ck, self.name = ck, name
        self.rng = random.Random(f'{ck.seed}:{name}')
        self._ties_before = bool(ck.tie_broken)
        self.obligations: list[dict] = []
        self.tie_broken: list[str] = []
        self.notes: list[str] = []
        self.extra: dict[str, Any] = {}
        self.axioms: dict[str, list[str]] = {}
        self._log: list[tuple] = []
        self.error: Optional[BaseException] = None
        self.heartbeat = 0      # seconds without a counted case after which a search stage is declared hung (0 = off)

    def __getattr__(self, attr: str) -> Any:            # seed, tier, thorough, scratch, ...
        return getattr(self._ck, attr)

    def budget(self, quick: int, thorough: int) -> int:
        return thorough if (self._ck.thorough or self._ties_before) else quick

    def obligation(self, name: str, ok: bool, detail: str = '') -> None:
        self.obligations.append({'name': name, 'ok': bool(ok), 'detail': detail[:4000]})

    def count(self, key: str, n: int = 1) -> None:
        self._log.append(('count', key, n))
        if self.heartbeat:
            import signal
            signal.alarm(self.heartbeat)      # a search stage counts every case: progress

    def hist(self, group: str, key: Any, n: int = 1) -> None:
        self._log.append(('hist', group, key, n))

    def seen(self, case_key: Any) -> None:
        self._log.append(('seen', case_key))

    def sample(self, obj: Any, cap: int = 8) -> None:
        self._log.append(('sample', obj, cap))

    def violation(self, key: str, what: str, replay: Any, no_input: bool = False) -> None:
        self._log.append(('violation', key, what, replay, no_input))

    # harness methods that record through `self`: run them with this object as `self`
    def coq_eval(self, *a: Any, **k: Any) -> Any:
        return Ck.coq_eval(self, *a, **k)          # type: ignore[arg-type]

    def coq_scratch(self, *a: Any, **k: Any) -> Any:
        return Ck.coq_scratch(self._ck, *a, **k)

    def instance_obligations(self, *a: Any, **k: Any) -> Any:
        return Ck.instance_obligations(self, *a, **k)   # type: ignore[arg-type]

    def theorems(self, *a: Any, **k: Any) -> Any:
        return Ck.theorems(self, *a, **k)          # type: ignore[arg-type]

    def payload(self) -> dict:
        return {'obligations': self.obligations, 'tie_broken': self.tie_broken, 'notes': self.notes, 'axioms': self.axioms,
                'extra': self.extra, 'log': self._log}

    @staticmethod
    def merge_payload(ck: Ck, r: dict) -> None:
        ck.obligations.extend(r.get('obligations', []))
        ck.tie_broken.extend(r.get('tie_broken', []))
        ck.notes.extend(r.get('notes', []))
        ck.axioms.update(r.get('axioms', {}))
        for k, v in r.get('extra', {}).items():
            ck.extra[k] = v
        for ev in r.get('log', []):
            getattr(ck, ev[0])(*ev[1:])

    def merge(self) -> None:
        StageCk.merge_payload(self._ck, self.payload())


def theorems_all(c: Any) -> None:
    """Ck.theorems('Props/C16.v') at a fraction of the cost.  `Print Assumptions` walks the whole proof of a theorem (about 0.5 s each,
    the shared lemmas again for every theorem).  The assumptions of a tuple of all theorems are the union of theirs, and one walk
    visits every shared lemma once (2 s instead of 20 s): when that tuple is closed under the global context, every theorem is.
    Otherwise (an axiom somewhere) the theorems are printed one by one.  Same records as Ck.theorems: obligation `theorem:<name>` and
    the axioms of each."""
    import re
    from harness.common import ROCQ, _split_assumptions
    names = re.findall(r'^\s*(?:Theorem|Lemma|Corollary)\s+([A-Za-z0-9_\']+)', (ROCQ / 'Props/C16.v').read_text(), re.M)
    body = 'Require Import SV.Props.C16.\nDefinition c16_all_theorems := (%s).\nPrint Assumptions c16_all_theorems.\n' % ', '.join(names)
    rc, out = c.coq_scratch(body, 'assumptions_all')
    if rc == 0 and out.strip().splitlines()[-1:] == ['Closed under the global context'] and 'Axioms:' not in out:
        per = [[] for _ in names]
    else:
        body = 'Require Import SV.Props.C16.\n' + ''.join(f'Print Assumptions {n}.\n' for n in names)
        rc, out = c.coq_scratch(body, 'assumptions_each', 1200)
        if rc != 0:
            c.obligation('assumptions:Props/C16.v', False, out[-2000:])
            c.tie_broken.append('Print Assumptions failed for Props/C16.v')
            return
        per = _split_assumptions(out, len(names))
    for n, b in zip(names, per):
        c.axioms[n] = b
        c.obligation(f'theorem:{n}', True, 'Qed; axioms: ' + ('none (closed under the global context)' if not b else ', '.join(b)))


# =============================================================================================== search: helper argument lists (round 5)
HELPER_ARG_ATOMS = ['', 'x', 'b c']
KNOWN_BLANK_NAMES = ['frustum', 'line', 'cylinder', 'wirebox', 'obb', 'sphere', 'lightcone', 'lightconenew', 'appliesto', 'orderby']
KNOWN_BLANK_ATOMS = ['', 'key', '255 0 0', '-1']


def blank_positions(args: list[str]) -> str:
    """Where the blank arguments of a list are: none / sole / first / middle / last / several."""
    blanks = [i for i, a in enumerate(args) if a == '']
    if not blanks:
        return 'none'
    if len(args) == 1:
        return 'sole'
    if len(blanks) > 1:
        return 'several'
    return 'first' if blanks[0] == 0 else 'last' if blanks[0] == len(args) - 1 else 'middle'


_KNOWN_BLANK_CACHE: list[tuple[str, tuple[str, ...]]] = []


def known_blank_lists() -> list[tuple[str, tuple[str, ...]]]:
    """Every (known helper, argument list over KNOWN_BLANK_ATOMS with 1-5 entries and at least one blank) that the helper's own
    parse() accepts and whose export() keeps a blank, the sole blank `['']` excluded (the format reads `helper()` as no argument)."""
    import itertools
    import warnings
    from srctools.fgd import HELPER_IMPL, HelperTypes
    if not _KNOWN_BLANK_CACHE:
        for name in KNOWN_BLANK_NAMES:
            try:
                impl = HELPER_IMPL[HelperTypes(name)]
            except (ValueError, KeyError):
                continue                    # a helper type this source does not have: nothing to generate for it
            for n in range(1, 6):
                for args in itertools.product(KNOWN_BLANK_ATOMS, repeat=n):
                    if '' not in args:
                        continue
                    try:
                        with warnings.catch_warnings():
                            warnings.simplefilter('ignore')
                            ex = impl.parse(list(args)).export()
                    except Exception:   # noqa: BLE001
                        continue
                    if '' in ex and ex != ['']:
                        _KNOWN_BLANK_CACHE.append((name, args))
    return _KNOWN_BLANK_CACHE


def helper_args_fgd(items: list[tuple[str, list[str]]]) -> str:
    """A hand-written FGD: one entity whose header carries the helpers `name(arg, arg, ...)` exactly as EntityDef.export joins them."""
    out = ['@PointClass']
    out += [f'\t{name}({", ".join(args)})' for name, args in items]
    out += ['= c16_helpers : "helpers"', '\t[', '\t]', '']
    return '\n'.join(out)


def helper_obs(h: Any) -> tuple[str, tuple[str, ...]]:
    from srctools.fgd import UnknownHelper
    return (h.name if isinstance(h, UnknownHelper) else h.TYPE.value, tuple(h.export()))


def check_helper_args(items: list[tuple[str, list[str]]]) -> list[tuple[str, str]]:
    """[(key, what)]: the helpers of the hand-written entity must be read with their arguments at the positions written (a blank
    argument stays an argument; only `name()` is no argument), and export -> parse -> export must reproduce helpers and text."""
    import warnings
    from srctools.fgd import HELPER_IMPL, HelperTypes
    known = {h.value for h in HelperTypes}
    text = helper_args_fgd(items)
    want: list[tuple[str, tuple[str, ...]]] = []
    for name, args in items:
        a = [] if list(args) in ([], ['']) else list(args)
        if name in known:
            with warnings.catch_warnings():
                warnings.simplefilter('ignore')
                want.append(helper_obs(HELPER_IMPL[HelperTypes(name)].parse(a)))
        else:
            want.append((name, tuple(a)))
    try:
        with warnings.catch_warnings():
            warnings.simplefilter('ignore')
            f1 = parse_text(text)
    except Exception as e:   # noqa: BLE001
        return [('helper-args-parse-error', f'hand-written entity header does not parse: {type(e).__name__}: {str(e)[:200]}')]
    ent = f1.entities['c16_helpers']
    got = [helper_obs(h) for h in ent.helpers]
    if got != want:
        k = next((i for i, (x, y) in enumerate(zip(got, want)) if x != y), min(len(got), len(want)))
        cls = 'known' if k < len(items) and items[k][0] in known else 'unknown'
        dropped = k < len(got) and k < len(want) and len(got[k][1]) < len(want[k][1]) and cls == 'unknown'
        kind = 'blank-argument-dropped' if dropped or (k < len(items) and '' in items[k][1]) else 'arguments-changed'
        return [(f'helper-args-{kind}:{cls}', f'`{helper_args_fgd(items[k:k + 1]).splitlines()[1].strip()}` is read as {got[k] if k < len(got) else None}, '
                 f'expected {want[k] if k < len(want) else None} (helper arguments are positional)')]
    t1 = f1.export()
    try:
        with warnings.catch_warnings():
            warnings.simplefilter('ignore')
            f2 = parse_text(t1)
    except Exception as e:   # noqa: BLE001
        return [('helper-args-export-unparseable', f'export of the parsed entity does not parse: {type(e).__name__}: {str(e)[:200]}')]
    got2 = [helper_obs(h) for h in f2.entities['c16_helpers'].helpers]
    if got2 != got or f2.entities['c16_helpers'].helpers != ent.helpers:
        return [('helper-args-definition-changed', f'export -> parse changed the helpers: {got} -> {got2}')]
    t2 = f2.export()
    if t1 != t2:
        l1, l2 = t1.splitlines(), t2.splitlines()
        j = next((j for j, (x, y) in enumerate(zip(l1, l2)) if x != y), min(len(l1), len(l2)))
        return [('helper-args-text-not-fixed-point', f'second export differs: {l1[j:j + 1]} vs {l2[j:j + 1]}')]
    return []


def search_helper_args(ck: Ck) -> None:
    """Helper argument lists with blank arguments at every position.  Unknown helpers: EVERY list of 0-4 arguments over
    HELPER_ARG_ATOMS (121 lists, exhaustive in both tiers); known helpers: lists their own parse() accepts and whose export() keeps a
    blank (frustum, line, cylinder, wirebox, obb, sphere, lightcone, lightconenew, appliesto, orderby; a sample, all when thorough).
    Text -> parse (arguments at the positions written) -> export -> parse -> export."""
    import itertools
    rng = ck.rng
    cases: list[tuple[str, list[str]]] = []
    for n in range(0, 5):
        for args in itertools.product(HELPER_ARG_ATOMS, repeat=n):
            cases.append((rng.choice(['worldtext_ex', 'custom', 'zz_top']), list(args)))
    kb = known_blank_lists()
    ck.extra['known_helpers_with_blank_arguments'] = sorted({n for n, _ in kb})
    pick = kb if ck.thorough or len(kb) <= 150 else rng.sample(kb, ck.budget(150, len(kb)))
    cases += [(n, list(a)) for n, a in pick]
    rng.shuffle(cases)
    i = 0
    while i < len(cases):
        k = rng.choice([1, 2, 3, 5])
        items = cases[i:i + k]
        i += k
        ck.count('search_helper_args')
        for name, args in items:
            ck.hist('helper_args_blank', ('known:' if name in KNOWN_BLANK_NAMES else 'unknown:') + blank_positions(args))
        if any('' in a for _, a in items):
            ck.seen(('helperargs', tuple((n, tuple(a)) for n, a in items)))
        for key, what in check_helper_args(items):
            small = list(items)
            for it in list(small):
                cand = [x for x in small if x is not it]
                if cand and any(k2 == key for k2, _ in check_helper_args(cand)):
                    small = cand
            if not any(k2 == key for k2, _ in check_helper_args(small)):
                small = list(items)
            ck.violation(key, what, {'kind': 'helper_args', 'items': [[n, a] for n, a in small], 'text': helper_args_fgd(small)})


# =============================================================================================== search: near-number defaults (round 6)
NEAR_NUMBER_ALPHABET = '+- _7'
NEAR_NUMBER_EXTRA = ['+90', ' 7', '7 ', ' 7 ', '1_000', '1_0', '_1', '1_', '1__0', '\u0663', '\u0663\u0664', '\uff17', '7\u0663', '-', '--1', '1-', '-1-', '+',
                     '+-1', '-+1', '1+1', '1 000', '0x10', '1e3', '1.0', '00', '-0', '+0', ' -5 ', '- 5', '+ 5', '\xa07', '7\xa0', '\u20037', '+1_0', ' +7',
                     '-_7', '7:', ':7', '7/', '#7', '1,0', '1;0', '(7)', '[7]', '7=', "7'"]


def near_number_defaults() -> list[str]:
    """Every text of 1-3 characters over '+', '-', blank, '_', '7' (155: everything int() accepts that is not plain decimal is there in
    its shortest form, and the near-numbers '-', '--7', '7-', '+' ...), and longer / non-ASCII spellings."""
    import itertools
    out = [''.join(t) for n in (1, 2, 3) for t in itertools.product(NEAR_NUMBER_ALPHABET, repeat=n)]
    return out + [x for x in NEAR_NUMBER_EXTRA if x not in out]


def default_spelling(d: str) -> str:
    plain = d != '' and all(c in '0123456789-' for c in d)
    try:
        int(d)
        accepted = True
    except ValueError:
        accepted = False
    return 'plain-decimal' if plain and accepted else 'digits-and-minus-not-a-number' if plain else \
        'int()-accepts-but-not-plain' if accepted else 'other-near-number'


def near_number_fgd(items: list[tuple[str, str]]):
    """One point entity with a keyvalue per (value type name, default)."""
    from srctools.fgd import FGD, EntityDef, EntityTypes, KVDef, ValueTypes
    fgd = FGD()
    e = EntityDef(EntityTypes.POINT, 'near_number')
    fgd.entities[e.classname] = e
    for i, (tn, d) in enumerate(items):
        name = f'kv{i}'
        e.keyvalues[name] = {frozenset(): KVDef(name, ValueTypes[tn], f'Kv {i}', d, 'desc' if i % 2 else '')}
        e.kv_order.append(name)
    return fgd


def check_near_number(items: list[tuple[str, str]], opts: dict) -> Optional[tuple[str, str]]:
    r = roundtrip_fgd(near_number_fgd(items), opts)
    if r['stage'] == 'ok':
        return None
    sp = sorted({default_spelling(d) for _, d in items})
    key = {'parse': 'parse-error', 'export': 'export-error', 'compare': 'changed', 'fixpoint': 'second-export-differs'}[r['stage']]
    return f'near-number-default-{key}:{"+".join(sp)}', describe_gen_failure(r)


def search_near_number_defaults(ck: Ck) -> None:
    """KVDef.export writes a default without quotes when it `looks like an integer`: every near-number spelling as the default of a
    keyvalue of every value type whose default goes through that branch (all but SPAWNFLAGS), both syntaxes: export -> parse ->
    compare -> export.  What is written bare must come back as the same string."""
    from srctools.fgd import ValueTypes
    rng = ck.rng
    defaults = near_number_defaults()
    types = [t.name for t in ValueTypes if t is not ValueTypes.SPAWNFLAGS]
    always = ['STRING', 'INT', 'FLOAT', 'BOOL', 'CHOICES']
    pick = types if ck.thorough else always + rng.sample([t for t in types if t not in always], 3)
    cases = [(t, d) for t in pick for d in defaults]
    rng.shuffle(cases)
    i = 0
    while i < len(cases):
        items = cases[i:i + 6]
        i += 6
        opts = rng.choice(OPTS)
        ck.count('search_near_number_defaults')
        for _, d in items:
            ck.hist('near_number_default_spelling', default_spelling(d))
        ck.seen(('nearnum', tuple(items), opt_name(opts)))
        if check_near_number(items, opts) is None:
            continue
        for it in items:        # name each offending keyvalue on its own
            one = check_near_number([it], opts)
            if one is not None:
                ck.violation(one[0], f'default {it[1]!r} of a {it[0]} keyvalue ({opt_name(opts)}): {one[1]}',
                             {'kind': 'near_number', 'items': [list(it)], 'opts': opts, 'text': near_number_fgd([it]).export(**opts)})


def search_groups(data: bytes, tb: dict) -> list[list[tuple[str, Callable[..., Any], tuple]]]:
    """The search stages, in two groups of about the same cost (one worker process each)."""
    return [
        [('search_longstring', search_longstring, ()),
         ('search_bundled', search_bundled, ()),
         ('search_type_text', search_type_text, ()),
         ('search_helper_args', search_helper_args, ()),
         ('search_near_number_defaults', search_near_number_defaults, ()),
         ('search_multi_db', search_multi_db, (data, tb)),
         ('search_isolation', search_isolation, (tb['names'],)),
         ('search_lazy_synthetic', search_lazy_synthetic, ())],
        [('search_generated', search_generated, ()),
         ('search_binary', search_binary, (data,)),
         ('search_binary_small', search_binary_small, (tb['names'],)),
         ('search_blocks', search_blocks, ()),
         ('search_lazy', search_lazy, (data, tb))],
    ]


def search_stage(name: str) -> tuple[Callable[..., Any], tuple]:
    data = raw_db()
    tb = db_tables(data)
    for g in search_groups(data, tb):
        for n, fn, args in g:
            if n == name:
                return fn, args
    raise KeyError(name)


class StageTimeout(RuntimeError):
    pass


class StageHang(BaseException):
    """Raised by SIGALRM inside a search stage that has not counted a case for HEARTBEAT seconds (not an Exception: the oracles'
    `except Exception` clauses must not swallow it)."""


# One case of a search stage takes milliseconds to (whole bundled database, heavy load) about 30 s.
HEARTBEAT = int(os.environ.get('C16_HEARTBEAT', '150'))    # the variable exists for testing the mechanism itself


def start_workers(ck: Ck, groups: list[list[tuple[str, Callable[..., Any], tuple]]], searches: bool, escalate: bool = False) -> Callable[[], bool]:
    """Fork one worker process per group; a worker runs its stages one after the other, each with its own StageCk (own random
    stream, buffered records), and sends what the stage recorded back through a pipe.  Returns a function that waits for all
    workers, merges the records in the fixed order of the lists (group by group: nothing depends on timing) and says whether any
    stage broke a tie.

    Robustness: every stage has a wall-clock limit (STAGE_LIMIT_*, at least 5 times what the stage takes on a loaded machine).
    A SEARCH stage that exceeds it, or raises an exception the oracles do not expect, is a finding about the implementation (a
    fault made it loop or fail): reported as a violation whose replay re-runs that stage.  A TIE stage (coqc + case generation)
    that exceeds it is a failure of the check itself: StageTimeout -> INTERNAL-ERROR, never a failed obligation."""
    import multiprocessing
    import pickle
    import signal
    import traceback
    workers = []
    for group in groups:
        rd, wr = multiprocessing.Pipe(duplex=False)
        sys.stdout.flush()
        sys.stderr.flush()
        parent_pid = os.getpid()
        pid = os.fork()
        if pid == 0:
            code = 0
            try:
                rd.close()
                try:        # die with the parent (e.g. an outer `timeout` kills it): no orphan keeps a core busy
                    import ctypes
                    ctypes.CDLL('libc.so.6', use_errno=True).prctl(1, signal.SIGKILL)    # PR_SET_PDEATHSIG
                    if os.getppid() != parent_pid:       # the parent went away between fork and prctl
                        os._exit(1)
                except Exception:   # noqa: BLE001
                    pass
                for name, fn, args in group:
                    box = StageCk(ck, name)
                    box._ties_before = box._ties_before or escalate
                    wr.send(('start', name))
                    if searches:
                        def on_alarm(*_: Any) -> None:
                            signal.alarm(HEARTBEAT)
                            raise StageHang(f'no case finished for {HEARTBEAT} s')
                        signal.signal(signal.SIGALRM, on_alarm)
                        box.heartbeat = HEARTBEAT
                        signal.alarm(HEARTBEAT)
                    try:
                        timed(name, fn, box, *args)
                    except StageHang:
                        box.violation(f'search-stage-does-not-terminate:{name}',
                                      f'{name}: a call into the implementation did not return within {HEARTBEAT} s (a case normally takes '
                                      f'milliseconds to seconds) | {traceback.format_exc()[-900:]}',
                                      {'kind': 'stage', 'stage': name, 'seed': ck.seed, 'tier': 'thorough' if box.budget(0, 1) else 'quick'})
                    except Exception as e:   # noqa: BLE001
                        in_impl = any('/srctools/' in fr.filename for fr in traceback.extract_tb(e.__traceback__))
                        if not searches and not in_impl:
                            raise                  # the check itself failed: INTERNAL-ERROR
                        if not searches:
                            # the implementation raised something no tie stage expects: the tie is broken (the searches
                            # look for the input; a concrete violation of this run explains it)
                            box.obligation(f'stage:{name}', False, f'the implementation raised {type(e).__name__}: {str(e)[:200]} | '
                                           + traceback.format_exc()[-600:])
                            box.tie_broken.append(f'tie stage {name}: the implementation raised {type(e).__name__}')
                        else:
                            box.violation(f'search-stage-raises:{name}:{type(e).__name__}',
                                          f'{name} stopped with an exception none of its oracles expects from the implementation: '
                                          f'{type(e).__name__}: {str(e)[:200]} | {traceback.format_exc()[-700:]}',
                                          {'kind': 'stage', 'stage': name, 'seed': ck.seed, 'tier': 'thorough' if box.budget(0, 1) else 'quick'})
                    signal.alarm(0)
                    box.heartbeat = 0
                    try:
                        payload = pickle.dumps(box.payload())
                    except Exception as e:   # noqa: BLE001
                        payload = pickle.dumps({'error': f'records of {name} cannot be sent: {e!r}'})
                    wr.send(('done', name, payload))
                wr.send(('end',))
            except BaseException:   # noqa: BLE001
                try:
                    wr.send(('crash', traceback.format_exc()[-3000:]))
                except Exception:   # noqa: BLE001
                    pass
                code = 1
            finally:
                sys.stdout.flush()
                sys.stderr.flush()
                os._exit(code)
        wr.close()
        workers.append((pid, rd, [n for n, _, _ in group]))

    def join(soft: bool = False) -> bool:
        """soft: a search stage of this run did not terminate (reported as a violation): a tie stage that calls the same code
        will not either, so the tie stages get STAGE_LIMIT_SEARCH_QUICK more and a late one is a failed `stage:` obligation."""
        limit = (STAGE_LIMIT_SEARCH_THOROUGH if (ck.thorough or escalate or ck.tie_broken) else STAGE_LIMIT_SEARCH_QUICK) if searches else (STAGE_LIMIT_SEARCH_QUICK if soft else STAGE_LIMIT_TIE)
        from multiprocessing.connection import wait as mp_wait
        results: dict[str, dict] = {}
        problems: list[str] = []
        state = {rd: {'pid': pid, 'names': names, 'current': None, 't': time.time()} for pid, rd, names in workers}
        open_ = set(state)

        def close(rd: Any, kill: bool) -> None:
            open_.discard(rd)
            if kill:
                try:
                    os.kill(state[rd]['pid'], signal.SIGKILL)
                except OSError:
                    pass
            try:
                os.waitpid(state[rd]['pid'], 0)
            except OSError:
                pass
            rd.close()
        while open_:
            ready = mp_wait(list(open_), 2.0)
            now = time.time()
            for rd in list(open_):
                st = state[rd]
                if rd in ready:
                    try:
                        msg = rd.recv()
                    except (EOFError, OSError):
                        problems.append(f'worker for {st["names"]} died (stage {st["current"]})')
                        close(rd, True)
                        continue
                    if msg[0] == 'start':
                        st['current'], st['t'] = msg[1], now
                    elif msg[0] == 'done':
                        results[msg[1]] = pickle.loads(msg[2])
                        st['current'], st['t'] = None, now
                    elif msg[0] == 'crash':
                        problems.append(f'stage {st["current"]} crashed:\n{msg[1]}')
                        close(rd, True)
                    else:
                        close(rd, False)
                elif now - st['t'] > limit:
                    cur = st['current']
                    if searches and cur is not None:
                        results[cur] = {'log': [('violation', f'search-stage-does-not-terminate:{cur}',
                                                 f'{cur} did not finish within {limit} s (its normal time is a small fraction of that): a call into the '
                                                 'implementation does not return', {'kind': 'stage', 'stage': cur, 'seed': ck.seed,
                                                                                    'tier': 'thorough' if limit == STAGE_LIMIT_SEARCH_THOROUGH else 'quick'}, False)]}
                    elif soft and cur is not None:
                        results[cur] = {'obligations': [{'name': f'stage:{cur}', 'ok': False, 'detail': f'did not finish within {limit} s after a search stage '
                                                         'was found not to terminate (same implementation code)'}],
                                        'tie_broken': [f'tie stage {cur} did not finish (a call into the implementation does not return)']}
                    else:
                        problems.append(f'timeout: stage {cur} of {st["names"]} did not finish within {limit} s')
                    close(rd, True)
        broke = False
        for _, _, names in workers:
            for n in names:
                r = results.get(n)
                if r is None:
                    continue
                if 'error' in r:
                    problems.append(r['error'])
                    continue
                StageCk.merge_payload(ck, r)
                broke = broke or bool(r.get('tie_broken'))
        if problems:
            exc = StageTimeout if any(p.startswith('timeout') for p in problems) else RuntimeError
            raise exc('C16 worker failure (the check itself, nothing is claimed): ' + ' || '.join(problems))
        return broke
    return join


# wall-clock limits per stage (seconds).  Quick search stages take 0.1-16 s at load 25 and up to about 50 s at load 80; with the
# thorough budgets 5-200 s.  Tie stages: up to 30 s quick, 3-5 min thorough (coqc), and their coq_eval calls carry their own limits.
STAGE_LIMIT_SEARCH_QUICK = 300
STAGE_LIMIT_SEARCH_THOROUGH = 900
STAGE_LIMIT_TIE = 2400


def run(ck: Ck) -> None:
    ck.rule = ('long strings: texts built from words, escapes and runs without spaces with lengths around multiples of LIMIT and an '
               'escape placed at the cut, distinct by (syntax, text), non-trivial = needs escaping or splitting; generated FGDs: 1-4 '
               'entities with every value type, empty/long texts, tagged duplicates, aliases, helpers, resources, distinct by content, '
               'non-trivial = has keyvalues; bundled database: all entities x 4 option sets; binary: the whole database plus generated '
               'engine-style entities; binary records: generated engine-style definitions (byte-exact) and blocks of the shipped file; text '
               'lines: generated keyvalue / IO lines and @resources blocks (every value type, tags, long strings rare) as token lists, each also '
               'with 1-2 random token mutations, non-trivial = more than 6 tokens; lazy: random permutations/samples of classes (aliases '
               'always included, cross-block aliases first) on fresh databases and hand-built databases with cross-block alias chains, '
               'cycles and fans, non-trivial = more than one query; entity headers: 0-3 bases (30% aliases), 0-5 helpers from a pool of '
               'real helper types (with and without arguments, halfgridsnap, unknown and extension helpers), descriptions empty / short / '
               'special / long, as written and with 1-2 token mutations, non-trivial = more than 6 tokens; several databases: 2-3 '
               'hand-built databases over 8 class names that overlap, alias bases inside and across blocks, histories of engine_def '
               'queries then engine_dbase(), and generated override databases put in front of the bundled one (add_engine_database), '
               'non-trivial = a class defined in two databases is queried; type texts: known type names in random case with blanks and a '
               'leading *, custom names with mixed case / digits / underscores, edge cases (empty, *, ehandle spellings), through both '
               'line parsers with and without ignore_unknown_valuetype, and hand-written FGD texts with 1-6 such lines, non-trivial = has an '
               'upper-case letter; custom value types on 12-15 % of the generated keyvalues / inputs / outputs; kind keywords of every '
               'EntityTypes member in random case; block builder: 1-14 entities with sizes on the scale of MAX_BLOCK_SIZE, random '
               'overlapping pairs over a subset of them, non-trivial = more than one block and at least one pair; answer isolation: histories '
               'of 20 (class, change) pairs over the bundled database through engine_def or one engine_dbase() (10 kinds of change incl. in-place '
               'changes of the resources list, value lists and kv_order), and deepcopy + every applicable change on every entity of generated '
               'FGDs, distinct by content; helper argument lists: EVERY list of 0-4 arguments over {blank, x, b c} for unknown helpers and lists '
               'with blanks that the known helpers accept (frustum, line, cylinder, wirebox, obb, sphere, lightcone, lightconenew, appliesto, '
               'orderby), as hand-written text, non-trivial = has a blank argument; the helper pools of the generated FGDs and of the header '
               'correspondence carry blank arguments at the first, middle, last and several positions')
    ck.trusted.append('hand-written models Fmt/LongString.v, Fmt/FgdBin.v, Fmt/FgdBinEnt.v, Fmt/FgdLine.v, Fmt/FgdBody.v, Fmt/FgdHead.v, SM/LazyDb.v, SM/LazyDbMulti.v (tied by differential '
                      'correspondence on every run; decisive branches and layouts read from the source by the translator)')
    ck.trusted.append('hand-written models Fmt/FgdKindKw.v (top-level dispatch, str.title/replace on ASCII) and SM/FgdBlocks.v (block builder), tied by '
                      'correspondence with the configuration read from the source; Fmt/FgdTypeText.v: the programs are generated and proved equal '
                      'to the hand model, str.casefold = ASCII lower-casing')
    ck.trusted.append('srctools.tokenizer.Tokenizer as the lexer of the text-line correspondences (only quoted strings are modelled at character level)')
    ck.trusted.append('snippets, autovis() helpers, the @Kind keyword and the order of lines inside an entity are outside every model: covered by search only; '
                      'helper objects are abstract in the header model (HELPER_IMPL[..].parse tabulated per run)')
    ck.assumptions += [
        'ent_unserialise is a function of the block bytes and the immutable shared strings (parameter `decode` of c16_lazy_equals_eager)',
        'lzma.compress/decompress are inverse (outside the model)',
        'line theorems: value types, tags and numbers are abstract; premises vt_lookup(vt_text v) = (false, v), io_lookup(io_text v) = decay v, '
        'rt_lookup(rt_text t) = t, tags in read_tags normal form are checked on the real tables (data obligations); casefold on the keywords '
        'readonly/report/yes/no/@resources is modelled as ASCII lower-casing',
        'binary record theorem: spawnflag masks are powers of two below 2^128, SPAWNFLAGS keyvalues carry no default and other keyvalues no '
        'flag list (what the parser produces); the format does not carry descriptions, helpers, keyvalue tags, kv_order, reportable',
        'custom_syntax=False cannot represent ", \\ and CR in texts, nor tags/resources/extension helpers/aliasof (documented loss)',
        'entity header theorem: base names are non-empty, base names and helper arguments are stripped and without commas (helper arguments may '
        'be blank; the sole blank argument is excluded: helper() is no argument); bases are distinct; no helper is called '
        'base/aliasof/autovis; HELPER_IMPL[type].parse(export()) gives the helper back (checked on the generated helpers as a data obligation)',
        'translator normalisation: attribute loads are plain field reads, callees do not re-assign fields of their arguments, the str methods '
        'casefold/lower/upper/strip/... have no effects (single-assignment locals bound to such expressions are inlined before matching)',
        'several databases: every database is an independent LazyDb; FGD.apply_bases() after the merge is outside the model',
        'copy isolation: the heap model of SM/FgdCopyShare.v (mutable objects with an address over immutable leaves; an in-place change replaces '
        'the content of one object); shapes from the annotations of EntityDef / KVDef / IODef (keys of dicts, tuples, frozensets, enums and frozen '
        'attrs classes are immutable; Helper and EntityDef values need deepcopy); copy.deepcopy and list()/dict()/.copy() of the builtins behave '
        'as documented',
        'custom value type names are stripped, do not start with *, and are not a spelling of a known type (nor `ehandle` on I/O lines): '
        'what export -> parse can keep; `(* Foo)` and `(**Foo)` are outside (the stored name would start with a blank / a star)',
        'block builder: the iteration order of the set of unplaced entities is a parameter (any order); the final sort by length and '
        'compute_ent_strings are outside the model',
        'accepted normalisations: I/O type decay, empty BOOL default = "0", effective keyvalue order, newline -> space in choice/flag names',
    ]
    ok_t = timed('translate', ck.translate, 'FgdConsts_gen', c16_fgd.translate)
    side = ck.extra.get('translated', {}).get('FgdConsts_gen', {})
    data = raw_db()
    tb = db_tables(data)
    # The searches are pure Python and need no proof build: their worker processes start now, beside the build and the tie stages.
    first_escalated = bool(ck.thorough or ck.tie_broken)
    join_searches = start_workers(ck, search_groups(data, tb), searches=True)
    built = ok_t and timed('build', ck.build, ['Props/C16.vo'])
    join: Callable[..., bool] = lambda soft=False: False
    if built:
        lazy_side = side.get('engine_db', {}).get('lazy', {})
        multi_side = side.get('multi_db', {})
        via = bool(lazy_side.get('via_get_ent', True))
        ck.extra['added_database_goes'] = multi_side.get('added_database_goes')
        # Information only: the model marks a block as decoded before its bases loop, as the source does today.  Marking it
        # afterwards is observably the same (ent_map already holds the block's definitions, so no look-up re-enters the block):
        # no obligation, the budgets are raised instead.
        ck.extra['lazy_block_marked_before_bases_loop'] = bool(lazy_side.get('mark_before_resolve', True) and lazy_side.get('mark_after_decode', True))
        if not ck.extra['lazy_block_marked_before_bases_loop']:
            ck.notes.append('_parse_block no longer marks the block as decoded between the decoding loop and the bases loop: lazy budgets raised')
            ck.tie_broken.append('shape of _parse_block changed (mark position): budgets raised, no obligation')
        # informational: duplicates in the order lists (harmless, see c16_order_roundtrip)
        vo = side.get('engine_db', {}).get('vt_order', [])
        ck.extra['value_type_order_duplicates'] = sorted({x for x in vo if vo.count(x) > 1})
        # The tie stages are coqc processes plus case generation: six worker processes (see start_workers / StageCk: private
        # random streams, buffered records merged in the order of these lists, so nothing depends on timing).
        join = start_workers(ck, [
            [('theorems', theorems_all, ()),
             ('instance_obligations', lambda c: c.instance_obligations(IMPORTS, INSTANCE_OBLIGATIONS, name='c16'), ()),
             ('data_obligations', data_obligations, (data, tb)),
             ('line_data_obligations', line_data_obligations, ()),
             ('corr_bits', corr_bits, ())],
            [('corr_writer_reader', corr_writer_reader, ())],
            [('corr_lines', corr_lines, ())],
            [('corr_binary_records', corr_binary_records, (data, tb)),
             ('corr_blocks', corr_blocks, ())],
            [('corr_strdict', corr_strdict, ()),
             ('corr_lazy', corr_lazy, (data, tb, via))],
            [('corr_head', corr_head, ()),
             ('corr_type_text', corr_type_text, ()),
             ('corr_kind_keyword', corr_kind_keyword, ()),
             ('corr_multi', corr_multi, (via, bool(multi_side.get('effective_first', True))))],
        ], searches=False)
    join_searches()
    hung = any(v['key'].startswith('search-stage-does-not-terminate') for v in ck.violations)
    if (join(hung) or ck.tie_broken) and not first_escalated and not hung:
        # a tie was broken by the build or by a tie stage while the searches ran with the small budgets: search again, escalated
        ck.notes.append('a tie was broken by the build or by a stage that ran beside the searches: searches repeated with the thorough budgets')
        start_workers(ck, search_groups(data, tb), searches=True, escalate=True)()
    keys = {v['key'] for v in ck.violations}
    if any(k.startswith('search-stage-') for k in keys):
        ck.explain('translate:')      # the stage replay is the concrete input for whatever the translator could not read either
    if keys:
        ck.explain('instance:property_hypotheses_hold')   # the conjunction of the named booleans: the parts say which mechanism
        ck.explain('stage:')      # a tie stage the implementation made raise / hang is explained by any concrete finding of this run
    # Failed obligations are explained by a concrete violation of the same mechanism (with a replayable input).
    if any(k.startswith('longstring:empty-text') or k.startswith('bundled-db-export-unparseable:empty-display-name') for k in keys):
        ck.explain('instance:longstring_empty_text_written_as_quotes')
    if any(k.startswith('longstring:cut-strands') for k in keys):
        ck.explain('instance:longstring_hard_cut_never_strands_backslash')
    if any(k.startswith('longstring:') for k in keys):
        ck.explain('instance:longstring_')
        ck.explain('instance:plain_escape_replacements')
        ck.explain('correspondence:write_longstring')
    if any(k.startswith('binary-') for k in keys):
        ck.explain('instance:bit_literals_are_128_127')
        ck.explain('instance:entflags_layout')
        ck.explain('correspondence:bit_packings')
        ck.explain('correspondence:BinStrDict')
        ck.explain('correspondence:binary_')
        ck.explain('instance:binary_')
    if any('resources' in k and (k.startswith('generated-fgd') or k.startswith('bundled-db')) for k in keys):
        ck.explain('instance:text_resources_block_written_when_defined')
        ck.explain('instance:text_line_cfg_ok_is_these')
    if any(k.startswith('type-text-') or 'custom-value-type' in k for k in keys):
        ck.explain('instance:text_kv_type_')
        ck.explain('instance:text_io_type_')
        ck.explain('instance:text_kv_unknown_type')
        ck.explain('instance:text_io_unknown_type')
        ck.explain('instance:text_type_')
        ck.explain('correspondence:text_type_text')
    if any(k.startswith('type-text-') or k.startswith('generated-fgd') or k.startswith('bundled-db') for k in keys):
        # a type text that is written is not read back as the (decayed) member: parse errors / changed definitions are the inputs
        ck.explain('instance:text_io_decay')
        ck.explain('instance:text_type_table')
        ck.explain('data:io_type_names')
        ck.explain('data:value_type_names')
    if any('near-number-default' in k for k in keys):
        # a default written without quotes that is not read back as that one token: the inputs of the bare-default premise
        ck.explain('instance:text_default_')
        ck.explain('correspondence:text_lines_')
    if any(k.startswith('helper-args-') or 'helpers' in k or 'blank-helper-argument' in k for k in keys):
        ck.explain('instance:text_helper_args_')
        ck.explain('correspondence:text_header_')
    if any(k.startswith('generated-fgd') or k.startswith('bundled-db') for k in keys):
        ck.explain('instance:text_kv_')
        ck.explain('instance:text_bool_')
        ck.explain('instance:text_line_cfg_ok_is_these')
        ck.explain('correspondence:text_lines_')
        ck.explain('correspondence:text_header_')
        ck.explain('instance:text_kind_')
        ck.explain('correspondence:text_kind_keyword')
    # a translator that failed closed at a site is explained by a concrete violation of the mechanism that site belongs to
    site_of = (('engine_dbase', 'lazy-'), ('engine_def', 'lazy-'), ('add_engine_database', 'lazy-'), ('EngineDB', 'lazy-'), ('_parse_block', 'lazy-'), ('get_fgd', 'lazy-'), ('serialise', 'binary-'), ('build_blocks', 'binary-'), ('BinStrDict', 'binary-'),
               ('_write_longstring', 'longstring:'), ('_fgd_escape', 'longstring:'), ('ESCAPE', 'longstring:'),
               ('KVDef.export', 'generated-fgd'), ('IODef.export', 'generated-fgd'), ('EntityDef.export', 'generated-fgd'),
               ('KVDef._parse', 'type-text-'), ('IODef._parse', 'type-text-'), ('VALUE_TYPE_LOOKUP', 'type-text-'), ('ValueTypes', 'type-text-'), ('VALUE_TO_IO_DECAY', 'generated-fgd'), ('VALUE_TO_IO_DECAY', 'type-text-'),
               ('KVDef._parse', 'generated-fgd'), ('IODef._parse', 'generated-fgd'), ('FGD.parse_file', 'generated-fgd'), ('EntityDef.parse', 'helper-args-'), ('EntityDef.parse', 'generated-fgd'), ('EntityDef.export', 'helper-args-'), ('__deepcopy__', 'lazy-answer-not-isolated'), ('.copy', 'lazy-answer-not-isolated'),
               ('FGD.parse_file', 'bundled-db'), ('EntityTypes', 'generated-fgd'))
    for tie in ck.tie_broken:
        if tie.startswith('translator '):
            if any(word in tie and any(k.startswith(pref) for k in keys) for word, pref in site_of):
                ck.explain('translate:')
    if any(k.startswith('lazy-') for k in keys):
        ck.explain('correspondence:lazy_db')
        ck.explain('instance:lazy_')
    if any(k.startswith('lazy-answer-not-isolated') for k in keys):
        ck.explain('instance:state_')
    if any(k.startswith('lazy-multi-db') for k in keys):
        ck.explain('correspondence:multi_db')
        ck.explain('instance:multi_db_')
    if any(k.startswith('lazy-base-unresolved') for k in keys):
        # bases left as bare names inside one database also show in the histories over several databases (the model in the
        # ent_map mode leaves them unresolved in the whole database too, FGD.apply_bases() resolves them there): same mechanism
        ck.explain('correspondence:multi_db')


# =============================================================================================== replay
def replay(data: dict) -> int:
    r = data['replay']
    kind = r.get('kind') if isinstance(r, dict) else None
    if kind == 'longstring':
        ok, out, back = longstring_case(r['extended'], r['text'], r['indent'], r['tail'])
        print('text      :', repr(r['text'][-80:]), f'({len(r["text"])} chars)')
        print('written   :', repr(out[-120:]))
        print('read back :', 'PARSE ERROR' if back is None else repr(back[-80:]))
        print('round trip:', ok)
        return 0 if ok else 1
    if kind == 'stage':
        # a search stage that raised an unexpected exception or did not terminate: run it again (same seed, same budgets)
        import signal
        import traceback

        class ReplayCk:
            def __init__(self) -> None:
                self.seed, self.tier, self.thorough = r['seed'], r['tier'], r['tier'] == 'thorough'
                self.rng = random.Random(f'{r["seed"]}:{r["stage"]}')
                self.extra: dict = {}
                self.notes: list = []
                self.found: list = []

            def budget(self, q: int, t: int) -> int:
                return t if self.thorough else q

            def count(self, *a: Any, **k: Any) -> None:
                signal.alarm(limit)

            def hist(self, *a: Any, **k: Any) -> None:
                pass
            seen = sample = hist

            def violation(self, key: str, what: str, rep: Any, no_input: bool = False) -> None:
                print('VIOLATION', key, ':', what)
                self.found.append(key)
        fn, args = search_stage(r['stage'])
        rck = ReplayCk()
        limit = HEARTBEAT

        def on_alarm(*_: Any) -> None:
            raise TimeoutError(f'{r["stage"]}: no case finished for {limit} s')
        signal.signal(signal.SIGALRM, on_alarm)
        signal.alarm(limit)
        try:
            fn(rck, *args)
        except BaseException:   # noqa: BLE001
            traceback.print_exc()
            print('VIOLATION: the stage raised / did not terminate')
            return 1
        finally:
            signal.alarm(0)
        return 1 if rck.found else 0
    if kind == 'blocks':
        print('entity sizes:', r['sizes'], ' overlapping pairs:', r['pairs'])
        print('blocks:', impl_build_blocks(r['sizes'], [tuple(p) for p in r['pairs']]))
        w = check_blocks(r['sizes'], [tuple(p) for p in r['pairs']])
        print('VIOLATION ' + w if w else 'every entity is in exactly one block')
        return 1 if w else 0
    if kind == 'isolation':
        w2 = check_isolation([tuple(x) for x in r['cases']], r['via'])
        for _, _, t in w2:
            print('VIOLATION', t)
        if not w2:
            print('every later answer and the whole database equal the first answers')
        return 1 if w2 else 0
    if kind == 'multi_isolation':
        found_m = check_multi_isolation({'dbs': r['dbs'], 'ops': []})
        for how, what in found_m:
            print('VIOLATION', how, ':', what)
        if not found_m:
            print('changing the first FGD.engine_dbase() answer in place does not change the second')
        return 1 if found_m else 0
    if kind == 'copy_isolation':
        found_c = check_copy_isolation(r['key'])
        for cn, how, what in found_c:
            print('VIOLATION', cn, how, ':', what)
        if not found_c:
            print('no in-place change of a deepcopy() reaches the original')
        return 1 if found_c else 0
    if kind == 'near_number':
        print(r['text'])
        one = check_near_number([tuple(x) for x in r['items']], r['opts'])
        if one is not None:
            print('VIOLATION', one[0], ':', one[1])
        return 1 if one is not None else 0
    if kind == 'helper_args':
        print(r['text'])
        found_h = check_helper_args([(n, list(a)) for n, a in r['items']])
        for k, t in found_h:
            print('VIOLATION', k, ':', t)
        return 1 if found_h else 0
    if kind == 'type_text':
        print(r['text'])
        found_t = check_type_text([tuple(x) for x in r['lines']])
        for k, t in found_t:
            print('VIOLATION', k, ':', t)
        return 1 if found_t else 0
    if kind == 'fgd_text':
        print(r['exported'])
        try:
            f = parse_text(r['exported'], bool(r.get('unknown_types')))
            print('parsed entities:', list(f.entities))
            print('re-export equal:', f.export(**r['opts']) == r['exported'])
        except Exception as e:   # noqa: BLE001
            print('parse error:', e)
        return 1
    if kind == 'lazy_synthetic':
        db, bases, blocks = synth_db(random.Random(0), r['shape'], r['blocks'])
        print('blocks:', blocks, ' stored bases:', bases)
        bad = 0
        try:
            for q in r['order']:
                ent = db.get_ent(q)
                got = [b if isinstance(b, str) else f'<EntityDef {b.classname}>' for b in ent.bases]
                print(f'get_ent({q!r}).bases = {got}')
                bad += any(isinstance(b, str) for b in ent.bases)
        except RecursionError:
            print('RecursionError: the base look-ups do not terminate')
            bad += 1
        return 1 if bad else 0
    if kind == 'multi_db':
        sc = r['scenario']
        for i, d in enumerate(sc['dbs']):
            print(f'database {i} of the list: blocks {d["blocks"]}, stored bases {d["bases"]}, marks {d["marks"]}')
        print('operations (None = FGD.engine_dbase()):', sc['ops'])
        try:
            for op, obs, parsed in run_multi_impl(sc)['steps']:
                print(f'  {"engine_dbase()" if op is None else "engine_def(%r)" % op} -> {obs}')
        except Exception as e:   # noqa: BLE001
            print('raises', repr(e))
        found = check_multi_scenario(sc)
        for k, t in found:
            print('VIOLATION', k, ':', t)
        return 1 if found else 0
    if kind == 'added_database':
        found3 = check_added_database(None, db_tables(raw_db())['names'], r['seed'], r.get('n_bundled', 40))
        for k, t, _ in found3:
            print('VIOLATION', k, ':', t)
        return 1 if found3 else 0
    if kind == 'bundled':
        from srctools.fgd import FGD
        res = roundtrip_fgd(FGD.engine_dbase(), r['opts'])
        print({k: (v if k not in ('text', 'parsed') else '...') for k, v in res.items()})
        return 0 if res['stage'] == 'ok' else 1
    print(r)
    return 0
