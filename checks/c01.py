"""C01 — KeyValues1 serialise/parse round trip preserves the whole tree."""
from __future__ import annotations

import io
import random
import signal as _signal
import threading as _threading
import time
import warnings

from harness.common import Ck, coq_bool, coq_list, parse_coq_N_list
from translate import c01_kvaux, c01_kvloop, c01_kvser, c02_tables

MANIFEST = dict(
    technique='Rocq proof (character-level KV lexer proved equal to the reader-program tokenizer model of C03 under the '
              'options Keyvalues.parse passes; Keyvalues.parse token loop with its options; template-interpreting models of '
              'serialise() and of the deprecated export(); round trip by induction over trees; chunk independence '
              'inherited from the generic reader theorem; the token loop regenerated from the source as a decision tree by '
              'symbolic execution of the loop body, its semantics proved equal to the hand-written token loop for the '
              'reference tree, and a symbolic tree-equivalence checker proved sound) + ast translator for write templates, '
              'escape tables and the decisive tests of parse/_serialise/export with kernel-checked instance obligations + vm_compute '
              'correspondences (sampled, and exhaustive at the token level) + round-trip oracle on the implementation',
    text='Theorems in Props/C01.v: for every write-template configuration accepted by cfg_ok (xcfg_ok for export()), every '
         'escape table accepted by esc_ok and every parser configuration accepted by pcfg_ok, for all trees (any '
         'depth/width, empty blocks, duplicate names, empty strings, every code point; names without line breaks), all '
         'whitespace-only indent/start_indent strings and both brace styles, parse(serialise(t)) = t with no error, for '
         'root documents and named nodes, through serialise() and through export(); the same for every setting of the '
         'parse options newline_keys / newline_values / single_line (with newline_keys=True for ALL names), and '
         'single_block=True returns the first node itself; the token stream is the same for any two whitespace-only '
         'option sets and the text after deleting blanks outside quotes is a function of the tree alone. '
         'kv_lexer_refines_tokenizer: the KV lexer model yields exactly the tokens and the error of the C03 tokenizer '
         'model (reader programs over _next_char with push-back) under string_bracket/string_parens/allow_escapes; hence '
         'parse_any_delivery: parsing any list of chunks (any cuts, empty chunks) or any reader state denoting the text '
         'equals parsing the concatenation, and kv_roundtrip_any_delivery. Refuted variants with computed witnesses: raw '
         'block name (pinned _serialise/export), truth-valued root test, a key line-break test wider than LF/CR, line '
         'breaks in names/values under the options that forbid them, non-whitespace indent. Regenerated from the source '
         'on every run: every f-string piece of the writers (literal / variable / raw field / escape_text(field)), the '
         'root tests of _serialise and export, the structure of export(), ESCAPES and the ESCAPE_RE exclusions, the '
         'character sets of the two "Illegal newline" tests of parse, the emptiness guards of the flag-replacement tests '
         'and of the single_block return, the Tokenizer(...) options, and a census of stores/mutating calls on the tree '
         'inside the writers; cfg_ok/xcfg_ok/esc_ok/pcfg_ok/tables_match are discharged for them in the kernel as '
         'named booleans. The token loop model is compared with Keyvalues.parse on ALL token strings up to length 4 '
         '(thorough: 5) over a 9-symbol alphabet under all 16 option vectors (scripted tokenizer, checksums), on '
         'generated/mutated/hand-made texts under random options, and on chunk lists through the reader model; the '
         'writers models are compared with serialise()/export() text exactly. '
         'Round 3: translate/c01_kvloop.py executes the body of the token loop of Keyvalues.parse symbolically, path by '
         'path (control flow normalised by inlining the continuation, decided tests pruned, heap operations on '
         'cur_block / cur_block_contents / open_keyvalues / keyvalue summarised per path into one block-stack operation '
         'after checking that the loop invariant is re-established) into a decision tree gen_ptree (112 tests, 113 leaves) '
         'and gen_pfinal. ploop gives the trees a semantics; parse_loop_reference_tree_is_token_loop proves that the '
         'reference tree runs exactly like the hand-written prun from every state on every token list; '
         'parse_loop_tree_equiv_sound proves the symbolic equivalence checker tree_equiv sound (order of independent '
         'tests, repeated/redundant tests do not matter); loop_ok gen_ptree gen_pfinal gen_parsecfg is discharged in the '
         'kernel, so parse_loop_tree_is_model and kv_roundtrip_source_loop* apply to the regenerated loop. Named '
         'obligations per kind of loop token, for the push/pop sites and for the loop invariant point at the site of a '
         'deviation; the regenerated tree is also run against prun inside the kernel on all token strings up to length 3 '
         '(thorough 4) x 16 option vectors x 2 endings, and against Keyvalues.parse in the exhaustive token-level '
         'correspondence. The line-break character sets and the emptiness guards of parse are read off that symbolic '
         'execution (not off the spelling of the tests). escape_text is read semantically: its body is evaluated for '
         'multiline=False down to <pattern>.sub(<matcher>, text) with optional "nothing to escape" fast paths; the '
         'patterns are taken as the values the module under test holds and reduced to the set of characters they match; '
         'the matcher must index a table whose runtime value agrees with the ESCAPES literal; a fast path must look for '
         'every escaped character (obligation). The Tokenizer options in effect in parse (keyword-only defaults of '
         'Tokenizer.__init__ overridden by the call) are an obligation. KV/KvFlags.v read_flag is compared with _read_flag '
         'directly (correspondence:read_flag). '
         'Round 4: the public wrapper serialise() is executed symbolically into its execution paths (which buffer / file '
         'every _serialise call and write goes to, what getvalue() reads, what is returned): gen_serpaths; delivery_ok '
         '(every path hands the writes of one _serialise call, given the caller\'s start_indent, to the destination '
         'unprocessed and returns the text / None; a path for every way of calling) is discharged in the kernel, and '
         'serialise_delivery / serialise_file_and_returned_text_agree prove that for such paths the text reaching the '
         'file or the returned string is the writer model\'s text (a pass over the finished text such as '
         'textwrap.indent is rejected, with a computed witness). _read_flag is executed symbolically into a decision '
         'tree gen_flagprog; read_flag_program_is_model proves that every tree accepted by flagprog_ok computes '
         'read_flag of KV/KvFlags.v for all arguments / mappings / casefold functions. _serialise is also read as a '
         'program of write / child-loop / store / mutating-call instructions gen_wprog: '
         'writer_program_leaves_tree_unchanged (no store instruction => the tree comes back unchanged whatever a '
         'store would do) and writer_program_writes_model_text. Predicate methods of the object (is_root(), '
         'has_children()) are inlined where the writers test them. c01_property states the whole property once, with '
         'its nine hypotheses (all decidable conditions on regenerated objects) visible; '
         'c01_property_hypotheses_satisfiable and the obligation all_nine_hypotheses_... discharge them for the '
         'reference and for the regenerated objects. allow_escapes=False: the C03 tokenizer model with the option off '
         'is compared with Keyvalues.parse in correspondence:parse-chunked; computed witnesses that the round trip '
         'fails under it; an oracle for trees that need no escaping. KV/KvShift.v: for write templates that are '
         'sequences of writer lines (lines_ok over the generated templates: exactly one cur_indent at the start of each '
         'line, a literal LF at its end, no LF in between) the text written at cur_indent c is the text written at the empty '
         'cur_indent with c put in front of every LF-terminated line (ser_node_is_shift_of_unindented, '
         'serialise_start_indent_shifts_writer_lines): the indent can never land inside a quoted string. '
         'Round 5: histories of calls. _serialise is read a second time over the state that outlives a call (gen_hprog, '
         'KV/KvWHist.v: writes, which can raise; the child loop; guard / mark / unmark / any other use of a module-level or '
         'class-level mutable object that some function of the module changes); writer_outcome_independent_of_leftover_state '
         'and writer_history_independent: a program without state instructions gives back what it found and, after ANY '
         'history of earlier calls (completed, or aborted by the file raising at any write), runs exactly as in a fresh '
         'process; writer_marks_left_behind_refuted: cycle detection through a module-level set that is un-marked after the '
         'children but not in a finally clause (seeded fault c01_7) -- one aborted call and the same valid tree can never '
         'be written again. Obligations: hprog_stateless gen_hprog, an empty census of state sites in serialise / '
         '_serialise / export / escape_text / _escape_matcher, and same_skeleton gen_hprog gen_wprog. Oracle: aborted call '
         '(file raising at the k-th write, once or 130 times; a value that is not a string, repaired; a cycle, taken out '
         'again; an export() generator dropped after a few lines) or an edit through the public API, then the same tree is '
         'written again and compared with a freshly built equal tree (also for blocks below it). The deprecated export() '
         'is now also an instruction program gen_xprog (KV/KvXProg.v): export_program_leaves_tree_unchanged and '
         'export_program_yields_model_text (the program yields the text of the export model exp_node).',
    note='Trusted: Coq kernel + vm_compute, translate/c01_kvser.py (incl. re._parser for the character set of the '
         'escape patterns; checked per character against escape_text), translate/c01_kvloop.py (the symbolic reading of '
         'the loop body: alias tracking of four variables, classification of error messages by prefix) and '
         'translate/c02_tables.py, the meaning given to the atoms and block-stack operations in KV/KvLoop.v '
         '(eval_atom, apply_sop) -- the hand model of the token loop KV/KvParse.v is now proved equal to the regenerated '
         'tree under that meaning, and both are still compared with Keyvalues.parse by the exhaustive token-level and '
         'sampled text-level correspondences --, the C03 '
         'tokenizer model Text/Tokenizer.v (tied by C03\'s exhaustive small-scope correspondence; KV/KvLex.v is no longer '
         'trusted: it is proved equal to it), CPython, translate/c01_kvaux.py (symbolic reading of _read_flag; the readings of serialise() and of the statement '
         'list of _serialise live in translate/c01_kvser.py). The round-trip theorems hold for an arbitrary flag '
         'predicate; c01_property instantiates it with the regenerated _read_flag. allow_escapes=False has no general '
         'theorem (sampled correspondence + witnesses). escape_text(multiline=True) (no KV1 writer uses it), trees with '
         'a nameless node below the root (the format cannot carry them: they are flattened into the parent), non-str '
         'values (escape_text raises), cyclic trees and the Cython tokenizer twin are outside the model. '
         '"Serialisation never changes the tree" is, for serialise()/_serialise and (round 5) for the deprecated export(), a '
         'theorem about the instruction programs gen_wprog / gen_xprog (the store '
         'instruction is any statement that assigns to / deletes an attribute or item of a tree object or calls a '
         'mutating method on one; method calls taken as pure must be one-line pure predicates of the class); the '
         'syntactic census and the identity walk are kept. History independence: trusted are the classification of '
         'module-level / class-level objects as mutable (by the value the imported module holds) and as "changed by some '
         'function of the module" (mutating method call, item / attribute store, global declaration: syntactic), and the '
         'reading of statements as guard / mark / unmark / state in translate/c01_kvser.py state_kind; the model of an '
         'aborted call is "the k-th write raises and nothing after it runs" (try/finally in a writer: fail closed). State '
         'reached only through functions of other modules that the writers call (beyond escape_text / _escape_matcher), '
         'decorators (export() is @deprecated: the warnings registry) and C-level caches are outside the census; the '
         'history oracle covers them by sampling.',
)

# ------------------------------------------------------------------------------------------------ calls into the implementation
# A fault can make the implementation loop or raise something unexpected: every call into it that depends on generated
# input runs under an alarm, and both outcomes are turned into results (a failing input), never into a hung or crashed check.
# A call takes well under a millisecond; the limit is four to five orders of magnitude above that, so load cannot trip it.
IMPL_TIME_LIMIT = 20.0
UNVERIFIED = [False]      # set when a call was answered 'hang' without being made
MAX_HANGS = 3      # after that many, the implementation is not called any more: every call answers 'hang' at once
HANGS = [0]       # calls that hit the limit (shrinking stops at the first one: every further probe would cost the limit again)


_MAIN_THREAD = _threading.main_thread()


class ImplTimeout(BaseException):
    """Raised by the alarm inside a call into the implementation (BaseException: `except Exception` cannot swallow it)."""


def _on_alarm(signum, frame):
    HANGS[0] += 1
    raise ImplTimeout()


_ARMED = [False]


def guarded(fn, *a, **kw):
    """fn(*a, **kw) under the alarm (main thread only; the handler is installed once, a call costs two setitimer calls)."""
    if _threading.current_thread() is not _MAIN_THREAD:
        return fn(*a, **kw)
    if HANGS[0] >= MAX_HANGS:
        UNVERIFIED[0] = True
        raise ImplTimeout()
    if not _ARMED[0]:
        _signal.signal(_signal.SIGALRM, _on_alarm)
        _ARMED[0] = True
    _signal.setitimer(_signal.ITIMER_REAL, IMPL_TIME_LIMIT)
    try:
        return fn(*a, **kw)
    finally:
        _signal.setitimer(_signal.ITIMER_REAL, 0)


IMPORTS = ['Coq.Lists.List', 'Coq.NArith.NArith', 'Coq.Bool.Bool', 'SV.KV.KvBase', 'SV.KV.KvLex', 'SV.KV.KvParse',
           'SV.KV.KvSer', 'SV.KV.KvSym', 'SV.KV.KvExport', 'SV.KV.KvEnum', 'SV.KV.KvFlags', 'SV.Gen.KVSer_gen']
IMPORTS_LOOP = ['Coq.Lists.List', 'Coq.NArith.NArith', 'Coq.Bool.Bool', 'SV.KV.KvBase', 'SV.KV.KvLex', 'SV.KV.KvParse',
                'SV.KV.KvLoop', 'SV.KV.KvLoopRef', 'SV.KV.KvLoopEquiv', 'SV.KV.KvLoopRoundtrip', 'SV.KV.KvEnum', 'SV.KV.KvLoopEnum',
                'SV.Gen.KVSer_gen', 'SV.Gen.KVLoop_gen']
IMPORTS_AUX = ['SV.KV.KvWriter', 'SV.KV.KvFlagProg', 'SV.KV.KvWProg', 'SV.KV.KvWHist', 'SV.KV.KvXProg', 'SV.KV.KvShift', 'SV.Gen.KVAux_gen']
IMPORTS_REFINE = ['Coq.Lists.List', 'Coq.NArith.NArith', 'Coq.Bool.Bool', 'SV.Text.Str', 'SV.Text.Prog', 'SV.Text.Tokenizer',
                  'SV.Text.TokGen', 'SV.KV.KvBase', 'SV.KV.KvLex', 'SV.KV.KvParse', 'SV.KV.KvRefine', 'SV.Gen.KVSer_gen']
PRE = '''Import ListNotations. Open Scope N_scope.
Fixpoint bad_idx {A} (f : A -> bool) (n : N) (l : list A) : list N :=
  match l with [] => [] | x :: r => (if f x then [] else [n]) ++ bad_idx f (n + 1) r end.
(* expected result: inl (inl doc) = root with children, inl (inr k) = single node, inr code = error kind *)
Definition agree (r : pres) (e : (list kv + kv) + N) : bool :=
  match r, e with
  | POk d, inl (inl d') => doc_eqb d d'
  | PNode k, inl (inr k') => kv_eqb k k'
  | PErr x, inr c => perr_code x =? c
  | _, _ => false end.
(* _read_flag: the flags mapping given to parse, FLAGS_DEFAULT as found at run time (run_defaults, appended below),
   and the graph of str.casefold on the flag names that occur *)
Fixpoint assoc_s (k : str) (t : list (str * str)) : option str :=
  match t with [] => None | (k', v) :: r => if str_eqb k' k then Some v else assoc_s k r end.
Definition cf_tbl (t : list (str * str)) (s : str) : str := match assoc_s s t with Some x => x | None => s end.
Definition parse_case (defaults : list (str * bool))
    (c : ((str * N) * (list (str * bool) * list (str * str))) * ((list kv + kv) + N)) : bool :=
  agree (parse_kv_opts gen_parsecfg (mkopts (snd (fst (fst c)))) gen_escfg
           (read_flag (cf_tbl (snd (snd (fst c)))) (fst (snd (fst c))) defaults) (fst (fst (fst c))))
        (snd c).
Definition ser_case (c : ((str * bool * str) * list kv) * str) : bool :=
  let '(i, b, s) := fst (fst c) in
  str_eqb (serialise_doc gen_sercfg gen_escfg {| o_indent := i; o_indent_braces := b; o_start := s |} (snd (fst c))) (snd c).
Definition exp_case (c : list kv * str) : bool := str_eqb (export_doc gen_expcfg gen_escfg (fst c)) (snd c).
Definition exp_node_case (c : kv * str) : bool := str_eqb (export_node gen_expcfg gen_escfg (fst c)) (snd c).
Definition ser_node_case (c : ((str * bool * str) * kv) * str) : bool :=
  let '(i, b, s) := fst (fst c) in
  str_eqb (serialise_node gen_sercfg gen_escfg {| o_indent := i; o_indent_braces := b; o_start := s |} (snd (fst c))) (snd c).
'''

ERR_CODES = [
    ('Reached end of line without closing', 1), ('Cannot nest [] brackets', 2), ('Unterminated property flag', 3),
    ('Cannot nest () brackets', 4), ('Unterminated parentheses', 5), ('No open [] to close', 6),
    ('No open () to close', 7), ('/**/-style comments are not allowed', 8), ('Single slash found', 9),
    ('No character to escape', 10), ('Unterminated string', 11), ('Unexpected character', 12),
    ('Keyvalues cannot have sub-section', 20), ('Block opening ("{") required, but hit EOF', 27),
    ('Block opening (', 21), ('Illegal newline found in key', 22), ('Illegal newline found in value', 30),
    ('Expected ', 23),
    ('Cannot have multiple names', 24), ('Too many closing brackets', 25), ('Unexpected ', 26),
    ('File ended unexpectedly', 26), ('End of text reached with remaining open sections', 28),
]
ERR_NAMES = {1: 'flag-newline', 2: 'flag-nest', 3: 'flag-eof', 4: 'paren-nest', 5: 'paren-eof', 6: 'close-bracket',
             7: 'close-paren', 8: 'star-comment', 9: 'single-slash', 10: 'no-escape-char', 11: 'unterminated-string',
             12: 'unexpected-char', 20: 'block-after-value', 21: 'block-required', 22: 'newline-in-key',
             23: 'expected-newline', 24: 'multiple-names', 25: 'too-many-close', 26: 'unexpected-token',
             27: 'eof-block-required', 28: 'eof-open-blocks', 29: 'index-error', 30: 'newline-in-value',
             97: 'unexpected-exception', 98: 'hang', 99: 'other'}

# Keyvalues.parse options covered by the model, as bits of the number handed to Coq (mkopts in PRE)
OPT_NAMES = ['newline_keys', 'newline_values', 'single_line', 'single_block']
DEFAULT_OPT_BITS = 2      # newline_values=True, the others False


def opt_bits(o: dict) -> int:
    return sum(1 << i for i, k in enumerate(OPT_NAMES) if o.get(k, k == 'newline_values'))


def bits_opts(b: int) -> dict:
    return {k: bool(b >> i & 1) for i, k in enumerate(OPT_NAMES)}

# ------------------------------------------------------------------------------------------------ trees
# A tree is ('L', name, value) or ('B', name, [children]); a document is a list of trees.
SPECIAL_NAME = ['"', '\\', '{', '}', '[', ']', '(', ')', '\t', '\v', '\b', '\f', '\a', '?', '/', "'", '#', '=', ',', ';',
                ':', '+', ' ', '!', '$', '*', '\ufeff', '\x00', '\x1b', '\x7f', '\x85', '\u2028', '\ud800', '\udfff',
                '\U0001f600', '\U0010ffff', '\xe9', '\u0416']
SPECIAL_VALUE = SPECIAL_NAME + ['\n', '\r', '\r\n', '\n\r']
PLAIN = list('ntvbrfaxyzAB019_.')


def gen_str(rng: random.Random, value: bool) -> str:
    r = rng.random()
    if r < 0.08:
        return ''
    n = rng.choice([1, 1, 2, 2, 3, 4, 6, 10])
    spec = SPECIAL_VALUE if value else SPECIAL_NAME
    p_spec = rng.choice([0.0, 0.3, 0.6, 1.0])
    out = []
    for _ in range(n):
        if rng.random() < p_spec:
            out.append(rng.choice(spec))
        elif rng.random() < 0.1:
            c = chr(rng.choice([rng.randrange(0x20), rng.randrange(0x80, 0x3000), rng.randrange(0x10000, 0x110000)]))
            out.append(c if value or c not in '\r\n' else 'x')
        else:
            out.append(rng.choice(PLAIN))
    return ''.join(out)


def gen_tree(rng: random.Random, depth: int, width: int):
    if depth <= 0 or rng.random() < 0.45:
        return ('L', gen_str(rng, False), gen_str(rng, True))
    n = rng.choice([0, 1, 1, 2, 3, width])
    kids = [gen_tree(rng, depth - 1, width) for _ in range(n)]
    if kids and rng.random() < 0.25:      # duplicate names / duplicate subtrees
        kids.append(rng.choice(kids))
    return ('B', gen_str(rng, False), kids)


def gen_doc(rng: random.Random) -> list:
    shape = rng.random()
    if shape < 0.05:
        return []
    if shape < 0.12:     # deep chain
        t = ('L', gen_str(rng, False), gen_str(rng, True))
        for _ in range(rng.choice([5, 12, 30])):
            t = ('B', gen_str(rng, False), [t])
        return [t]
    depth = rng.choice([0, 1, 2, 3, 4])
    return [gen_tree(rng, depth, rng.choice([2, 4, 8])) for _ in range(rng.choice([1, 1, 2, 3]))]


def build(t):
    from srctools.keyvalues import Keyvalues
    if t[0] == 'L':
        return Keyvalues(t[1], t[2])
    return Keyvalues(t[1], [build(c) for c in t[2]])


def build_root(doc):
    from srctools.keyvalues import Keyvalues
    return Keyvalues.root(*[build(t) for t in doc])


def snapshot(kv):
    """Deep structural copy of a Keyvalues tree (names with original casing, values, order)."""
    v = kv._value
    if isinstance(v, list):
        return ('B', kv._real_name, [snapshot(c) for c in v])
    return ('L', kv._real_name, v)


def identity_walk(kv) -> list:
    out = [(id(kv), kv._real_name, kv._folded_name, id(kv._value) if isinstance(kv._value, list) else kv._value)]
    if isinstance(kv._value, list):
        for c in kv._value:
            out += identity_walk(c)
    return out


def tree_stats(doc) -> tuple[int, int, bool]:
    """(nodes, depth, has a character that needs care)"""
    nodes = depth = 0
    special = False

    def walk(t, d):
        nonlocal nodes, depth, special
        nodes += 1
        depth = max(depth, d)
        strs = [t[1]] + ([t[2]] if t[0] == 'L' else [])
        if any(c in '"\\{}[]()\t\n\r\v\b\f\a/#\'' or ord(c) > 0xffff or 0xd800 <= ord(c) < 0xe000 for s in strs for c in s):
            special = True
        if t[0] == 'B':
            for c in t[2]:
                walk(c, d + 1)
    for t in doc:
        walk(t, 1)
    return nodes, depth, special


def coq_chars(s: str) -> str:
    return '[' + ';'.join(str(ord(c)) for c in s) + ']'


def coq_tree(t) -> str:
    if t[0] == 'L':
        return f'Leaf {coq_chars(t[1])} {coq_chars(t[2])}'
    return f'Block {coq_chars(t[1])} [{"; ".join(coq_tree(c) for c in t[2])}]'


def coq_doc(doc) -> str:
    return '[' + '; '.join(coq_tree(t) for t in doc) + ']'


# ------------------------------------------------------------------------------------------------ implementation runs
def impl_parse(data, flag_log: dict | None = None, popts: dict | None = None, flags: dict | None = None):
    """Keyvalues.parse -> ('ok', doc) | ('node', tree) (single_block) | ('err', code, message)"""
    from srctools import keyvalues as kvmod
    from srctools.tokenizer import TokenSyntaxError
    orig = kvmod._read_flag
    if flag_log is not None:
        def spy(flags, val):
            r = orig(flags, val)
            flag_log[val] = r          # the flag texts that were looked at (and the verdicts, for the chunked tie)
            return r
        kvmod._read_flag = spy
    try:
        with warnings.catch_warnings():
            warnings.simplefilter('ignore')
            kw = dict(popts or {})
            if flags is not None:
                kw['flags'] = flags
            root = guarded(kvmod.Keyvalues.parse, data, **kw)
            if root._real_name is not None:
                return ('node', snapshot(root))
            return ('ok', snapshot(root)[2])
    except TokenSyntaxError as e:
        for pre, code in ERR_CODES:
            if e.mess.startswith(pre):
                return ('err', code, e.mess[:80])
        return ('err', 99, e.mess[:80])
    except IndexError as e:
        return ('err', 29, f'IndexError: {e}')
    except ImplTimeout:
        return ('err', 98, f'no result after {IMPL_TIME_LIMIT:.0f} s')
    except Exception as e:      # noqa: BLE001   anything else a fault makes parse raise is a result, not a crash of the check
        return ('err', 97, f'{type(e).__name__}: {e}'[:80])
    finally:
        kvmod._read_flag = orig


OPTS_WS = [dict(indent=i, indent_braces=b, start_indent=s)
           for i in ['\t', '', ' ', '    ', '\t ', ' \t\t'] for b in (True, False) for s in ['', ' ', '\t\t', ' \t']]
OPTS_ODD = [dict(indent='x', indent_braces=True, start_indent=''), dict(indent='//', indent_braces=False, start_indent=''),
            dict(indent='\n', indent_braces=True, start_indent='\n'), dict(indent='"', indent_braces=True, start_indent='y'),
            dict(indent='\t', indent_braces=True, start_indent='{'), dict(indent='\r', indent_braces=False, start_indent='')]


def write_text(kv, opts: dict, writer: str = 'serialise'):
    """(text, '') or (None, how the writer failed): serialise(**opts) / ''.join(export()) under the alarm."""
    try:
        with warnings.catch_warnings():
            warnings.simplefilter('ignore')
            if writer == 'serialise':
                text = guarded(kv.serialise, **opts)
            else:
                text = guarded(lambda: ''.join(kv.export()))
    except ImplTimeout:
        return None, 'hang'
    except Exception as e:      # noqa: BLE001   the writers must not raise on legal trees
        return None, type(e).__name__
    if not isinstance(text, str):
        return None, 'returned-' + type(text).__name__
    return text, ''


def impl_serialise(doc, opts, named: bool = False, writer: str = 'serialise') -> str:
    """The text, or a marker no model text can equal when the writer failed (the correspondence then disagrees and the
    search reports the failing input)."""
    kv = build(doc[0]) if named else build_root(doc)
    text, err = write_text(kv, opts, writer)
    return text if text is not None else '\x00\x00writer failed: ' + err


# ------------------------------------------------------------------------------------------------ parallel model evaluation
def par_map(fn, items: list, workers: int) -> list:
    """[fn(x) for x in items] on `workers` plain threads (results in the order of the items; an exception in fn is re-raised
    here).  Not concurrent.futures: its executors share a module-level lock that is also taken around every fork, and the
    harness forks (coqc with a preexec_fn) from several threads -- `RuntimeError: release unlocked lock` was seen once."""
    out: list = [None] * len(items)
    errs: list = []
    nxt = [0]
    lock = _threading.Lock()

    def work():
        while True:
            with lock:
                k = nxt[0]
                nxt[0] += 1
            if k >= len(items):
                return
            try:
                out[k] = fn(items[k])
            except BaseException as e:      # noqa: BLE001
                errs.append(e)
                return
    ths = [_threading.Thread(target=work) for _ in range(max(1, min(workers, len(items))))]
    for t in ths:
        t.start()
    for t in ths:
        t.join()
    if errs:
        raise errs[0]
    return out


def eval_jobs(ck: Ck, jobs: list) -> list:
    """Evaluate [(name, expr)] with ck.coq_eval in parallel coqc processes (distinct scratch names); the order of the
    results is the order of the jobs, so nothing depends on timing."""
    if not jobs:
        return []
    return par_map(lambda kj: ck.coq_eval(IMPORTS + IMPORTS_AUX, kj[1][1] if isinstance(kj[1][1], list) else [kj[1][1]],
                                          f'{kj[1][0]}_{kj[0]}', 900, PRE), list(enumerate(jobs)), 12)


# ------------------------------------------------------------------------------------------------ correspondence: serialise
def corr_serialise(ck: Ck):
    n = ck.budget(240, 2000)
    cases = []
    for i in range(n):
        rng = ck.rng
        doc = gen_doc(rng)
        opts = rng.choice(OPTS_WS) if rng.random() < 0.75 else rng.choice(OPTS_ODD)
        named = bool(doc) and rng.random() < 0.3
        if named:
            doc = doc[:1]
        text = impl_serialise(doc, opts, named)
        xtext = impl_serialise(doc, {}, named, 'export')
        cases.append((doc, opts, named, text, xtext))
        ck.count('serialise_correspondence_cases')
        nodes, depth, special = tree_stats(doc)
        ck.hist('ser_corr_nodes', min(nodes, 64) // 8 * 8)
        ck.hist('ser_corr_named_node', named)
        if special and nodes >= 1:
            ck.seen(('ser', repr(doc), repr(opts), named))
    ck.sample({'serialise_case': {'doc': cases[0][0], 'opts': cases[0][1], 'impl_text': cases[0][3]}})
    jobs, parts = [], []
    for named in (False, True):
        sub = [(k, c) for k, c in enumerate(cases) if c[2] == named]
        for lo in range(0, len(sub), 150):
            part = sub[lo:lo + 150]
            lit = coq_list(
                f'((({coq_chars(o["indent"])}, {coq_bool(o["indent_braces"])}, {coq_chars(o["start_indent"])}), '
                f'{coq_tree(d[0]) if named else coq_doc(d)}), {coq_chars(t)})' for _, (d, o, _n, t, _x) in part)
            fn = 'ser_node_case' if named else 'ser_case'
            xlit = coq_list(f'({coq_tree(d[0]) if named else coq_doc(d)}, {coq_chars(x)})' for _, (d, o, _n, _t, x) in part)
            jobs.append(('ser', [f'bad_idx {fn} 0 {lit}', f'bad_idx {"exp_node_case" if named else "exp_case"} 0 {xlit}']))
            parts.append(part)
    return jobs, lambda results: finish_serialise(ck, cases, parts, results)


def finish_serialise(ck: Ck, cases, parts, results) -> None:
    bad: list[int] = []
    xbad: list[int] = []
    for part, vals in zip(parts, results):
        if vals is None:
            for which in ('serialise', 'export'):
                ck.obligation(f'correspondence:{which}', False, 'model could not be evaluated')
                ck.tie_broken.append(f'correspondence {which}: model evaluation failed')
            return
        bad.extend(part[i][0] for i in parse_coq_N_list(vals[0]))
        xbad.extend(part[i][0] for i in parse_coq_N_list(vals[1]))
    ck.obligation('correspondence:export', not xbad,
                  f'{len(cases)} trees, export template interpreter (vm_compute) vs "".join(Keyvalues.export()), exact '
                  f'text: {len(xbad)} disagreements')
    if xbad:
        d, o, nm, t, x = min((cases[i] for i in xbad), key=lambda c: len(c[4]))
        ck.tie_broken.append('correspondence export (KV/KvExport.v over Gen/KVSer_gen.v vs Keyvalues.export)')
        ck.extra['export_disagreement'] = {'doc': d, 'named': nm, 'impl_text': x}
    ck.obligation('correspondence:serialise', not bad,
                  f'{len(cases)} trees x options, template interpreter (vm_compute) vs Keyvalues.serialise, exact text: '
                  f'{len(bad)} disagreements')
    if bad:
        d, o, nm, t, _x = min((cases[i] for i in bad), key=lambda c: len(c[3]))
        ck.tie_broken.append('correspondence serialise (KV/KvSer.v over Gen/KVSer_gen.v vs Keyvalues.serialise)')
        ck.extra['serialise_disagreement'] = {'doc': d, 'opts': o, 'named': nm, 'impl_text': t}


# ------------------------------------------------------------------------------------------------ correspondence: parse
CORPUS_TEXT = [
    '', '\n', '"a" "b"', '"a" "b"\n', 'a b\n', '"a"\n{\n}\n', '"a"{}', '"a" { "b" "c" }', '"a"\n{"b" "c"}\n"d" "e"',
    '"a" "b" [win32]\n', '"a" "b" [!win32]\n"c" "d"\n', '"a" "b" [win32]', '"a" [win32]\n{\n"x" "y"\n}\n',
    '"a" [x360]\n{\n"x" "y"\n}\n"b" "c"\n', '"a" [x360]\n{\n}\n"b" [win32]\n{\n}\n', '"a" "1"\n"a" "2" [win32]\n',
    '"a" "1"\n"a" "2" [x360]\n', '"a"\n{\n}\n"a" [win32]\n{\n"k" "v"\n}\n', '"a" "1"\n"b" "2" [win32]\n',
    '"a" "b" "c"\n', '"a" "b" "c" "d"\n', '"a"\n"b" "c"\n', '"a"\n', '"a"', '{\n}\n', '}\n', '"a"\n{\n', '"a"\n{\n"b"\n{\n',
    '"a" "b"\n{\n}\n', '// comment\n"a" "b" // trailing\n', '/ x\n', '/* x */\n', '"a" "b" /', '"a" "b\n', '"a" "b\\', '"a\nb" "c"\n',
    '"a" "b\nc"\n', '"a" "b\r\nc"\r\n"d" "e"\r', '"a\\nb" "c"\n', '"a" "\\q\\n\\t\\\\\\"\\\'\\/\\?"\n', '"a" "b\\\nc"\n',
    '"a" [win32\n', '"a" [[win32]]\n', '"a" [win32', '"a" ]\n', '"a" (x y)\n', '(x\ny)', '((', '(', ')', '#include "x"\n',
    '#base\n', 'a=b\n', 'a,b\n', "a'b\n", 'a;b\n', "'", ';', '\ufeff"a" "b"\n', '\n\ufeff"a" "b"\n', 'a\ufeffb c\n',
    '\r{\n', '"a"\r{\n}\r', '"a"\r\n{\r\n}\r\n', '"a" "b"\r"c" "d"\n\r', 'a:b c+d\n', 'a//b c\n', 'a"b" c\n', '"a""b"\n',
    '"a"\t\t"b"   \n   "c"\n\t{\n  }', '"a" "b" [win32] "c"\n', '"a" [win32] "c"\n', '[win32]\n', '"a" "b"\n[win32]\n',
    '"a" [!x360]\n\n\n{\n}\n', '"a" [win32]\n"b" "c"\n', '"a" [x360]\n"b" "c"\n', '"x" "1"\n"a" "b" [$WIN32]\n"a" "c" [$X360]\n',
    '"a"\n{\n"b" "1"\n}\n"a" [win32]\n{\n}\n"a" [!win32]\n{\n}\n', '"a" "b" [x360]\n"c" [win32]\n{\n}\n',
    '"a" "b" //x\r\n"c" "d"', '"a" "b\\', '"a" "b\\\r\nc"\n', '"\\\n" "x"\n', '"a" "\r"\n', '"a" "\n\r"\n',
    '"a" "b" [WIN32]\n', '"a" "b" [\xdf]\n"c" "d" [!\xdf]\n', '"a" "b" [!!x360]\n', '"a" "b" []\n', '"a" "b" [!]\n',
    '"a" [X360]\n{\n}\n"b" "c" [!X360]\n', '"a" "b" [$osx]\n"a" "c" [$OSX]\n',
]
MUT_ALPHABET = list('""""\\\\{}{}[]()/ \t\n\n\r#=,;\':+!ab$') + ['\ufeff', '\U0001f600']
SOUP = ['"a"', '"b c"', 'x', 'y1', '{', '}', '\n', '\n', ' ', '\t', '[win32]', '[!x360]', '[$OSX]', '[zz]', '[ZZ]', '[!WIN32]', '[\xdf]', '[!!zz]', '// c', '\r\n', '\r',
        '"\\n"', '"\\\\"', '"a\\"b"', '""', '/', '(p)', '#d', '=', ',', '"', '\\', '[', ']', '\ufeff', ':', '"k" "v"\n',
        '"blk"\n{\n', '}\n']


# values for Keyvalues.parse(flags=...): keys are looked up after case-folding the [flag] text, so an upper-case key never
# matches; values go through bool()
USER_FLAGS = [{}, {}, {}, {'win32': False}, {'x360': True}, {'zz': True}, {'X360': True, 'ZZ': True}, {'osx': True, 'linux': False},
              {'!x360': True}, {'ss': True}, {'$osx': 1, 'win32': 0}, {'': True}]


def run_defaults() -> str:
    """FLAGS_DEFAULT as the module holds it now (platform dependent entries are evaluated at import)."""
    from srctools import keyvalues as kvmod
    return '[' + '; '.join(f'({coq_chars(k)}, {coq_bool(bool(v))})' for k, v in kvmod.FLAGS_DEFAULT.items()) + ']'


def gen_parse_text(rng: random.Random) -> tuple[str, str]:
    r = rng.random()
    if r < 0.35:
        doc = gen_doc(rng)
        opts = rng.choice(OPTS_WS) if rng.random() < 0.8 else rng.choice(OPTS_ODD)
        return 'serialised', impl_serialise(doc, opts)
    if r < 0.70:
        doc = gen_doc(rng)
        text = list(impl_serialise(doc, rng.choice(OPTS_WS)))
        for _ in range(rng.choice([1, 1, 2, 4])):
            if not text:
                break
            k = rng.randrange(len(text))
            m = rng.random()
            if m < 0.4:
                del text[k]
            elif m < 0.75:
                text.insert(k, rng.choice(MUT_ALPHABET))
            elif m < 0.9:
                text[k] = rng.choice(MUT_ALPHABET)
            else:
                j = rng.randrange(len(text))
                text[k:k] = text[min(j, k):max(j, k)][:12]
        return 'mutated', ''.join(text)
    if r < 0.85:
        base = rng.choice(CORPUS_TEXT)
        extra = rng.choice(CORPUS_TEXT)
        return 'corpus-combined', base + rng.choice(['', '\n', ' ', '\r\n']) + extra
    return 'soup', ''.join(rng.choice(SOUP) for _ in range(rng.choice([2, 4, 8, 16, 30])))


def corr_parse(ck: Ck):
    n = ck.budget(800, 6000)
    cases = []
    for i in range(n):
        if i < len(CORPUS_TEXT):
            kind, text = 'corpus', CORPUS_TEXT[i]
        elif i < 2 * len(CORPUS_TEXT):
            pass
        else:
            kind, text = gen_parse_text(ck.rng)
        if len(text) > 1500:
            text = text[:1500]
        flags: dict = {}
        uflags = {} if i < len(CORPUS_TEXT) else ck.rng.choice(USER_FLAGS)
        # options: the corpus first with the defaults, then again under every option vector in turn; generated
        # texts half with the defaults, half with a random vector
        if i < len(CORPUS_TEXT):
            bits = DEFAULT_OPT_BITS
        elif i < 2 * len(CORPUS_TEXT):
            kind, text, bits = 'corpus-options', CORPUS_TEXT[i - len(CORPUS_TEXT)], ck.rng.randrange(16)
        else:
            bits = DEFAULT_OPT_BITS if ck.rng.random() < 0.5 else ck.rng.randrange(16)
        res = impl_parse(text, flags, bits_opts(bits), uflags)
        # graph of str.casefold on the flag names met (after the optional '!')
        cf = {}
        for fv in flags:
            nm = fv[1:] if fv[:1] == '!' else fv
            cf[nm] = nm.casefold()
        cases.append((text, (uflags, cf), res, bits))
        ck.count('parse_correspondence_cases')
        ck.hist('parse_corr_user_flags', ','.join(sorted(uflags)) or 'none')
        ck.hist('parse_corr_kind', kind)
        ck.hist('parse_corr_options', '+'.join(k for k, v in bits_opts(bits).items() if v) or 'none')
        ck.hist('parse_corr_outcome', res[0] if res[0] != 'err' else ERR_NAMES.get(res[1], str(res[1])))
        if len(text) >= 4:
            ck.seen(('parse', text, bits))
    ck.sample({'parse_case': {'text': cases[2 * len(CORPUS_TEXT)][0], 'impl': cases[2 * len(CORPUS_TEXT)][2],
                              'options': bits_opts(cases[2 * len(CORPUS_TEXT)][3])}})
    jobs, parts = [], []
    chunk: list[int] = []
    size = 0

    def flush():
        nonlocal chunk, size
        if not chunk:
            return
        def want(r):
            if r[0] == 'ok':
                return f'inl (inl {coq_doc(r[1])})'
            if r[0] == 'node':
                return f'inl (inr ({coq_tree(r[1])}))'
            return f'inr {r[1]}'
        lit = coq_list(
            f'((({coq_chars(cases[k][0])}, {cases[k][3]}), '
            f'([{"; ".join(f"({coq_chars(f)}, {coq_bool(bool(v))})" for f, v in cases[k][1][0].items())}], '
            f'[{"; ".join(f"({coq_chars(a)}, {coq_chars(b)})" for a, b in cases[k][1][1].items())}])), {want(cases[k][2])})'
            for k in chunk)
        jobs.append(('parse', f'bad_idx (parse_case {run_defaults()}) 0 {lit}'))
        parts.append(chunk)
        chunk, size = [], 0
    for k, c in enumerate(cases):
        chunk.append(k)
        size += len(c[0]) + 20
        if len(chunk) >= 250 or size > 30000:
            flush()
    flush()
    return jobs, lambda results: finish_parse(ck, cases, parts, results)


def finish_parse(ck: Ck, cases, parts, results) -> None:
    bad: list[int] = []
    for part, vals in zip(parts, results):
        if vals is None:
            ck.obligation('correspondence:parse', False, 'model could not be evaluated')
            ck.tie_broken.append('correspondence parse: model evaluation failed')
            return
        bad.extend(part[i] for i in parse_coq_N_list(vals[0]))
    ck.obligation('correspondence:parse', not bad,
                  f'{len(cases)} texts, tokenizer+parser model (vm_compute) vs Keyvalues.parse, tree or error kind: '
                  f'{len(bad)} disagreements')
    if bad:
        t, f, r, b = min((cases[i] for i in bad), key=lambda c: len(c[0]))
        ck.tie_broken.append('correspondence parse (KV/KvLex.v + KV/KvParse.v vs Tokenizer + Keyvalues.parse)')
        ck.extra['parse_disagreement'] = {'text': t, 'flags_param': f[0], 'casefold_graph': f[1], 'impl': r,
                                          'options': bits_opts(b), 'n': len(bad)}


# ------------------------------------------------------------------------------------------------ correspondence: _read_flag
FLAG_TEXTS = ['', '!', '!!', 'x', '!x', 'X', '!X', '!!x', 'win32', 'WIN32', '!Win32', 'x360', 'X360', '!x360', '!X360', 'zz',
              'ZZ', '!zz', 'ß', '!ß', 'SS', 'ss', ' x', 'x ', 'ps3', 'linux', '!linux', 'osx', 'OSX', 'gameconsole',
              '!gameconsole', '$osx', '!$OSX', 'İ', 'ǅ', 'x!', '! x']
FLAG_MAPS = [{}, {'win32': False}, {'win32': True}, {'x360': True}, {'X360': True, 'ZZ': True}, {'zz': True}, {'osx': True, 'linux': False},
             {'!x360': True}, {'ss': True}, {'ß': True}, {'$osx': 1, 'win32': 0}, {'': True}, {'!': True}, {'x': 0}, {'x': 1, 'X': 0},
             {'x': ''}, {'x': 'no'}, {' x': True}, {'i̇': True}, {'ǆ': True, 'gameconsole': True}]


def corr_read_flag(ck: Ck, shape_recognised: bool):
    """KV/KvFlags.v read_flag against _read_flag itself: every flag text of FLAG_TEXTS under every mapping of FLAG_MAPS
    (leading `!`, doubled `!`, case, casefold expansions, keys that can never match, falsy / truthy non-bool values),
    plus random pairs -- many more of them when the source of _read_flag is not the recognised shape."""
    from srctools import keyvalues as kvmod
    rng = random.Random(ck.seed * 7919 + 17)
    pairs = [(m, t) for m in FLAG_MAPS for t in FLAG_TEXTS]
    alpha = ['x', 'X', '!', 'ß', 's', 'S', ' ', 'z', '3', 'w', 'i', 'n', '2', 'İ']
    for _ in range(200 if shape_recognised and not ck.tie_broken and not ck.thorough else 3000):
        t = ''.join(rng.choice(alpha) for _ in range(rng.randrange(0, 5)))
        m = dict(rng.choice(FLAG_MAPS))
        for _ in range(rng.randrange(0, 3)):
            k = ''.join(rng.choice(alpha) for _ in range(rng.randrange(0, 4)))
            m[k.casefold() if rng.random() < 0.7 else k] = rng.choice([True, False, 0, 1, '', 'a'])
        if rng.random() < 0.3:
            t = rng.choice(['', '!', '!!']) + rng.choice(list(m) or ['x'])
        pairs.append((m, t))
    cases = []
    for m, t in pairs:
        try:
            want = bool(kvmod._read_flag(m, t))
        except Exception as e:      # noqa: BLE001
            ck.obligation('correspondence:read_flag', False, f'_read_flag({m!r}, {t!r}) raised {type(e).__name__}: {e}')
            ck.tie_broken.append('correspondence read_flag: the implementation raised')
            return [], lambda results: None
        names = {t, t[1:]}
        cases.append((m, {n: n.casefold() for n in names}, t, want))
        ck.count('read_flag_correspondence_cases')
        ck.hist('read_flag_corr', ('inverted' if t[:1] == '!' else 'plain') + ('/in-mapping' if any(
            n.casefold() in m for n in names) else '/default' if any(n.casefold() in kvmod.FLAGS_DEFAULT for n in names)
            else '/unknown'))
    jobs, parts = [], []
    for at in range(0, len(cases), 1000):
        part = list(range(at, min(at + 1000, len(cases))))
        lit = coq_list(
            f'(([{"; ".join(f"({coq_chars(k)}, {coq_bool(bool(v))})" for k, v in cases[i][0].items())}], '
            f'[{"; ".join(f"({coq_chars(a)}, {coq_chars(b)})" for a, b in cases[i][1].items())}]), '
            f'({coq_chars(cases[i][2])}, {coq_bool(cases[i][3])}))' for i in part)
        # the hand model read_flag, and the decision tree regenerated from the source of _read_flag under eval_ftree
        jobs.append(('read_flag', [
            f'bad_idx (fun c : (list (str * bool) * list (str * str)) * (str * bool) => '
            f'Bool.eqb (read_flag (cf_tbl (snd (fst c))) (fst (fst c)) {run_defaults()} (fst (snd c))) '
            f'(snd (snd c))) 0 {lit}',
            f'bad_idx (fun c : (list (str * bool) * list (str * str)) * (str * bool) => '
            f'match eval_ftree (cf_tbl (snd (fst c))) (fst (fst c)) {run_defaults()} (fst (snd c)) gen_flagprog with '
            f'Some b => Bool.eqb b (snd (snd c)) | None => false end) 0 {lit}']))
        parts.append(part)

    def finish(results) -> None:
        bad: list[int] = []
        gbad: list[int] = []
        for part, vals in zip(parts, results):
            if vals is None:
                ck.obligation('correspondence:read_flag', False, 'model could not be evaluated')
                ck.tie_broken.append('correspondence read_flag: model evaluation failed')
                return
            bad.extend(part[i] for i in parse_coq_N_list(vals[0]))
            gbad.extend(part[i] for i in parse_coq_N_list(vals[1]))
        ck.obligation('correspondence:read_flag-regenerated-program', not gbad,
                      f'{len(cases)} (mapping, flag text) pairs, gen_flagprog under eval_ftree (vm_compute) vs _read_flag: '
                      f'{len(gbad)} disagreements')
        if gbad:
            m, cf, t, want = min((cases[i] for i in gbad), key=lambda c: (len(c[2]), len(c[0])))
            ck.tie_broken.append('correspondence read_flag-regenerated-program (Gen/KVAux_gen.v gen_flagprog vs _read_flag)')
            ck.extra['read_flag_program_disagreement'] = {'flags': {k: repr(v) for k, v in m.items()}, 'flag_text': t,
                                                          'impl': want, 'n': len(gbad)}
        ck.obligation('correspondence:read_flag', not bad,
                      f'{len(cases)} (mapping, flag text) pairs, KV/KvFlags.v read_flag (vm_compute) vs _read_flag: '
                      f'{len(bad)} disagreements' + ('' if shape_recognised else
                                                     ' (source of _read_flag not in the recognised shape: enlarged sample)'))
        if bad:
            m, cf, t, want = min((cases[i] for i in bad), key=lambda c: (len(c[2]), len(c[0])))
            ck.tie_broken.append('correspondence read_flag (KV/KvFlags.v vs _read_flag)')
            ck.extra['read_flag_disagreement'] = {'flags': {k: repr(v) for k, v in m.items()}, 'flag_text': t, 'impl': want,
                                                  'n': len(bad)}
    return jobs, finish


# ------------------------------------------------------------------------------------------------ chunked delivery, model side
PRE_CHUNK = '''Import ListNotations. Open Scope N_scope.
Fixpoint bad_idx {A} (f : A -> bool) (n : N) (l : list A) : list N :=
  match l with [] => [] | x :: r => (if f x then [] else [n]) ++ bad_idx f (n + 1) r end.
Definition agree (r : pres) (e : (list kv + kv) + N) : bool :=
  match r, e with
  | POk d, inl (inl d') => doc_eqb d d'
  | PNode k, inl (inr k') => kv_eqb k k'
  | PErr x, inr c => perr_code x =? c
  | _, _ => false end.
Definition flag_tbl (t : list (KvBase.str * bool)) (s : KvBase.str) : bool := existsb (fun p => str_eqb (fst p) s && snd p) t.
(* the reader-program tokenizer of C03 over the chunk list, with the generated tables, then the token loop *)
Definition chunk_case (c : ((list (list N) * N) * list (KvBase.str * bool)) * ((list kv + kv) + N)) : bool :=
  let cs := fst (fst (fst c)) in
  let n := (length (concat cs) + 2)%nat in
  let b := snd (fst (fst c)) in       (* option bits; + 16: allow_escapes=False *)
  agree ((if b <? 16 then parse_kv_reader else parse_kv_reader_noesc)
           gen_parsecfg (mkopts (b mod 16)) gen_tables (flag_tbl (snd (fst c))) n n (chk_of_chunks cs))
        (snd c).
'''


def corr_chunked(ck: Ck) -> None:
    """Keyvalues.parse(list of chunks) against parse_kv_reader (the C03 tokenizer model over the reader state of the real
    class + the token loop), on serialisations, mutations and corpus texts cut at random / hazardous positions."""
    n = ck.budget(150, 600)
    cases = []
    for i in range(n):
        rng = ck.rng
        kind, text = ('corpus', CORPUS_TEXT[i]) if i < len(CORPUS_TEXT) else gen_parse_text(rng)
        text = text[:400]
        forms = list(chunkings(rng, text))
        name, chunks = forms[i % len(forms)]
        bits = DEFAULT_OPT_BITS if rng.random() < 0.6 else rng.randrange(16)
        flags: dict = {}
        # a quarter of the cases with allow_escapes=False (the tokenizer model with the option off: KV/KvNoEsc.v)
        noesc = i % 4 == 3
        res = impl_parse(list(chunks), flags, dict(bits_opts(bits), allow_escapes=False) if noesc else bits_opts(bits))
        if noesc:
            bits += 16
        cases.append((chunks, bits, flags, res))
        ck.count('chunked_correspondence_cases')
        ck.hist('chunked_corr_form', name)
        ck.hist('chunked_corr_allow_escapes', not noesc)
        if len(text) >= 4 and len(chunks) >= 2:
            ck.seen(('chunked', tuple(chunks), bits))

    def want(r):
        if r[0] == 'ok':
            return f'inl (inl {coq_doc(r[1])})'
        if r[0] == 'node':
            return f'inl (inr ({coq_tree(r[1])}))'
        return f'inr {r[1]}'
    lit = coq_list(
        f'((([{"; ".join(coq_chars(ch) for ch in c[0])}], {c[1]}), '
        f'[{"; ".join(f"({coq_chars(f)}, {coq_bool(v)})" for f, v in c[2].items())}]), {want(c[3])})' for c in cases)
    vals = ck.coq_eval(IMPORTS_REFINE + ['SV.KV.KvEnum', 'SV.KV.KvNoEsc'], [f'bad_idx chunk_case 0 {lit}'], name='chunked',
                       preamble=PRE_CHUNK)
    if vals is None:
        ck.obligation('correspondence:parse-chunked', False, 'model could not be evaluated')
        ck.tie_broken.append('correspondence parse-chunked: model evaluation failed')
        return
    bad = parse_coq_N_list(vals[0])
    ck.obligation('correspondence:parse-chunked', not bad,
                  f'{len(cases)} chunk lists (a quarter with allow_escapes=False), parse_kv_reader / parse_kv_reader_noesc over '
                  f'Text/Tokenizer.v + gen_tables (vm_compute) vs Keyvalues.parse(chunks): {len(bad)} disagreements')
    if bad:
        c = min((cases[i] for i in bad), key=lambda c: sum(map(len, c[0])))
        ck.tie_broken.append('correspondence parse-chunked (Text/Tokenizer.v reader model + KV/KvParse.v vs Keyvalues.parse)')
        ck.extra['chunked_disagreement'] = {'chunks': c[0], 'options': dict(bits_opts(c[1] % 16), allow_escapes=c[1] < 16),
                                            'flags': c[2], 'impl': c[3]}


# ------------------------------------------------------------------------------------------------ exhaustive token-level tie
M63 = (1 << 63) - 1
SYM_TOKENS = ['a', 'b', 'a\n', None, None, None, 'on', 'off', None]     # values of the 9 symbols of KV/KvEnum.v sym_tok


def hash63(xs) -> int:
    """hfin (hash_list xs) of KV/KvEnum.v."""
    h = 1469598103934665603
    for x in xs:
        h = (h * 1099511628211 + x + 1) & M63
    h1 = ((h ^ (h >> 29)) * 0x3F58476D1CE4E5B9) & M63
    return h1 ^ (h1 >> 32)


def enc_tree(t) -> list[int]:
    if t[0] == 'L':
        return [1, len(t[1]), *map(ord, t[1]), len(t[2]), *map(ord, t[2])]
    out = [2, len(t[1]), *map(ord, t[1]), len(t[2])]
    for c in t[2]:
        out += enc_tree(c)
    return out


def enc_result(r) -> list[int]:
    if r[0] == 'ok':
        out = [1, len(r[1])]
        for t in r[1]:
            out += enc_tree(t)
        return out
    if r[0] == 'node':
        return [2, *enc_tree(r[1])]
    return [3, r[1]]


def words(n: int):
    """Same set as KV/KvEnum.v words sym_alpha n (the checksum is a sum: order does not matter)."""
    import itertools
    for k in range(n + 1):
        yield from itertools.product(range(9), repeat=k)


def scripted_parse(word, bits: int, fin: int):
    """Keyvalues.parse fed by a scripted tokenizer producing the tokens of `word`, then EOF (fin=0) or the
    tokenizer error 'Unterminated string!' (fin=1)."""
    from srctools.tokenizer import BaseTokenizer, Token
    kinds = [Token.STRING, Token.STRING, Token.STRING, Token.NEWLINE, Token.BRACE_OPEN, Token.BRACE_CLOSE,
             Token.PROP_FLAG, Token.PROP_FLAG, Token.EQUALS]
    vals = ['a', 'b', 'a\n', '\n', '{', '}', 'on', 'off', '=']

    class Scripted(BaseTokenizer):
        def __init__(self, w):
            super().__init__(None, None)
            self.it = iter(w)

        def _get_token(self):
            s = next(self.it, None)
            if s is None:
                if fin:
                    raise self.error('Unterminated string!')
                return Token.EOF, ''
            return kinds[s], vals[s]
    return impl_parse(Scripted(word), None, bits_opts(bits), {'on': True})


# token strings longer than the exhaustive scope reaches, aimed at the paths that need history: flag replacement of a leaf /
# of a block (only right after a plain keyvalue or a closing brace, never twice in a row, same name, same kind), blocks skipped
# by a disabled flag (nested, followed by a flagged keyvalue), braces on the same line, single_block returns
# (symbols: 0 STR a, 1 STR b, 2 STR "a\n", 3 NEWLINE, 4 {, 5 }, 6 [on], 7 [off], 8 =)
DIRECTED_WORDS = [
    [0, 1, 3, 0, 1, 6, 3], [0, 1, 3, 0, 1, 7, 3], [0, 1, 3, 1, 1, 6, 3], [0, 1, 3, 0, 0, 6, 3], [0, 1, 3, 0, 1, 6, 3, 0, 1, 6, 3],
    [0, 1, 6, 3, 0, 1, 6, 3], [0, 1, 3, 0, 6, 3, 4, 5], [0, 3, 4, 3, 5, 3, 0, 6, 3, 4, 3, 1, 1, 3, 5, 3],
    [0, 4, 5, 0, 6, 3, 4, 1, 1, 5], [0, 4, 5, 0, 7, 3, 4, 1, 1, 5], [0, 4, 5, 1, 6, 3, 4, 5], [0, 4, 5, 0, 1, 6, 3],
    [0, 4, 1, 1, 5, 0, 6, 3, 4, 5, 0, 6, 3, 4, 5], [0, 7, 3, 4, 1, 1, 3, 5, 3, 1, 1, 3], [0, 7, 3, 4, 1, 4, 5, 5, 0, 1, 6, 3],
    [0, 7, 3, 4, 5, 0, 1, 6, 3], [0, 7, 3, 4, 5, 0, 6, 3, 4, 5], [0, 7, 3, 4, 0, 6, 3, 4, 5, 5, 1, 1], [0, 6, 3, 4, 1, 1, 5, 1, 1],
    [0, 4, 1, 1, 3, 0, 4, 5, 5, 3], [0, 4, 1, 1, 1, 1, 5], [0, 4, 1, 1, 5, 1, 1, 3], [0, 4, 5, 5], [0, 4, 1, 4, 5], [0, 3, 3, 4, 5],
    [0, 1, 3, 4, 5], [0, 1, 4, 5], [2, 1, 3, 0, 2, 3], [0, 4, 2, 1, 5], [0, 4, 0, 2, 5], [0, 1, 0, 1, 3, 0, 1, 6, 3],
    [0, 1, 3, 0, 1, 6, 1, 1], [0, 1, 3, 0, 1, 6], [0, 6, 3, 0, 6, 3, 4, 5], [0, 4, 5, 3, 0, 6, 3, 3, 4, 5], [0, 8, 1, 3, 0, 1],
    [0, 4, 0, 1, 3, 0, 1, 6, 3, 5, 0, 1, 6, 3], [0, 7, 3, 4, 5, 1, 4, 5], [0, 7, 3, 4, 5, 5], [0, 1, 3, 5, 0, 1, 6, 3],
]


def long_words(seed: int, n: int) -> list:
    """The directed words, then n generated ones: mostly well-formed token strings (lines `name value`, `name value
    [flag]`, blocks with the brace on its own line or on the same line, `name [flag]` blocks, nested once or twice, names
    and values from {a, b}) of which a third get one symbol replaced / inserted / deleted."""
    rng = random.Random(seed * 104729 + 5)
    out = [list(w) for w in DIRECTED_WORDS]
    syms, weights = list(range(9)), [3, 2, 0.3, 3, 1.5, 1.5, 1.2, 0.8, 0.2]

    def items(depth: int, budget: list) -> list:
        w: list = []
        for _ in range(rng.randrange(1, 4)):
            if budget[0] <= 0:
                break
            budget[0] -= 1
            name = rng.choice([0, 0, 1])
            kind = rng.random()
            if kind < 0.5 or depth >= 2:
                w += [name, rng.choice([0, 1, 1])]
                if rng.random() < 0.45:
                    w.append(rng.choice([6, 6, 7]))
                w.append(3)
            else:
                w.append(name)
                if rng.random() < 0.5:
                    w += [rng.choice([6, 6, 7]), 3]
                elif rng.random() < 0.6:
                    w.append(3)
                w.append(4)
                if rng.random() < 0.6:
                    w.append(3)
                w += items(depth + 1, budget)
                w.append(5)
                if rng.random() < 0.7:
                    w.append(3)
        return w
    for _ in range(n):
        w = items(0, [rng.randrange(2, 6)])
        if rng.random() < 0.33 and w:
            i = rng.randrange(len(w))
            how = rng.random()
            if how < 0.4:
                w[i] = rng.choices(syms, weights)[0]
            elif how < 0.7:
                w.insert(i, rng.choices(syms, weights)[0])
            else:
                del w[i]
        out.append(w[:24])
    return out


def corr_tokens(ck: Ck) -> None:
    """Exhaustive small scope at the token level, plus directed / random longer token strings."""
    # (option bits, ending, max length | 'long').  quick: every option vector up to length 3, five vectors (none, defaults,
    # single_line, single_block, all) up to length 4, a tokenizer error as ending under the defaults and single_line;
    # thorough: every vector up to length 5.  'long': the directed words and random words of length 5..10 under every vector.
    if ck.thorough:
        shards = [(bits, 0, 5) for bits in range(16)] + [(2, 1, 5), (6, 1, 5)]
    else:
        shards = [(bits, 0, 4 if bits in (0, 2, 6, 10, 15) else 3) for bits in range(16)] + [(2, 1, 3), (6, 1, 3)]
    shards += [(bits, 0, 'long') for bits in range(16)] + [(2, 1, 'long')]
    longw = long_words(ck.seed, ck.budget(250, 1000))
    lens = [s_[2] for s_ in shards if s_[2] != 'long']

    def words_of(n):
        return longw if n == 'long' else words(n)
    want = {}
    outcomes: dict = {}
    nwords = 0
    for bits, fin, n in shards:
        tot = 0
        for w in words_of(n):
            r = scripted_parse(w, bits, fin)
            tot = (tot + hash63([bits, fin, len(w), *w, *enc_result(r)])) & M63
            nwords += 1
            k = r[0] if r[0] != 'err' else ERR_NAMES.get(r[1], str(r[1]))
            outcomes[k] = outcomes.get(k, 0) + 1
            if n == 'long':
                ck.hist('token_long_outcome', k)
        want[(bits, fin, n)] = tot
    ck.count('token_exhaustive_cases', nwords)
    for k, v in sorted(outcomes.items()):
        ck.hist('token_exhaustive_outcome', k, v)
    # two models against the same implementation checksums: the hand-written token loop prun (KV/KvParse.v) and the
    # decision tree regenerated from the loop body (Gen/KVLoop_gen.v) under the semantics ploop (KV/KvLoop.v)
    imports = IMPORTS + [i for i in IMPORTS_LOOP if i not in IMPORTS]
    pre = PRE + 'Definition long_words : list (list N) := ' + coq_list(coq_list(str(x) for x in w) for w in longw) + '.\n'
    tree = 'gen_ptree gen_pfinal gen_parsecfg'
    models = [('correspondence:parse-token-exhaustive', 'prun',
               lambda b, f, n: f'tok_shard_hash gen_parsecfg {b} {f} {n}' if n != 'long' else
               f'sum_hash (map (tok_case_hash gen_parsecfg {b} {f}) long_words)',
               lambda b, f, n: f'tok_shard_cases gen_parsecfg {b} {f} {n}' if n != 'long' else
               f'map (tok_case gen_parsecfg {b} {f}) long_words',
               'exhaustive token-level correspondence (KV/KvParse.v vs Keyvalues.parse on a scripted tokenizer)'),
              ('correspondence:parse-token-exhaustive-regenerated-loop', 'the regenerated loop tree (ploop)',
               lambda b, f, n: f'tree_shard_hash {tree} {b} {f} {n}' if n != 'long' else
               f'sum_hash (map (fun w => hfin (hash_list (tree_case {tree} {b} {f} w))) long_words)',
               lambda b, f, n: f'tree_shard_cases {tree} {b} {f} {n}' if n != 'long' else
               f'map (tree_case {tree} {b} {f}) long_words',
               'exhaustive token-level correspondence (regenerated loop tree vs Keyvalues.parse on a scripted tokenizer)')]
    vals = ck.coq_eval(imports, [fn(b, f, n) for _, _, fn, _, _ in models for b, f, n in shards], name='tokenum',
                       preamble=pre)
    if vals is None:
        for name, *_ in models:
            ck.obligation(name, False, 'model could not be evaluated')
        ck.tie_broken.append('exhaustive token-level correspondence: model evaluation failed')
        return
    import re as _re
    for mi, (name, what, _, cases_fn, tie) in enumerate(models):
        mvals = vals[mi * len(shards):(mi + 1) * len(shards)]
        got = {sh: int(_re.sub(r'%[A-Za-z0-9_]+$', '', v.strip()), 0) for sh, v in zip(shards, mvals)}
        bad = [sh for sh in shards if got[sh] != want[sh]]
        detail = ''
        if bad:
            # locate one disagreement: literal model results for the first bad shard
            b, f, n = bad[0]
            lits = ck.coq_eval(imports, [cases_fn(b, f, n)], name='tokenum_cases', preamble=pre)
            if lits is not None:
                model = {}
                for m in _re.finditer(r'\[([0-9; ]*)\]', lits[0][1:-1]):
                    xs = [int(x) for x in m.group(1).split(';') if x.strip()]
                    model[tuple(xs[3:3 + xs[2]])] = xs[3 + xs[2]:]
                for w in words_of(n):
                    r = scripted_parse(w, b, f)
                    if model.get(tuple(w)) != enc_result(r):
                        detail = (f'; first disagreement: options {bits_opts(b)} ending {"error" if f else "EOF"} tokens '
                                  f'{[("STR:" + repr(SYM_TOKENS[x])) if x < 3 else ["NL", "{", "}", "FLAG:on", "FLAG:off", "="][x - 3] for x in w]}'
                                  f' implementation {r} model {model.get(tuple(w))}')
                        ck.extra['token_disagreement' + ('' if mi == 0 else '_regenerated_loop')] = {
                            'options': bits_opts(b), 'ending': f, 'tokens': list(w), 'impl': r,
                            'model_encoded': model.get(tuple(w))}
                        break
            ck.tie_broken.append(tie)
        ck.obligation(name, not bad,
                      f'{nwords} cases = all token strings over 9 symbols up to length {max(lens)} (every option '
                      f'vector up to length {min(lens)}) + {len(longw)} directed / generated token strings of length up to 24 under '
                      f'every option vector, in {len(shards)} (option vector, ending) shards, {what} '
                      f'(vm_compute) vs Keyvalues.parse on a scripted tokenizer, checksum per shard: {len(bad)} shards differ' + detail)


# ------------------------------------------------------------------------------------------------ dynamic tie of the tables
def tie_tables(ck: Ck, side: dict) -> None:
    from srctools import tokenizer
    tbl = [tuple(x) for x in side.get('escapes', [])]
    same = tbl == list(tokenizer.ESCAPES.items())
    ck.obligation('tie:ESCAPES literal equals the imported table', same,
                  f'{len(tbl)} entries translated; runtime table has {len(tokenizer.ESCAPES)}')
    if not same:
        ck.tie_broken.append('translated ESCAPES differs from srctools.tokenizer.ESCAPES at run time')
    # model of escape_text on single characters, evaluated from the translated tables, against the implementation
    excl = side.get('escape_re_excluded', '')
    inv = {}
    for s, c in tbl:
        inv[c] = s
    bad = []
    hi = 0x110000 if ck.budget(0, 1) else 0x3000
    for cp in list(range(hi)) + [0xd800, 0xdfff, 0xfeff, 0x1f600, 0x10ffff]:
        c = chr(cp)
        want = c if (c in excl or c not in inv) else '\\' + inv[c]
        try:
            got = guarded(tokenizer.escape_text, c)
        except (ImplTimeout, Exception):       # noqa: BLE001
            got = None
        if got != want:
            bad.append(cp)
    ck.count('escape_text_single_chars', hi + 5)
    ck.obligation('tie:escape_text on every single character equals the table model', not bad,
                  f'code points 0..{hi:#x}: {len(bad)} differ {bad[:5]}')
    if bad:
        ck.tie_broken.append('escape_text differs from the table model on single characters')


# ------------------------------------------------------------------------------------------------ search / oracle
def strip_blanks_outside_quotes(text: str) -> str:
    out = []
    inq = False
    i = 0
    while i < len(text):
        c = text[i]
        if inq:
            out.append(c)
            if c == '\\' and i + 1 < len(text):
                out.append(text[i + 1])
                i += 1
            elif c == '"':
                inq = False
        else:
            if c == '"':
                inq = True
                out.append(c)
            elif c not in ' \t':
                out.append(c)
        i += 1
    return ''.join(out)


def tokens_of(text: str):
    from srctools.tokenizer import Tokenizer, TokenSyntaxError
    try:
        return guarded(lambda: [(t.name, v) for t, v in Tokenizer(text, string_bracket=True)])
    except TokenSyntaxError as e:
        return ('error', e.mess[:60])
    except ImplTimeout:
        return ('error', 'hang')
    except Exception as e:      # noqa: BLE001
        return ('error', type(e).__name__)


def chunkings(rng: random.Random, text: str):
    yield 'chars', list(text)
    cuts = sorted(rng.sample(range(len(text) + 1), min(len(text) + 1, rng.choice([1, 2, 5]))))
    parts, last = [], 0
    for c in cuts:
        parts.append(text[last:c])
        last = c
    parts.append(text[last:])
    yield 'random-cuts', parts
    yield 'with-empty', ['', text[:len(text) // 2], '', '', text[len(text) // 2:], '']
    # cut right after every backslash and every quote (escape pairs split across chunks)
    parts, cur = [], ''
    for ch in text:
        cur += ch
        if ch in '\\"\n':
            parts.append(cur)
            cur = ''
    parts.append(cur)
    yield 'after-backslash-quote-newline', parts


def where_differs(want, got, path='') -> str:
    """Classify the first difference between two documents."""
    if isinstance(got, tuple) and got and got[0] == 'err':
        return 'parse-error:' + ERR_NAMES.get(got[1], str(got[1]))
    if len(want) != len(got):
        return 'child-count'
    if want != got and sorted(map(repr, want)) == sorted(map(repr, got)):
        return 'child-order'
    for a, b in zip(want, got):
        if a[0] != b[0]:
            return 'node-kind'
        if a[1] != b[1]:
            return 'block-name' if a[0] == 'B' else 'leaf-name'
        if a[0] == 'L':
            if a[2] != b[2]:
                return 'leaf-value'
        else:
            d = where_differs(a[2], b[2])
            if d:
                return d
    return ''


def culprit_all(doc) -> list[str]:
    """Which field of which kind of node carries which class of special characters."""
    def chars(s):
        cls = set()
        for c in s:
            if c == '"':
                cls.add('quote')
            elif c == '\\':
                cls.add('backslash')
            elif c in '\r\n':
                cls.add('linebreak')
            elif c in '\t\v\b\f\a':
                cls.add('control-escape')
            elif c in '{}[]()':
                cls.add('bracket')
            elif ord(c) < 32 or ord(c) == 127:
                cls.add('control')
            elif ord(c) > 0xffff:
                cls.add('astral')
            elif 0xd800 <= ord(c) < 0xe000:
                cls.add('surrogate')
        return cls
    out = []

    def walk(t):
        for c in sorted(chars(t[1])):
            out.append(('block-name' if t[0] == 'B' else 'leaf-name') + ':' + c)
        if t[0] == 'L':
            for c in sorted(chars(t[2])):
                out.append('leaf-value:' + c)
        else:
            for ch in t[2]:
                walk(ch)
    for t in doc:
        walk(t)
    return sorted(set(out))


def culprit(doc) -> str:
    """Violation key suffix, computed on the shrunk document."""
    return ','.join(culprit_all(doc)[:3]) or 'plain'


STRUCTURAL = ('child-count', 'child-order', 'node-kind', 'writer-raised')


def fail_key(kind: str, small, cls: str) -> str:
    """Violation key: the writer path, then either the structural difference or (for differences in a name/value
    and for parse errors) which field of which node kind carries which class of character in the shrunk tree."""
    if cls.startswith(STRUCTURAL):
        return f'{kind}:structure:{cls}'
    c = culprit(small)
    return f'{kind}:{c}' if c != 'plain' else f'{kind}:plain:{cls}'


def roundtrip_fails(doc, opts, writer: str = 'serialise'):
    """'' if parse(write(doc)) == doc, else a description class."""
    text, err = write_text(build_root(doc), opts, writer)
    if text is None:
        return f'writer-raised:{err}'
    got = impl_parse(text)
    if got[0] == 'ok':
        return where_differs(doc, got[1])
    return where_differs(doc, got)


# ------------------------------------------------------------------------------------------------ histories of writer calls
# The property is about every call, not about the first call of a fresh process: a writer that keeps anything between
# calls (module-level or class-level state, marks on the nodes) can answer differently after an earlier call was aborted
# half-way and the caller carried on.  A history here = <a call that does not complete> then <the same tree is written
# again>; the second call must give the text a freshly built equal tree gives.
class FailingFile:
    """A file object whose k-th write raises OSError (the earlier ones succeed)."""
    def __init__(self, k: int) -> None:
        self.k, self.n = k, 0

    def write(self, s) -> int:
        self.n += 1
        if self.n >= self.k:
            raise OSError(28, 'No space left on device (injected by the check)')
        return len(s)


class CountingFile:
    def __init__(self) -> None:
        self.n = 0

    def write(self, s) -> int:
        self.n += 1
        return len(s)


HISTORY_KINDS = ['failed-write', 'nonstr-value', 'cycle-repaired', 'abandoned-export', 'edited-between-calls']
DISTURBED = 'control-call-before-the-abort-differs'
HISTORY_ROTA = ['failed-write', 'nonstr-value', 'edited-between-calls', 'abandoned-export']


def preorder(kv) -> list:
    out = [kv]
    if isinstance(kv._value, list):
        for c in kv._value:
            out += preorder(c)
    return out


def history_fails(doc, opts: dict, kind: str, k: int) -> str:
    """_history_fails; an exception of the implementation that none of its steps expects is a description class too (never a
    crash of the check)."""
    try:
        return _history_fails(doc, opts, kind, k)
    except ImplTimeout:
        return 'hang'
    except Exception as e:      # noqa: BLE001
        return f'unexpected-exception:{type(e).__name__}'


def _history_fails(doc, opts: dict, kind: str, k: int) -> str:
    """'' if, after the aborted call of `kind` (k selects the write / leaf / block / number of lines), writing the tree again
    gives the text of a freshly built equal tree (for the tree itself and for every block below it) and the tree is unchanged;
    else a description class."""
    want, err = write_text(build_root(doc), opts)
    if want is None:
        return ''       # the plain call fails: reported by the round-trip oracle
    with warnings.catch_warnings():
        warnings.simplefilter('ignore')
        root = build_root(doc)
        nodes = preorder(root)
        pre, err = write_text(root, opts)
        if pre != want:      # (state left behind by an earlier history of this process: the key says so)
            return DISTURBED
        try:
            if kind == 'failed-write':
                cf = CountingFile()
                try:
                    guarded(root.serialise, cf, **opts)
                except Exception as e:      # noqa: BLE001   (write_text above succeeded on an equal tree)
                    return f'call-with-a-file-raised:{type(e).__name__}'
                if cf.n == 0:
                    return ''
                # once, twice or three times; one history in 16 repeats the aborted call 130 times (what leaks a little per
                # aborted call -- a counter, a stack -- shows only when it has accumulated)
                for rep in range(130 if k % 16 == 0 else 1 + k % 3):
                    try:
                        guarded(root.serialise, FailingFile(1 + (k + rep) % cf.n), **opts)
                        return 'error-of-the-file-swallowed'
                    except OSError:
                        pass
                    except ImplTimeout:
                        raise
                    except Exception as e:      # noqa: BLE001
                        if rep == 0:
                            break       # the file's error comes out as something else: not this property's business
                        # an earlier aborted call makes this one fail before it reaches the failing write
                        return f'second-call-raised:{type(e).__name__}'
            elif kind == 'nonstr-value':
                leaves = [x for x in nodes if not isinstance(x._value, list)]
                if not leaves:
                    return ''
                leaf = leaves[k % len(leaves)]
                orig = leaf.value
                leaf.value = 12345 if k % 2 else None
                try:
                    guarded(root.serialise, **opts)
                except ImplTimeout:
                    raise
                except Exception:       # noqa: BLE001   (a value that is not a string is outside the property: anything goes)
                    pass
                leaf.value = orig
            elif kind == 'cycle-repaired':
                blocks = [x for x in nodes[1:] if isinstance(x._value, list)]
                if not blocks:
                    return ''
                blk = blocks[k % len(blocks)]
                blk._value.append(blk)
                try:
                    guarded(root.serialise, **opts)
                except ImplTimeout:
                    raise
                except Exception:       # noqa: BLE001   (RecursionError today: cyclic trees are outside the property)
                    pass
                finally:
                    blk._value.pop()
            elif kind == 'edited-between-calls':
                # not an aborted call: a completed one (the control call above), then the caller edits the tree through the
                # public API, then writes it again -- the second text must be that of the edited tree (a writer that
                # remembers text per node would give the old one)
                if len(nodes) < 2:
                    return ''
                x = nodes[1 + k % (len(nodes) - 1)]
                if isinstance(x._value, list):
                    x.name = (x.real_name or '') + 'Q"q'
                else:
                    x.value = x.value + '\\"e\t'
                    if k % 3 == 0:
                        x.name = 'N' + (x.real_name or '')
                doc = snapshot(root)[2]
                want, err = write_text(build_root(doc), opts)
                if want is None:
                    return ''
            elif kind == 'abandoned-export':
                want_x, _ = write_text(build_root(doc), {}, 'export')
                pre_x, _ = write_text(root, {}, 'export')
                if want_x is None or pre_x != want_x:
                    return DISTURBED        # (export() of a fresh tree is examined by the export round trip, earlier)
                gen = root.export()
                try:
                    for _ in range(k % 7):
                        if guarded(next, gen, None) is None:
                            break
                except ImplTimeout:
                    raise
                except Exception as e:      # noqa: BLE001   (the complete export() just before did not raise)
                    return f'export-raised:{type(e).__name__}'
                del gen
            else:
                return ''
        except ImplTimeout:
            return 'aborted-call-hang'
    got, err = write_text(root, opts)
    if got is None:
        return f'second-call-raised:{err}'
    if got != want:
        return 'second-call-text-differs'
    if kind == 'abandoned-export':
        want_x, _ = write_text(build_root(doc), {}, 'export')
        got_x, err = write_text(root, {}, 'export')
        if want_x is not None and got_x != want_x:
            return f'second-export-raised:{err}' if got_x is None else 'second-export-text-differs'
    blocks = [x for x in nodes[1:] if isinstance(x._value, list)]
    for x in blocks[:2] + blocks[2:][-1:]:       # the first two blocks (in file order) and the last one
        if True:
            sub_want, _ = write_text(build(snapshot(x)), opts)
            sub_got, err = write_text(x, opts)
            if sub_want is not None and sub_got != sub_want:
                return f'sub-block-raised:{err}' if sub_got is None else 'sub-block-text-differs'
    if snapshot(root)[2] != doc:
        return 'tree-changed'
    return ''


def shrink_doc(doc, pred):
    """Greedy structural shrinking of a failing document."""
    def variants(d):
        for i in range(len(d)):
            yield d[:i] + d[i + 1:]
        for i, t in enumerate(d):
            if t[0] == 'B':
                yield d[:i] + list(t[2]) + d[i + 1:]
                for sub in variants(t[2]):
                    yield d[:i] + [('B', t[1], sub)] + d[i + 1:]
                for k in range(len(t[1])):
                    yield d[:i] + [('B', t[1][:k] + t[1][k + 1:], t[2])] + d[i + 1:]
            else:
                for k in range(len(t[1])):
                    yield d[:i] + [('L', t[1][:k] + t[1][k + 1:], t[2])] + d[i + 1:]
                for k in range(len(t[2])):
                    yield d[:i] + [('L', t[1], t[2][:k] + t[2][k + 1:])] + d[i + 1:]
    cur = doc
    hangs = HANGS[0]
    for _ in range(400):
        for v in variants(cur):
            if pred(v):
                cur = v
                break
            if HANGS[0] != hangs:
                return cur
        else:
            return cur
        if HANGS[0] != hangs:
            return cur
    return cur


def map_strings(doc, fname, fvalue):
    def go(t):
        if t[0] == 'L':
            return ('L', fname(t[1]), fvalue(t[2]))
        return ('B', fname(t[1]), [go(c) for c in t[2]])
    return [go(t) for t in doc]


def all_strings_unescaped(doc) -> bool:
    from srctools.tokenizer import escape_text

    def ok(t) -> bool:
        try:
            if guarded(escape_text, t[1]) != t[1] or (t[0] == 'L' and guarded(escape_text, t[2]) != t[2]):
                return False
        except (ImplTimeout, Exception):       # noqa: BLE001
            return False
        return t[0] == 'L' or all(ok(c) for c in t[2])
    return all(ok(t) for t in doc)


def options_expected(doc, po: dict):
    """What Keyvalues.parse(serialise(doc), **po) must return by theorems kv_roundtrip_options / _single_block."""
    if po.get('single_block') and doc:
        return ('node', doc[0])
    return ('ok', doc)


def options_fails(doc, po: dict, sopts: dict) -> str:
    text, err = write_text(build_root(doc), sopts)
    if text is None:
        return f'writer-raised:{err}'
    got = impl_parse(text, None, po)
    want = options_expected(doc, po)
    if got == want:
        return ''
    if got[0] == 'err':
        return 'parse-error:' + ERR_NAMES.get(got[1], str(got[1]))
    if got[0] != want[0]:
        return 'node-kind'
    return where_differs(want[1] if want[0] == 'ok' else [want[1]], got[1] if got[0] == 'ok' else [got[1]]) or 'differs'


SEARCH_CORPUS = [
    [('B', 'a"b', [('L', 'x', 'y')])], [('B', 'a\\', [])], [('B', 'a\\n', [('L', 'k', 'v')])], [('B', 'tab\there', [])],
    [('L', 'a"b', 'c"d')], [('L', 'a\\', 'b\\')], [('L', 'k', 'line1\nline2\r\nline3\r')], [('L', '', '')], [('B', '', [])],
    [('B', 'A', [('L', 'Dup', '1'), ('L', 'dup', '2'), ('L', 'Dup', '1'), ('B', 'Dup', []), ('B', 'Dup', [])])],
    [('L', '{', '}'), ('L', '[win32]', '[x360]'), ('B', '[win32]', []), ('B', '{', [('B', '}', [])])],
    [('L', '//', '/*'), ('B', '//c', []), ('L', '#base', '(p)'), ('L', '\ufeff', '\ufeff')],
    [('L', 'k', '\\n'), ('L', 'k', '\\\n'), ('L', 'k', '\\"'), ('L', 'k\\"', 'v'), ('L', "it's", "'q'")],
    [('L', '\ud800', '\udfff\U0010ffff'), ('B', '\U0001f600', [('L', '\x00', '\x7f\x85\u2028')])],
]


def search(ck: Ck) -> None:
    n = ck.budget(2500, 12000)
    found: dict[str, tuple] = {}
    shrinks: dict[str, int] = {}
    shrunk_docs: set = set()
    hist_jobs: list = []

    def may_shrink(kind: str, doc) -> bool:
        """Shrinking is the expensive part: per writer path, a dozen failures are shrunk, later ones only when all
        their (unshrunk) culprit classes are new; one shrink per tree and path.  Every failure is counted."""
        ck.count('search_failures_seen')
        if (kind, id(doc)) in shrunk_docs:
            return False
        n = shrinks.get(kind, 0)
        cls = set(culprit_all(doc))
        known = {c for k in found if k.startswith(kind + ':') for c in k.split(':', 1)[-1].split(',')}
        if n < 12 or (cls and not (cls & known) and n < 60):
            shrinks[kind] = n + 1
            shrunk_docs.add((kind, id(doc)))
            return True
        return False

    def report(key, what, doc, opts, extra=None):
        if key in found or UNVERIFIED[0]:       # (nothing is reported on the strength of a call that was not made)
            return
        found[key] = (what, doc, opts, extra)

    HANGS[0] = 0        # the search may see the implementation hang MAX_HANGS times by itself
    for i in range(n):
        UNVERIFIED[0] = False
        if HANGS[0] >= MAX_HANGS:
            ck.notes.append(f'search stopped after {i} trees: the implementation did not return within {IMPL_TIME_LIMIT:.0f} s '
                            f'{HANGS[0]} times')
            break
        rng = ck.rng
        doc = SEARCH_CORPUS[i] if i < len(SEARCH_CORPUS) else gen_doc(rng)
        nodes, depth, special = tree_stats(doc)
        ck.count('search_trees')
        ck.hist('search_depth', min(depth, 32))
        ck.hist('search_nodes', min(nodes, 64) // 8 * 8)
        ck.hist('search_special_chars', special)
        opt_list = OPTS_WS if (i < len(SEARCH_CORPUS) or ck.thorough) else rng.sample(OPTS_WS, 6) + OPTS_WS[:1]
        with warnings.catch_warnings():
            warnings.simplefilter('ignore')
            root = build_root(doc)
            before = identity_walk(root)
            ref_text = None
            ref_tokens = None
            ref_strip = None
            mutated = False
            for opts in opt_list:
                ck.count('search_serialisations')
                text, werr = write_text(root, opts)
                if text is not None:
                    buf = io.StringIO()
                    try:
                        to_file = guarded(root.serialise, buf, **opts)
                    except (ImplTimeout, Exception):       # noqa: BLE001
                        to_file = 'raised'
                    if to_file is not None or buf.getvalue() != text:
                        report('serialise-to-file-differs', 'serialise(file) writes a different text than serialise()', doc, opts)
                if identity_walk(root) != before or snapshot(root)[2] != doc:
                    report('serialise-mutates-tree', 'the tree differs after serialise()', doc, opts)
                    mutated = True
                    break       # a writer that edits the tree can make every further call more expensive
                if text is None:
                    diff = 'writer-raised:' + werr
                else:
                    got = impl_parse(text)
                    diff = where_differs(doc, got[1] if got[0] == 'ok' else got)
                if diff:
                    if not may_shrink('roundtrip', doc):
                        continue
                    small = shrink_doc(doc, lambda d, o=opts: bool(roundtrip_fails(d, o)))
                    cls = roundtrip_fails(small, opts)
                    report(fail_key('roundtrip', small, cls), f'parse(serialise(t)) != t ({cls})', small, opts,
                           {'text': None if 'writer-raised' in cls else impl_serialise(small, opts)})
                    continue
                if ref_text is None:
                    ref_text, ref_tokens, ref_strip = text, tokens_of(text), strip_blanks_outside_quotes(text)
                else:
                    if tokens_of(text) != ref_tokens:
                        report('indent-changes-tokens', 'token stream depends on the indentation options', doc, opts)
                    if strip_blanks_outside_quotes(text) != ref_strip:
                        report('indent-changes-non-whitespace', 'texts differ in more than blanks outside quotes', doc, opts)
            if mutated:
                continue
            # delivery forms, on one option set per tree
            opts = opt_list[i % len(opt_list)]
            text, werr = write_text(root, opts)
            if text is None:
                continue        # reported above as writer-raised
            base = impl_parse(text)
            deliveries = list(chunkings(rng, text))
            deliveries.append(('StringIO', io.StringIO(text)))
            deliveries.append(('TextIOWrapper', io.TextIOWrapper(io.BytesIO(text.encode('utf-8', 'surrogatepass')),
                                                                  encoding='utf-8', errors='surrogatepass', newline='')))
            deliveries.append(('generator', (ln for ln in text.splitlines(keepends=True))))
            for name, d in deliveries:
                ck.count('search_deliveries')
                ck.hist('search_delivery', name)
                got = impl_parse(d)
                if got != base:
                    parts = d if isinstance(d, list) else name
                    report(f'delivery:{name}', f'parse of {name} delivery differs from parse of the str', doc, opts,
                           {'chunks': parts, 'str_result': base, 'delivery_result': got})
            # a named node with start_indent
            if doc:
                kv = build(doc[0])
                o2 = rng.choice(OPTS_WS)
                ntext, nerr = write_text(kv, o2)
                if ntext is not None:       # serialise(file) on a named node: start_indent matters here
                    buf = io.StringIO()
                    try:
                        to_file = guarded(kv.serialise, buf, **o2)
                    except (ImplTimeout, Exception):       # noqa: BLE001
                        to_file = 'raised'
                    if to_file is not None or buf.getvalue() != ntext:
                        report('serialise-to-file-differs', 'serialise(file) writes a different text than serialise()', doc[:1], o2,
                               {'named': True})
                got = impl_parse(ntext) if ntext is not None else ('err', 97, 'writer failed: ' + nerr)
                if got != ('ok', [doc[0]]) and may_shrink('roundtrip-named-node', doc):
                    def named_fails(d, o=o2):
                        if len(d) != 1:
                            return ''
                        t_, e_ = write_text(build(d[0]), o)
                        if t_ is None:
                            return 'writer-raised:' + e_
                        g = impl_parse(t_)
                        return where_differs(d, g[1] if g[0] == 'ok' else g)
                    small = shrink_doc(doc[:1], lambda d: bool(named_fails(d)))
                    cls = named_fails(small)
                    report(fail_key('roundtrip-named-node', small, cls), f'parse(node.serialise()) != [node] ({cls})', small, o2,
                           {'named': True})
                if snapshot(kv) != doc[0]:
                    report('serialise-mutates-tree', 'the tree differs after serialise()', doc[:1], o2)
            # non-default parse options (theorems kv_roundtrip_options, kv_roundtrip_single_block*): a random vector;
            # with newline_keys line breaks are put into names, without newline_values they are taken out of values
            bits = rng.randrange(16)
            po = bits_opts(bits)
            brk = rng.choice(['\n', '\r', '\r\n'])
            odoc = map_strings(doc,
                               (lambda n_: n_[:len(n_) // 2] + brk + n_[len(n_) // 2:]) if po['newline_keys'] and rng.random() < 0.5
                               else (lambda n_: n_),
                               (lambda v_: v_) if po['newline_values'] else (lambda v_: v_.replace('\n', ' ').replace('\r', ' ')))
            so = rng.choice(OPTS_WS)
            ck.count('search_option_roundtrips')
            ck.hist('search_parse_options', '+'.join(k for k, v in po.items() if v) or 'none')
            d = options_fails(odoc, po, so)
            if d and may_shrink('roundtrip-options', odoc):
                small = shrink_doc(odoc, lambda dd: bool(options_fails(dd, po, so)))
                cls = options_fails(small, po, so)
                report('roundtrip-options:' + fail_key('x', small, cls)[2:],
                       f'parse(serialise(t), {po}) is not the tree ({cls})', small, so, {'parse_options': po})
            # allow_escapes=False: the reader leaves backslashes alone, so only trees none of whose strings is changed by
            # escape_text can be expected back (KV/KvNoEsc.v: witnesses for the others); those must come back
            if all_strings_unescaped(doc):
                ck.count('search_no_escapes_roundtrips')
                got = impl_parse(text, None, {'allow_escapes': False})
                if got != ('ok', doc):
                    report('roundtrip-no-escapes:' + (where_differs(doc, got[1] if got[0] == 'ok' else got) or 'differs'),
                           'parse(serialise(t), allow_escapes=False) != t for a tree whose strings need no escaping', doc, opts,
                           {'parse_options': {'allow_escapes': False}})
            # the deprecated writer
            ck.count('search_exports')
            d = roundtrip_fails(doc, {}, 'export')
            if d and may_shrink('export-roundtrip', doc):
                small = shrink_doc(doc, lambda dd: bool(roundtrip_fails(dd, {}, 'export')))
                cls = roundtrip_fails(small, {}, 'export')
                report(fail_key('export-roundtrip', small, cls), f'parse("".join(t.export())) != t ({cls})', small, {},
                       {'writer': 'export'})
            write_text(root, {}, 'export')       # (round 5: on THIS tree; the round trip above builds its own)
            if identity_walk(root) != before or snapshot(root)[2] != doc:
                report('export-mutates-tree', 'the tree differs after export()', doc, {}, {'writer': 'export'})
            hist_jobs.append((i, doc, opts))
        if special and nodes >= 1:
            ck.seen(('search', repr(doc)))
    # histories: a call that is aborted half-way (the file raises at the k-th write, a value that is not a string and is
    # repaired afterwards, a cycle that is taken out again, an export() generator dropped after a few lines), then the same
    # tree is written again: every kind for the directed documents, one kind per generated tree.  They run after everything
    # else: a writer that keeps state across calls would otherwise disturb the oracles above (in a way no replay, which
    # starts a fresh process, could reproduce).
    performed: list = []
    with warnings.catch_warnings():
        warnings.simplefilter('ignore')
        for i, doc, opts in hist_jobs:
            UNVERIFIED[0] = False
            if HANGS[0] >= MAX_HANGS:
                break
            # (a cycle costs a RecursionError a thousand frames deep, 14 ms: one generated tree in 32 gets it)
            for kind in (HISTORY_KINDS if i < len(SEARCH_CORPUS) else
                         [HISTORY_ROTA[i % len(HISTORY_ROTA)]] + (['cycle-repaired'] if i % 32 == 5 else [])):
                hk = ck.rng.randrange(1 << 16)
                ck.count('search_histories')
                ck.hist('search_history_kind', kind)
                d = history_fails(doc, opts, kind, hk)
                performed.append((doc, opts, kind, hk))
                if d == DISTURBED:
                    # what earlier histories of this process left behind hits a fresh tree (e.g. through a re-used id(), or a
                    # leak per aborted call that has accumulated).  When a single history was already reported it is the
                    # cause; otherwise the sequence of histories itself is the failing input (the last 3000 of them: a replay file of 2-3 MB)
                    ck.count('search_histories_disturbed_by_earlier_ones')
                    if not any(k_.startswith('history:') for k_ in found):
                        seq = [[dd, oo, kk, hh] for dd, oo, kk, hh in performed[-3000:]]
                        report('history:accumulated:control-call-differs',
                               f'after {len(performed) - 1} histories of aborted calls on other trees a freshly built tree is no '
                               'longer written like an equal tree at the start of the process', doc, opts,
                               {'history_sequence': seq})
                    continue
                if d and may_shrink('history:' + kind, doc):
                    # (shrinking keeps the class: with state left behind in this process anything else is unreliable)
                    small = shrink_doc(doc, lambda dd, kind=kind, hk=hk, opts=opts, d=d: history_fails(dd, opts, kind, hk) == d)
                    cls = d
                    report(f'history:{kind}:{cls}', f'after an aborted call ({kind}) the tree is no longer written as a fresh '
                           f'equal tree is ({cls})', small, opts, {'history': kind, 'k': hk})
    ck.sample({'search_tree': SEARCH_CORPUS[6], 'serialised_default': impl_serialise(SEARCH_CORPUS[6], OPTS_WS[0])})
    for key, (what, doc, opts, extra) in found.items():
        ck.violation(key, what, {'doc': doc, 'opts': opts, 'extra': extra,
                                 'how': 'checks.c01.replay: build the tree, serialise with opts, Keyvalues.parse, compare'})
    ck.extra['search_violation_keys'] = sorted(found)


# ------------------------------------------------------------------------------------------------ the C03 tokenizer tables
def tokenizer_tables_translate():
    """Gen/EscTables_gen.v through C02's translator.  C01 uses it for the constant tables of the *reading* side only (ESCAPES,
    BARE_DISALLOWED, _OPERATORS, the Token values, the option defaults, casefold: `tables_match` looks at nothing else).  C02's
    translator also reads escape_text -- the writing side, which C01 reads itself (translate/c01_kvser.py tr_escapes, with its
    own obligations) -- into a pipeline, and is stricter about its spelling; when it fails closed, it is run again with that
    one reading left out (an empty pipeline: unused here), so that a harmless respelling of escape_text is not an alarm of C01
    and a fault in it is reported by C01's own obligations.  Every other reading of that translator stays fail-closed."""
    from harness.common import TranslateError
    try:
        return c02_tables.translate()
    except TranslateError as first:
        orig = getattr(c02_tables, '_escape_pipeline', None)
        if orig is None:
            raise first
        c02_tables._escape_pipeline = lambda tree, inv_map: ([], {})
        try:
            text, side = c02_tables.translate()
        finally:
            c02_tables._escape_pipeline = orig
        side = dict(side)
        side['escape_text_pipeline_not_read_by_c02_translator'] = str(first)
        return text, side


# ------------------------------------------------------------------------------------------------ Print Assumptions, in parallel
def theorems_parallel(rec: Ck, props_file: str, ways: int = 3) -> None:
    """What Ck.theorems does (one `theorem:<name>` obligation per statement of the Props file, with the output of Print
    Assumptions), with the statements dealt over `ways` coqc processes: one process needs 20-35 s for the 50 statements on a
    loaded machine.  The obligations are recorded in the order of the file."""
    import re as _re
    from harness.common import ROCQ, _split_assumptions
    txt = (ROCQ / props_file).read_text()
    names = _re.findall(r"^\s*(?:Theorem|Lemma|Corollary)\s+([A-Za-z0-9_']+)", txt, _re.M)
    mod = 'SV.' + props_file[:-2].replace('/', '.')
    groups = [names[k::ways] for k in range(ways)]

    def one(k: int):
        body = f'Require Import {mod}.\n' + ''.join(f'Print Assumptions {n}.\n' for n in groups[k])
        return rec.coq_scratch(body, f'assumptions{k}')
    try:
        outs = par_map(one, list(range(ways)), ways)
    except Exception as e:      # noqa: BLE001   never silently: the theorem obligations would be missing from the evidence
        rec.obligation(f'assumptions:{props_file}', False, f'Print Assumptions could not be run: {e!r}')
        rec.tie_broken.append(f'Print Assumptions failed for {props_file}')
        return
    got: dict = {}
    for k, (rc, out) in enumerate(outs):
        if rc != 0:
            rec.obligation(f'assumptions:{props_file}', False, out[-2000:])
            rec.tie_broken.append(f'Print Assumptions failed for {props_file}')
            return
        for n, b in zip(groups[k], _split_assumptions(out, len(groups[k]))):
            got[n] = b
    for n in names:
        rec.axioms[n] = got[n]
        rec.obligation(f'theorem:{n}', True, 'Qed; axioms: ' + ('none (closed under the global context)' if not got[n] else ', '.join(got[n])))


# ------------------------------------------------------------------------------------------------ main
def run(ck: Ck) -> None:
    ck.rule = ('trees: random documents over a stress alphabet (quote, backslash, braces, brackets, parentheses, tab and '
               'other escapable controls, CR/LF in values, slash, #, BOM, NUL, astral and lone-surrogate code points, the '
               'letters n t v b r f a that follow a backslash in escapes), depth 0..30, width 0..8, duplicate names and '
               'subtrees, empty strings/blocks; non-trivial = at least one string contains a character that the format '
               'treats specially; distinct by full tree (+ options for serialise cases). parse texts: serialisations, 1-4 '
               'character mutations of them, a hand-written corpus (flags, comments, CR/LF forms, same-line braces, every '
               'error path) and token soup, each under the default or a random vector of the four parse options; '
               'non-trivial = at least 4 characters; distinct by (text, options). chunk lists: the same texts cut per '
               'character, at random positions, with empty chunks, after every backslash/quote/newline; non-trivial = at '
               'least two chunks. token strings: ALL strings up to length 4 (thorough 5) over {STR a, STR b, STR with a '
               'line break, NEWLINE, {, }, enabled flag, disabled flag, EQUALS} x 16 option vectors x {EOF, tokenizer '
               'error}: counted as evaluations, not as distinct non-trivial cases. histories: per searched tree one of '
               '{file raising at the k-th write (1-3 times, one in 16: 130 times), non-str value then repaired, edit '
               'through the public API, export() generator dropped after k lines} (+ a repaired cycle for one tree in 32; '
               'all kinds for the directed documents), then the same tree written again; run after all other oracles.')
    ck.trusted.append('hand-written model KV/KvParse.v (token loop of Keyvalues.parse with its options), tied on every run by '
                      'the exhaustive token-level correspondence and the sampled text-level correspondences')
    ck.trusted.append('Text/Tokenizer.v (reader-program model of Tokenizer, owned and tied by C03); KV/KvLex.v is proved equal '
                      'to it (kv_lexer_refines_tokenizer) for the regenerated tables')
    ck.trusted.append('translate/c02_tables.py (regenerates Gen/EscTables_gen.v, the tables of the C03 tokenizer model)')
    ck.trusted.append('translate/c01_kvser.py tr_serialise (symbolic execution of the wrapper serialise(): buffers, write targets, '
                      'return value) and translate/c01_kvaux.py (symbolic reading of _read_flag, the statement list of _serialise); '
                      'the meaning of the generated objects is in KV/KvWriter.v, KV/KvFlagProg.v (compared with _read_flag on every '
                      'run), KV/KvWProg.v')
    ck.trusted.append('translate/c01_kvser.py init_state / state_refs / state_kind (which module-level and class-level objects are '
                      'mutable state -- by runtime value and "changed by some function of the module" --, statements read as guard / '
                      'mark / unmark / state) and the meaning of the history program in KV/KvWHist.v hstep (an exception = the '
                      'k-th write raises, nothing after it runs); export() as a program: KV/KvXProg.v xstep')
    ck.assumptions += [
        'trees are finite, acyclic, values are str, only the root is nameless (Keyvalues.root / parse result)',
        'names contain no CR/LF unless parse is called with newline_keys=True; values contain none when '
        'newline_values=False; indent and start_indent consist of spaces and tabs',
        'allow_escapes=True for the theorems (allow_escapes=False: sampled correspondence and refutation witnesses only); '
        'the round-trip theorems hold for an arbitrary flag predicate, c01_property uses the regenerated _read_flag',
    ]
    stage: dict = {}
    ck.extra['stage_wall_seconds'] = stage       # informative only: never influences a result
    t_stage = time.time()
    ok_t = ck.translate('KVSer_gen', c01_kvser.translate)
    side = ck.extra.get('translated', {}).get('KVSer_gen', {})
    # the constant tables of the C03 tokenizer model (Text/TokGen.v over Gen/EscTables_gen.v, C02's translator): the
    # refinement theorem kv_lexer_refines_tokenizer is instantiated for them.  When that translator fails closed (it is
    # another property's, and stricter about the spelling of escape_text than translate/c01_kvser.py), everything that
    # does not need its tables is still built and evaluated, so that C01's own named obligations point at the site.
    ok_esc = ck.translate('EscTables_gen', tokenizer_tables_translate)
    # the token loop of Keyvalues.parse as a decision tree (symbolic execution of the loop body, path by path)
    ok_t = ck.translate('KVLoop_gen', c01_kvloop.translate) and ok_t
    # the glue around the anchored functions: the execution paths of the wrapper serialise(), _read_flag as a decision tree,
    # _serialise as a program of write / child-loop / store instructions
    ok_t = ck.translate('KVAux_gen', c01_kvaux.translate) and ok_t
    # KV/KvEnum.vo is used by the correspondences only (no theorem depends on it): name it explicitly
    built = ok_t and ck.build(['Gen/KVSer_gen.vo', 'Gen/KVLoop_gen.vo', 'Gen/KVAux_gen.vo'] + (['Gen/EscTables_gen.vo', 'Text/TokGen.vo'] if ok_esc else [])
                              + ['KV/KvEnum.vo', 'KV/KvLoopEnum.vo', 'Props/C01.vo'])
    if built:
        # Print Assumptions of the 37 theorems takes a single coqc process 15-20 s on a loaded machine: it runs beside the
        # instance obligations and the sampled correspondences.  It reports into a recorder of its own, whose entries are spliced in at this position
        # after the join, so the order of the evidence does not depend on timing.
        import shutil
        import threading
        rec = Ck(ck.pid, ck.tier, ck.seed)
        at_theorems = len(ck.obligations)
        th = threading.Thread(target=theorems_parallel, args=(rec, 'Props/C01.v'))
        th.start()
        noraw = '(fun t => forallb (fun p => match p with PRaw _ | POther => false | _ => true end) t)'
        is_push = '(fun s => match s with SOpenLast | SOpenDummy => true | _ => false end)'
        is_pop = '(fun s => match s with SPop => true | _ => false end)'
        # the obligations that need the C03 tokenizer tables run in a coqc process of their own, beside the main group
        # (a recorder of its own again; spliced in after the main group, so the order of the evidence is fixed)
        rec2 = Ck(ck.pid, ck.tier, ck.seed)
        inst2: dict = {}
        th2 = None
        if ok_esc:
            th2 = threading.Thread(target=lambda: inst2.update(rec2.instance_obligations(
                IMPORTS_REFINE + ['SV.KV.KvSym', 'SV.KV.KvExport', 'SV.KV.KvLoop', 'SV.KV.KvLoopRoundtrip', 'SV.Gen.KVLoop_gen'] + IMPORTS_AUX, {
            'tokenizer_model_escape_table_equals_kv_lexer_table': 'esc_tables_match gen_tables gen_escfg',
            'tokenizer_model_BARE_DISALLOWED_equals_kv_lexer_set': 'bare_tables_match gen_tables',
            'tokenizer_model_operators_are_brace_open_close_equals_comma': 'ops_match (Str.operators gen_tables)',
            'tables_match(premise of parse_any_delivery)': 'tables_match gen_tables gen_escfg',
            'all_nine_hypotheses_of_c01_property_hold_of_the_regenerated_objects':
                'cfg_ok gen_sercfg && esc_ok gen_escfg && pcfg_ok gen_parsecfg && loop_ok gen_ptree gen_pfinal gen_parsecfg && '
                'tables_match gen_tables gen_escfg && delivery_ok gen_serpaths && flagprog_ok gen_flagprog && '
                'wprog_pure gen_wprog && wprog_text_ok gen_sercfg gen_wprog',
            'all_thirteen_hypotheses_of_c01_property_all_calls_hold_of_the_regenerated_objects':
                'cfg_ok gen_sercfg && esc_ok gen_escfg && pcfg_ok gen_parsecfg && loop_ok gen_ptree gen_pfinal gen_parsecfg && '
                'tables_match gen_tables gen_escfg && delivery_ok gen_serpaths && flagprog_ok gen_flagprog && '
                'wprog_pure gen_wprog && wprog_text_ok gen_sercfg gen_wprog && hprog_stateless gen_hprog && '
                'xcfg_ok gen_expcfg && xprog_pure gen_xprog && xprog_text_ok gen_expcfg gen_xprog',
          }, name='inst_refine')))
            th2.start()
        inst = ck.instance_obligations(IMPORTS + [i for i in IMPORTS_LOOP if i not in IMPORTS] + IMPORTS_AUX, {
            'escape_table_covers_quote': 'esc_quote_ok gen_escfg',
            'escape_table_covers_backslash': 'esc_backslash_ok gen_escfg',
            'escape_table_covers_CR': 'esc_cr_ok gen_escfg',
            'escape_table_covers_LF': 'esc_lf_ok gen_escfg',
            'every_escape_written_is_read_back': 'esc_inverse_ok gen_escfg',
            'escape_fast_path_covers_every_escaped_character': 'Nat.eqb (List.length gen_esc_fastpath_missing) 0',
            'block_head_lexes_to_name_NL_brace_NL(indent_braces=True)': 'head_ok gen_sercfg true',
            'block_head_lexes_to_name_NL_brace_NL(indent_braces=False)': 'head_ok gen_sercfg false',
            'block_tail_lexes_to_brace_NL(indent_braces=True)': 'tail_ok gen_sercfg true',
            'block_tail_lexes_to_brace_NL(indent_braces=False)': 'tail_ok gen_sercfg false',
            'leaf_lexes_to_name_value_NL(indent_braces=True)': 'leaf_ok gen_sercfg true',
            'leaf_lexes_to_name_value_NL(indent_braces=False)': 'leaf_ok gen_sercfg false',
            'child_indent_is_whitespace': 'child_indent_ok gen_sercfg',
            'root_child_indent_is_whitespace': 'root_indent_ok gen_sercfg',
            'root_test_of_serialise_is_identity_with_None': 'root_test_ok gen_sercfg',
            'tokenizer_options_of_parse_are_those_of_the_lexer_model':
                'match gen_parse_topts with cons true (cons true (cons false (cons false (cons false (cons false nil))))) => true '
                '| _ => false end',
            'parse_newline_key_test_rejects_only_LF_CR': 'key_break_ok gen_parsecfg',
            'parse_newline_value_test_rejects_only_LF_CR': 'value_break_ok gen_parsecfg',
            'cfg_ok_and_esc_ok_and_pcfg_ok(premises of kv_roundtrip)':
                'cfg_ok gen_sercfg && esc_ok gen_escfg && pcfg_ok gen_parsecfg',
            'export_yields_have_no_raw_field': f'forallb {noraw} gen_export_yields',
            'export_block_head_lexes_to_name_NL_brace_NL': 'xhead_ok gen_expcfg',
            'export_block_tail_lexes_to_brace_NL': 'xtail_ok gen_expcfg',
            'export_leaf_lexes_to_name_value_NL': 'xleaf_ok gen_expcfg',
            'export_child_prefix_is_whitespace': 'xprefix_ok gen_expcfg',
            'root_test_of_export_is_identity_with_None': 'xroot_test_ok gen_expcfg',
            'xcfg_ok(premise of kv_export_roundtrip)': 'xcfg_ok gen_expcfg',
            # the wrapper serialise() as its execution paths (Gen/KVAux_gen.v gen_serpaths)
            'serialise_hands_the_writes_of__serialise_to_the_destination_unprocessed_and_returns_them': 'delivery_direct gen_serpaths',
            'serialise_has_a_path_for_every_way_of_calling(file_or_not,indent_braces)': 'delivery_total gen_serpaths',
            'delivery_ok(premise of serialise_delivery)': 'delivery_ok gen_serpaths',
            # the write templates as sequences of writer lines (KV/KvShift.v): cur_indent exactly once, at the start of each
            'cur_indent_is_written_exactly_at_the_start_of_every_writer_line(indent_braces=True)':
                'lines_ok gen_sercfg {| o_indent := nil; o_indent_braces := true; o_start := nil |}',
            'cur_indent_is_written_exactly_at_the_start_of_every_writer_line(indent_braces=False)':
                'lines_ok gen_sercfg {| o_indent := nil; o_indent_braces := false; o_start := nil |}',
            # _read_flag as a decision tree (gen_flagprog)
            'read_flag_with_bang_is_the_negated_lookup_of_the_casefolded_rest': 'flagprog_bang_ok gen_flagprog',
            'read_flag_without_bang_is_the_lookup_of_the_casefolded_text': 'flagprog_plain_ok gen_flagprog',
            'flagprog_ok(premise of read_flag_program_is_model)': 'flagprog_ok gen_flagprog',
            # _serialise as an instruction program (gen_wprog)
            'writer_program_has_no_store_or_mutating_instruction': 'wprog_pure gen_wprog',
            'writer_program_writes_are_the_templates_of_the_writer_model': 'wprog_text_ok gen_sercfg gen_wprog',
            # state that outlives a call (round 5): _serialise as a program over it (gen_hprog, KV/KvWHist.v), and the census of
            # serialise / _serialise / export / escape_text / _escape_matcher
            'writer_program_has_no_instruction_touching_state_that_outlives_the_call(premise of writer_history_independent)':
                'hprog_stateless gen_hprog',
            'writers_read_and_write_no_module_or_class_level_mutable_object': 'Nat.eqb (length gen_writer_state_sites) 0',
            'history_program_and_writer_program_have_the_same_writes_and_child_loops': 'same_skeleton gen_hprog gen_wprog',
            # the deprecated export() as an instruction program (gen_xprog, KV/KvXProg.v)
            'export_program_has_no_store_or_mutating_instruction': 'xprog_pure gen_xprog',
            'export_program_yields_are_those_of_the_export_model': 'xprog_text_ok gen_expcfg gen_xprog',
            'no_store_to_tree_in_writers': 'Nat.eqb (length gen_tree_stores) 0',
            'no_mutating_call_on_tree_in_writers': 'Nat.eqb (length gen_tree_mut_calls) 0',
            # the token loop of parse as a regenerated decision tree (Gen/KVLoop_gen.v) against the reference tree
            'parse_loop_every_path_restores_the_block_stack_invariant': 'no_unknown gen_ptree',
            'parse_loop_on_BRACE_OPEN_equivalent_to_reference_tree': 'equiv_on KBO gen_ptree ref_ptree',
            'parse_loop_on_BRACE_CLOSE_equivalent_to_reference_tree': 'equiv_on KBC gen_ptree ref_ptree',
            'parse_loop_on_NEWLINE_equivalent_to_reference_tree': 'equiv_on KNL gen_ptree ref_ptree',
            'parse_loop_on_STRING_equivalent_to_reference_tree': 'equiv_on KStr gen_ptree ref_ptree',
            'parse_loop_on_other_tokens_equivalent_to_reference_tree':
                'equiv_on KFlag gen_ptree ref_ptree && equiv_on KOther gen_ptree ref_ptree',
            'parse_loop_pushes_only_at_BRACE_OPEN_and_pops_only_at_BRACE_CLOSE':
                f'Nat.eqb (count_sop {is_push} gen_ptree) (count_sop {is_push} (restrict0 KBO gen_ptree)) && '
                f'Nat.eqb (count_sop {is_pop} gen_ptree) (count_sop {is_pop} (restrict0 KBC gen_ptree)) && '
                f'negb (Nat.eqb (count_sop {is_push} gen_ptree) 0) && negb (Nat.eqb (count_sop {is_pop} gen_ptree) 0)',
            'parse_checks_after_the_loop_equivalent_to_reference_tree': 'tree_equiv gen_pfinal ref_pfinal',
            'parse_emptiness_guards_present': 'p_replace_guard gen_parsecfg && p_single_block_guard gen_parsecfg',
            'loop_ok(premise of parse_loop_tree_is_model)': 'loop_ok gen_ptree gen_pfinal gen_parsecfg',
            f'parse_loop_tree_runs_like_token_loop_model_on_all_token_strings_up_to_length_{ck.budget(3, 4)}':
                f'tree_agrees_upto gen_ptree gen_pfinal gen_parsecfg {ck.budget(3, 4)}',
        })
        if th2 is not None:
            th2.join()
            if not rec2.obligations:        # the thread died: never silently
                rec2.obligation('instance:inst_refine', False, 'the obligations over the tokenizer tables could not be evaluated')
                rec2.tie_broken.append('instance obligations inst_refine could not be run')
            ck.obligations.extend(rec2.obligations)
            ck.tie_broken.extend(rec2.tie_broken)
            ck.notes.extend(rec2.notes)
            inst.update(inst2)
            shutil.rmtree(rec2.scratch, ignore_errors=True)
        if not all(inst.values()):
            ck.tie_broken.append('instance obligations over Gen/KVSer_gen.v / Gen/KVLoop_gen.v: ' + ', '.join(k for k, v in inst.items() if not v))
        stage['build+theorems+instances'] = round(time.time() - t_stage, 1)
        t_stage = time.time()
        tie_tables(ck, side)
        # the correspondences: cases are generated sequentially (ck.rng), the model is evaluated on all chunks in
        # parallel coqc processes, results are consumed in order
        t_sub = time.time()
        pending = [corr_serialise(ck), corr_parse(ck), corr_read_flag(ck, bool(side.get('read_flag_shape_recognised')))]
        stage['  of which: generating the correspondence cases (implementation runs)'] = round(time.time() - t_sub, 1)
        t_sub = time.time()
        results = eval_jobs(ck, [j for jobs, _ in pending for j in jobs])
        stage['  of which: model evaluation (parallel coqc)'] = round(time.time() - t_sub, 1)
        t_sub = time.time()
        at = 0
        for jobs, fin in pending:
            fin(results[at:at + len(jobs)])
            at += len(jobs)
        th.join()
        if not rec.obligations:             # the thread died: never silently
            rec.obligation('assumptions:Props/C01.v', False, 'Print Assumptions could not be run')
            rec.tie_broken.append('Print Assumptions failed for Props/C01.v')
        stage['  of which: waiting for Print Assumptions'] = round(time.time() - t_sub, 1)
        ck.obligations[at_theorems:at_theorems] = rec.obligations
        ck.axioms.update(rec.axioms)
        ck.tie_broken.extend(rec.tie_broken)
        shutil.rmtree(rec.scratch, ignore_errors=True)
        stage['tables+correspondences'] = round(time.time() - t_stage, 1)
        t_stage = time.time()
        corr_tokens(ck)
        stage['token-exhaustive'] = round(time.time() - t_stage, 1)
        t_stage = time.time()
        if ok_esc:
            corr_chunked(ck)
        stage['chunked'] = round(time.time() - t_stage, 1)
    t_stage = time.time()
    search(ck)
    stage['search'] = round(time.time() - t_stage, 1)
    keys = {v['key'] for v in ck.violations}
    # A failed obligation is explained by a concrete failing input on the same path:
    #  - a round-trip failure through serialise() (default or other parse options) or an indentation-dependence of the
    #    tokens / non-blank text explains the serialise-side template / escape-table / root-test / newline-test obligations;
    #  - an export() round-trip failure explains the export census obligation;
    #  - an observed mutation explains the store / mutating-call census.
    # A translator that failed closed and a correspondence disagreement are never explained away: they mean the
    # model no longer describes the source, whatever else was found.
    if any(k.startswith(('roundtrip:', 'roundtrip-named-node:', 'roundtrip-options:', 'indent-changes-')) for k in keys):
        for pre in ('instance:block_head_lexes', 'instance:block_tail_lexes', 'instance:leaf_lexes',
                    'instance:child_indent', 'instance:root_child_indent', 'instance:cfg_ok_and_esc_ok',
                    'instance:escape_table', 'instance:every_escape_written', 'instance:escape_fast_path',
                    'instance:root_test_of_serialise', 'instance:serialise_hands_the_writes', 'instance:serialise_has_a_path',
                    'instance:delivery_ok', 'instance:all_nine_hypotheses', 'instance:all_thirteen_hypotheses', 'instance:writer_program_writes_are',
                    'instance:cur_indent_is_written_exactly',
                    'instance:parse_newline_key_test', 'instance:parse_newline_value_test',
                    'instance:parse_loop_', 'instance:parse_checks_after', 'instance:parse_emptiness', 'instance:loop_ok'):
            ck.explain(pre)
    if any(k.startswith('export-roundtrip') for k in keys):
        for pre in ('instance:export_', 'instance:root_test_of_export', 'instance:xcfg_ok', 'instance:all_thirteen_hypotheses'):
            ck.explain(pre)
    if 'serialise-to-file-differs' in keys:
        for pre in ('instance:serialise_hands_the_writes', 'instance:serialise_has_a_path', 'instance:delivery_ok',
                    'instance:all_nine_hypotheses', 'instance:all_thirteen_hypotheses'):
            ck.explain(pre)
    if any(k.startswith('history:') for k in keys):
        # an aborted call that changes what a later call does explains the state obligations
        ck.explain('instance:writer_program_has_no_instruction_touching_state')
        ck.explain('instance:writers_read_and_write_no_module_or_class_level')
        ck.explain('instance:all_thirteen_hypotheses')
    if 'serialise-mutates-tree' in keys or 'export-mutates-tree' in keys:
        ck.explain('instance:no_store_to_tree')
        ck.explain('instance:no_mutating_call')
        ck.explain('instance:writer_program_has_no_store')
        ck.explain('instance:export_program_has_no_store')
        ck.explain('instance:export_program_yields_are')
        ck.explain('instance:all_thirteen_hypotheses')
        ck.explain('instance:writer_program_writes_are')
        ck.explain('instance:all_nine_hypotheses')


def replay(data: dict) -> int:
    r = data['replay']
    if 'doc' not in r:
        print(r)
        return 0

    def tup(t):
        return (t[0], t[1], t[2]) if t[0] == 'L' else ('B', t[1], [tup(c) for c in t[2]])
    doc = [tup(t) for t in r['doc']]
    opts = r.get('opts') or {}
    extra = r.get('extra') or {}
    if extra.get('history_sequence'):
        seq = extra['history_sequence']
        print('history   :', f'{len(seq)} histories of aborted calls, one after the other, in this (fresh) process')
        d = ''
        for dd, oo, kk, hh in seq:
            d = history_fails([tup(t) for t in dd], oo, kk, int(hh))
        print('last one  :', d or 'the tree is written like a freshly built equal tree')
        print('round trip:', 'DIFFERS' if d else 'OK')
        return 0
    if extra.get('history'):
        print('tree      :', doc)
        print('options   :', opts)
        print('history   :', f'an aborted call of kind {extra["history"]!r} (selector {extra.get("k", 0)}), then the same tree is written again')
        d = history_fails(doc, opts, extra['history'], int(extra.get('k', 0)))
        print('second call:', d or 'same text as a freshly built equal tree')
        print('round trip:', 'DIFFERS' if d else 'OK')
        return 0
    text, werr = write_text(build(doc[0]) if extra.get('named') else build_root(doc), opts,
                            'export' if extra.get('writer') == 'export' else 'serialise')
    print('tree      :', doc)
    print('options   :', opts)
    if text is None:
        print('writer    :', 'did not return within %.0f s' % IMPL_TIME_LIMIT if werr == 'hang' else 'raised ' + werr)
        print('round trip: DIFFERS')
        return 0
    print('text      :', repr(text))
    if extra.get('writer') != 'export':
        buf = io.StringIO()
        try:
            with warnings.catch_warnings():
                warnings.simplefilter('ignore')
                ret = guarded((build(doc[0]) if extra.get('named') else build_root(doc)).serialise, buf, **opts)
            print('to a file :', 'same text, returns None' if ret is None and buf.getvalue() == text
                  else f'DIFFERS: returns {ret!r}, writes {buf.getvalue()!r}')
        except (ImplTimeout, Exception) as e:       # noqa: BLE001
            print('to a file :', 'DIFFERS:', type(e).__name__)
    po = extra.get('parse_options')
    got = impl_parse(text, None, po)
    print('parse opts:', po or 'defaults')
    print('parse     :', got)
    print('round trip:', 'OK' if got == (options_expected(doc, po) if po else ('ok', doc)) else 'DIFFERS')
    if 'chunks' in extra and isinstance(extra['chunks'], list):
        print('chunked   :', impl_parse(extra['chunks']))
    return 0
